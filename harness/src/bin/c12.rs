//! C12 — XLS strings decode identically however records are split and characters packed.
//!
//! Stage A (`case`): random shared-string tables × random legal layouts (CONTINUE cut sets × per-segment
//!   packing). The Lean encoder (`drv_c12`, Spec/SstEnc) produces the record stream; three results are compared:
//!     impl   : the real `RecordIter` + `parse_sst` through the hook `verif_hooks::xls::sst_from_stream` (code page 1200)
//!     model  : the Lean model (`Model/BiffStrings`, the definitions the theorems of Props/C12 are about)
//!     oracle : the original strings (the property: every layout decodes to the text that was stored)
//!   The same table is laid out 8 ways; all 8 results must be identical.
//! Stage B (`dec`/`recs`/`skip`): correspondence only, on illegal layouts and mutated / truncated streams,
//!   raw record sequences and `Record::skip`.
//! Stage C (`short`/`str`): `parse_short_string` / `parse_string` payloads (8-bit, 16-bit, empty, truncated).
//! Stage F (`wb`): a raw Workbook stream (globals substream + sheet substreams) with records shorter than their
//!   fixed layout, wrapped into a compound file and opened with `Xls::new`: the reader must answer Ok or Err,
//!   never panic (robustness of xls.rs: the C06 overlap repaired together with C02's sites).
//! Stage G (`names`): defined names (Lbl records) of BIFF8 workbooks (flag byte + 8/16-bit characters) and BIFF5
//!   workbooks (plain code-page bytes, no flag byte) read through `Xls::new` / `defined_names` against the stored names.
//! Stage D (`file`): one layout of every table is wrapped into a complete .xls (compound file written by
//!   `verif_harness::xlsw`, the SST + CONTINUE records being the Lean encoder's) with LABELSST cells for every
//!   string, inline LABEL cells, FORMULA + STRING results and sheet names taken from the table; read through
//!   `Xls::new` / `sheet_names` / `worksheet_range` and compared with the stored text.
#[cfg(feature = "hooks")]
use calamine::verif_hooks::xls as hooks;
use calamine::{Data, Reader, Xls, XlsOptions};
use std::sync::mpsc;
use verif_harness::xlsw::{rgce_int, Cached, CellV, XlsBook, XlsCell, XlsSheet};
use verif_harness::{driver::Driver, guarded, report::Report, rng::Rng, Args};

const MAX_FRAG: usize = 8224;

// ---------------------------------------------------------------- hex (fast paths for MB-sized streams)

fn hexs(bytes: &[u8]) -> String {
    if bytes.is_empty() {
        return "-".into();
    }
    const D: &[u8; 16] = b"0123456789abcdef";
    let mut s = Vec::with_capacity(bytes.len() * 2);
    for b in bytes {
        s.push(D[(b >> 4) as usize]);
        s.push(D[(b & 15) as usize]);
    }
    String::from_utf8(s).unwrap()
}

fn unhex(s: &str) -> Vec<u8> {
    verif_harness::unhex(s)
}

// ---------------------------------------------------------------- tables and layouts

#[derive(Clone, Debug)]
struct Entry {
    units: Vec<u16>,
    runs: Option<Vec<u8>>,
    ext: Option<Vec<u8>>,
}

#[derive(Clone, Debug, Default)]
struct Layout {
    cut_before: bool,
    wide0: bool,
    cuts: Vec<(usize, bool)>,
    run_cuts: Vec<usize>,
    ext_cuts: Vec<usize>,
}

fn is_high(u: u16) -> bool {
    (0xD800..0xDC00).contains(&u)
}
fn is_low(u: u16) -> bool {
    (0xDC00..0xE000).contains(&u)
}

fn opt_hex(o: &Option<Vec<u8>>) -> String {
    match o {
        None => "~".into(),
        Some(b) => hexs(b),
    }
}

fn nat_list(l: &[usize]) -> String {
    if l.is_empty() {
        "-".into()
    } else {
        l.iter().map(|n| n.to_string()).collect::<Vec<_>>().join("/")
    }
}

fn wire_entry(e: &Entry, l: &Layout) -> String {
    let ub: Vec<u8> = e.units.iter().flat_map(|u| u.to_le_bytes()).collect();
    let cuts = if l.cuts.is_empty() {
        "-".to_string()
    } else {
        l.cuts.iter().map(|(n, w)| format!("{n}:{}", *w as u8)).collect::<Vec<_>>().join("/")
    };
    format!(
        "{},{},{},{},{},{},{},{}",
        hexs(&ub),
        opt_hex(&e.runs),
        opt_hex(&e.ext),
        l.cut_before as u8,
        l.wide0 as u8,
        cuts,
        nat_list(&l.run_cuts),
        nat_list(&l.ext_cuts)
    )
}

fn wire_table(total: u32, t: &[Entry], ls: &[Layout]) -> String {
    if t.is_empty() {
        return format!("case {total} -");
    }
    let es: Vec<String> = t.iter().zip(ls).map(|(e, l)| wire_entry(e, l)).collect();
    format!("case {total} {}", es.join(";"))
}

fn parse_case(line: &str) -> Option<(u32, Vec<Entry>, Vec<Layout>)> {
    let w: Vec<&str> = line.split_whitespace().collect();
    if w.len() != 3 || w[0] != "case" {
        return None;
    }
    let total = w[1].parse().ok()?;
    let mut t = vec![];
    let mut ls = vec![];
    if w[2] != "-" {
        for e in w[2].split(';') {
            let f: Vec<&str> = e.split(',').collect();
            if f.len() != 8 {
                return None;
            }
            let ub = unhex(f[0]);
            let units = ub.chunks(2).filter(|c| c.len() == 2).map(|c| u16::from_le_bytes([c[0], c[1]])).collect();
            let ob = |s: &str| if s == "~" { None } else { Some(unhex(s)) };
            let nl = |s: &str| -> Vec<usize> {
                if s == "-" {
                    vec![]
                } else {
                    s.split('/').map(|x| x.parse().unwrap()).collect()
                }
            };
            let cuts = if f[5] == "-" {
                vec![]
            } else {
                f[5].split('/')
                    .map(|p| {
                        let (a, b) = p.split_once(':').unwrap();
                        (a.parse().unwrap(), b == "1")
                    })
                    .collect()
            };
            t.push(Entry { units, runs: ob(f[1]), ext: ob(f[2]) });
            ls.push(Layout { cut_before: f[3] == "1", wide0: f[4] == "1", cuts, run_cuts: nl(f[6]), ext_cuts: nl(f[7]) });
        }
    }
    Some((total, t, ls))
}

/// characters that sit on decoder boundaries (BOM look-alikes, last/first code points around the surrogate
/// block, Latin-1 edge, NUL)
const SPECIAL: [u32; 16] = [
    0xFEFF, 0xFFFE, 0xBBEF, 0x00BF, 0xFFFD, 0xD7FF, 0xE000, 0xFFFF, 0x0000, 0x00FF, 0x0100, 0x10000, 0x10FFFF, 0x1F600, 0x00EF,
    0xBFBB,
];

fn gen_char(rng: &mut Rng, class: u64) -> char {
    loop {
        let cp = match class {
            0 => rng.range(0x20, 0x7E) as u32,                          // ASCII
            1 => rng.range(0x00, 0xFF) as u32,                          // Latin-1 (all units < 0x100)
            2 => match rng.below(10) {
                0..=3 => rng.range(0x20, 0xFF) as u32,
                4..=7 => rng.range(0x100, 0xFFFF) as u32,
                8 => rng.range(0x10000, 0x10FFFF) as u32,
                _ => *rng.pick(&SPECIAL),
            },
            3 => rng.range(0x10000, 0x10FFFF) as u32,                   // astral only
            _ => *rng.pick(&SPECIAL),
        };
        if let Some(c) = char::from_u32(cp) {
            return c;
        }
    }
}

fn gen_units(rng: &mut Rng, target: usize) -> Vec<u16> {
    // class of the string: pure ASCII, pure Latin-1, mixed BMP+astral, astral-heavy, special-heavy
    let class = *rng.pick(&[0u64, 1, 1, 2, 2, 2, 2, 3, 4]);
    gen_units_class(rng, target, class)
}

fn gen_units_class(rng: &mut Rng, target: usize, class: u64) -> Vec<u16> {
    let mut u: Vec<u16> = Vec::with_capacity(target + 1);
    let mut buf = [0u16; 2];
    while u.len() < target {
        // inside a mixed string switch class for runs of characters so that segments can change packing
        let c = if class == 2 && rng.chance(1, 3) {
            let k = rng.below(5);
            gen_char(rng, k)
        } else {
            gen_char(rng, class)
        };
        let enc = c.encode_utf16(&mut buf);
        if u.len() + enc.len() > target {
            u.push(b'x' as u16);
        } else {
            u.extend_from_slice(enc);
        }
    }
    u
}

fn gen_len(rng: &mut Rng, giant_ok: bool) -> usize {
    match rng.below(100) {
        0..=9 => 0,
        10..=19 => 1,
        20..=27 => 2,
        28..=69 => rng.range(3, 20) as usize,
        70..=92 => rng.range(21, 300) as usize,
        93..=95 => rng.range(301, 3000) as usize,
        _ => {
            if giant_ok {
                *rng.pick(&[8224usize, 8225, 4111, 4112, 16448, 32766, 32767, 0, 0]) + rng.below(3) as usize
            } else {
                rng.range(3, 20) as usize
            }
        }
    }
    .min(32767)
}

/// a table of 13..80 strings nearly all of which are empty (cch = 0: 3 bytes, or 5 / 7 / 9 with the rich / ext
/// flags carrying zero counts), a few short non-empty ones mostly at the end: more strings than a quarter of the
/// payload bytes, what a writer that does not de-duplicate produces
fn gen_empty_table(rng: &mut Rng) -> Vec<Entry> {
    let n = rng.range(13, 80) as usize;
    let tail = rng.below(4) as usize;
    (0..n)
        .map(|i| {
            let nonempty = i + tail >= n || rng.chance(1, 25);
            let k = if nonempty { rng.range(1, 4) as usize } else { 0 };
            Entry {
                units: gen_units(rng, k),
                runs: if rng.chance(1, 5) { Some(vec![]) } else { None },
                ext: if rng.chance(1, 7) { Some(vec![]) } else { None },
            }
        })
        .collect()
}

/// 1..3 long strings of 8-bit characters (4095 / 4096 / 4097 / 5000 / 8000 / 8200): as shared strings, and (file
/// stage) as inline LABEL and formula STRING values, which hold up to 8224 bytes in one record
fn gen_long8_table(rng: &mut Rng) -> Vec<Entry> {
    let n = rng.range(1, 3) as usize;
    (0..n)
        .map(|_| {
            let len = *rng.pick(&[4095usize, 4096, 4097, 5000, 8000, 8200]);
            let class = rng.below(2);
            Entry { units: gen_units_class(rng, len, class), runs: None, ext: None }
        })
        .collect()
}

fn gen_table(rng: &mut Rng) -> Vec<Entry> {
    if rng.chance(1, 12) {
        return gen_empty_table(rng);
    }
    if rng.chance(1, 40) {
        return gen_long8_table(rng);
    }
    let n = match rng.below(10) {
        0 => 0,
        1..=4 => rng.range(1, 4),
        5..=8 => rng.range(5, 15),
        _ => rng.range(16, 40),
    } as usize;
    let giant_table = rng.chance(1, 30);
    let mut budget: usize = 70_000;
    let mut t = vec![];
    for _ in 0..n {
        let mut len = gen_len(rng, giant_table);
        if len > budget {
            len = budget.min(5);
        }
        budget -= len;
        let units = gen_units(rng, len);
        let runs = if rng.chance(1, 4) {
            let k = match rng.below(40) {
                0..=3 => 0,
                4..=34 => rng.range(1, 6),
                35..=38 => rng.range(7, 100),
                // > 8224 bytes: rgRun itself must span records; now and then >= 16384 runs (4 * cRun no longer fits 16 bits)
                _ => {
                    if rng.chance(1, 5) {
                        rng.range(16384, 16500)
                    } else {
                        rng.range(2000, 2100)
                    }
                }
            } as usize;
            Some(rng.bytes(4 * k))
        } else {
            None
        };
        let ext = if rng.chance(1, 4) {
            let k = match rng.below(40) {
                0..=3 => 0,
                4..=34 => rng.range(1, 40),
                35..=38 => rng.range(41, 600),
                _ => rng.range(8200, 9000),
            } as usize;
            Some(rng.bytes(k))
        } else {
            None
        };
        t.push(Entry { units, runs, ext });
    }
    t
}

/// style 0: only forced cuts, always 16-bit. style 1: only forced cuts, 8-bit wherever possible.
/// style >= 2: random cut density (sparse … almost every character), random packing per segment.
struct Style {
    p_between: (u64, u64),
    p_char: (u64, u64),
    p_block: (u64, u64),
    pack: u8, // 0 = wide, 1 = narrow when possible, 2 = random
    aligned_runs: bool,
    /// breaks may fall between the halves of a surrogate pair (a record is cut after any 16-bit unit)
    split_pairs: bool,
    /// now and then a CONTINUE record inside the characters holds its flag byte alone
    flag_only: bool,
}

fn style(rng: &mut Rng, k: usize) -> Style {
    match k {
        0 => Style { p_between: (0, 1), p_char: (0, 1), p_block: (0, 1), pack: 0, aligned_runs: true, split_pairs: true, flag_only: false },
        1 => Style { p_between: (0, 1), p_char: (0, 1), p_block: (0, 1), pack: 1, aligned_runs: true, split_pairs: false, flag_only: false },
        _ => {
            let dens = [(1u64, 400u64), (1, 40), (1, 8), (1, 2), (9, 10)];
            Style {
                p_between: *rng.pick(&[(0u64, 1u64), (1, 5), (1, 2), (1, 1)]),
                p_char: *rng.pick(&dens),
                p_block: *rng.pick(&dens),
                pack: *rng.pick(&[0u8, 1, 2, 2, 2]),
                aligned_runs: true,
                split_pairs: rng.chance(1, 2),
                flag_only: rng.chance(1, 4),
            }
        }
    }
}

fn layout_block(len: usize, cur: &mut usize, rng: &mut Rng, p: (u64, u64), align: usize) -> Vec<usize> {
    let mut cuts = vec![];
    let mut pos = 0usize;
    // a break right before the block
    if len > 0 && p.0 > 0 && rng.chance(p.0, p.1 * 2) {
        cuts.push(0);
        *cur = 0;
    }
    loop {
        // next voluntary cut
        let mut q = len;
        if p.0 > 0 {
            let mut x = pos + align;
            while x < len {
                if rng.chance(p.0, p.1) {
                    q = x;
                    break;
                }
                x += align;
            }
        }
        let cap = (MAX_FRAG - *cur) / align * align;
        let end = q.min(pos + cap);
        if end == len {
            *cur += end - pos;
            return cuts;
        }
        cuts.push(end - pos);
        *cur = 0;
        pos = end;
    }
}

fn make_layout(t: &[Entry], rng: &mut Rng, st: &Style) -> Vec<Layout> {
    let mut cur = 8usize;
    let mut out = vec![];
    for e in t {
        let h = 3 + if e.runs.is_some() { 2 } else { 0 } + if e.ext.is_some() { 4 } else { 0 };
        let mut cut_before = st.p_between.0 > 0 && rng.chance(st.p_between.0, st.p_between.1);
        if cur + h > MAX_FRAG {
            cut_before = true;
        }
        if cut_before {
            cur = 0;
        }
        cur += h;
        let u = &e.units;
        let n = u.len();
        let mut segs: Vec<(usize, bool)> = vec![];
        let mut pos = 0usize;
        let zero_first = n > 0 && st.p_char.0 > 0 && rng.chance(1, 25);
        loop {
            let first = segs.is_empty();
            let mut q = n;
            if first && zero_first {
                q = 0;
            } else if st.p_char.0 > 0 {
                let mut x = pos + 1;
                while x < n {
                    if (st.split_pairs || !(is_high(u[x - 1]) && is_low(u[x]))) && rng.chance(st.p_char.0, st.p_char.1) {
                        q = x;
                        break;
                    }
                    x += 1;
                }
            }
            let needs_wide = u[pos..q].iter().any(|x| *x >= 256);
            let wide = needs_wide
                || match st.pack {
                    0 => true,
                    1 => false,
                    _ => rng.chance(1, 2),
                };
            let bw = if wide { 2 } else { 1 };
            let cap = (MAX_FRAG - cur) / bw;
            let mut end = q;
            if end - pos > cap {
                end = pos + cap;
                if !st.split_pairs && end > pos && end < n && is_high(u[end - 1]) && is_low(u[end]) {
                    end -= 1;
                }
            }
            segs.push((end - pos, wide));
            cur += (end - pos) * bw;
            pos = end;
            if pos >= n {
                break;
            }
            cur = 1; // new CONTINUE record: flag byte
            if st.flag_only && rng.chance(1, 6) {
                // a CONTINUE record that holds its flag byte alone; the characters go on in the next one
                segs.push((0, rng.chance(1, 2)));
            }
        }
        let wide0 = segs[0].1;
        let cuts: Vec<(usize, bool)> = (0..segs.len() - 1).map(|i| (segs[i].0, segs[i + 1].1)).collect();
        let run_cuts = match &e.runs {
            Some(r) => layout_block(r.len(), &mut cur, rng, st.p_block, if st.aligned_runs { 4 } else { 1 }),
            None => vec![],
        };
        let ext_cuts = match &e.ext {
            Some(x) => layout_block(x.len(), &mut cur, rng, st.p_block, 1),
            None => vec![],
        };
        out.push(Layout { cut_before, wide0, cuts, run_cuts, ext_cuts });
    }
    out
}

// ---------------------------------------------------------------- canonical results

fn canon_err(dbg: &str) -> String {
    // `Len { expected: 8, found: 3, typ: "sst" }` (any field order) → `Len:sst:8:3`; `EoStream("dbcs")` → `EoStream:dbcs`
    if dbg.starts_with("Len {") {
        let grab = |key: &str| -> String {
            match dbg.find(key) {
                Some(i) => dbg[i + key.len()..].chars().take_while(|c| *c != ',' && *c != '}' && *c != '"').collect::<String>().trim().to_string(),
                None => "?".into(),
            }
        };
        return format!("err:Len:{}:{}:{}", grab("typ: \""), grab("expected: "), grab("found: "));
    }
    if let Some(rest) = dbg.strip_prefix("EoStream(\"") {
        return format!("err:EoStream:{}", rest.trim_end_matches("\")"));
    }
    format!("err:{dbg}")
}

fn canon_strings(ss: &[String]) -> String {
    if ss.is_empty() {
        return "ok 0".into();
    }
    format!("ok {} {}", ss.len(), ss.iter().map(|s| hexs(s.as_bytes())).collect::<Vec<_>>().join(":"))
}

/// the strings of an SST + CONTINUE record sequence. With the hooks: `RecordIter` + `parse_sst` directly
/// (`n` unused). Built without them (`--no-default-features`, what ./check falls back to when a hooked private
/// signature changed): the records become the SST of a generated workbook whose sheet names entry `i` in a
/// LABELSST cell at row `i` for `i < n`; the workbook is read with the public API (`Xls::new`, `worksheet_range`).
#[cfg(feature = "hooks")]
fn impl_sst(stream: &[u8], _n: usize) -> String {
    match guarded(|| hooks::sst_from_stream(stream, 1200)) {
        Ok(Ok(ss)) => canon_strings(&ss),
        Ok(Err(e)) => canon_err(&e),
        Err(_) => "panic".into(),
    }
}

#[cfg(not(feature = "hooks"))]
fn impl_sst(stream: &[u8], n: usize) -> String {
    let mut rng = Rng::new(11);
    let mut book = XlsBook::new();
    book.sst_raw = Some(split_payloads(stream));
    let mut sh = XlsSheet::new("S");
    for i in 0..n.min(65535) {
        sh.cells.push(XlsCell::new(i as u16, 0, CellV::LabelSst(i as u32)));
    }
    book.sheets.push(sh);
    let bytes = book.to_bytes_plain(&mut rng);
    let res = guarded(|| -> Result<Vec<Option<String>>, String> {
        let mut wb: Xls<_> = Xls::new(std::io::Cursor::new(bytes)).map_err(|e| format!("{e:?}"))?;
        let range = wb.worksheet_range("S").map_err(|e| format!("{e:?}"))?;
        Ok((0..n.min(65535))
            .map(|i| match range.get_value((i as u32, 0)) {
                Some(Data::String(s)) => Some(s.clone()),
                _ => None,
            })
            .collect())
    });
    match res {
        Ok(Ok(cells)) => match cells.iter().position(|c| c.is_none()) {
            // a cell without a string: the table is shorter than the cells that refer to it
            Some(k) => canon_strings(&cells[..k].iter().map(|c| c.clone().unwrap()).collect::<Vec<_>>()),
            None => canon_strings(&cells.into_iter().map(|c| c.unwrap()).collect::<Vec<_>>()),
        },
        Ok(Err(e)) => canon_err(&e),
        Err(_) => "panic".into(),
    }
}

#[cfg(feature = "hooks")]
fn show_frags(fs: &[Vec<u8>]) -> String {
    fs.iter().map(|f| hexs(f)).collect::<Vec<_>>().join("/")
}

#[cfg(feature = "hooks")]
fn impl_recs(stream: &[u8]) -> String {
    match guarded(|| hooks::c12_records(stream)) {
        Ok(Ok(rs)) => format!("ok {}", rs.iter().map(|(t, f)| format!("{t}={}", show_frags(f))).collect::<Vec<_>>().join(",")),
        Ok(Err(e)) => canon_err(&e),
        Err(_) => "panic".into(),
    }
}

#[cfg(feature = "hooks")]
fn impl_skip(stream: &[u8], n: usize) -> String {
    match guarded(|| hooks::c12_skip(stream, n)) {
        Ok(Ok(fs)) => format!("ok {}", show_frags(&fs)),
        Ok(Err(e)) => canon_err(&e),
        Err(_) => "panic".into(),
    }
}

#[cfg(feature = "hooks")]
fn impl_str(kind: &str, payload: &[u8], biff8: bool) -> String {
    let r = guarded(|| {
        if kind == "short" {
            hooks::c12_short_string(payload, 1200, biff8)
        } else {
            hooks::c12_string(payload, 1200, biff8)
        }
    });
    match r {
        Ok(Ok(s)) => format!("ok {}", hexs(s.as_bytes())),
        Ok(Err(e)) => canon_err(&e),
        Err(_) => "panic".into(),
    }
}

// ---------------------------------------------------------------- one request = one checked case

#[derive(Default)]
struct Outcome {
    input: String,
    nontrivial: bool,
    counters: Vec<(String, u64)>,
    /// (kind, sig, input, impl, model, expect)
    fails: Vec<(String, String, String, String, String, String)>,
    impl_out: String,
    stream: Vec<u8>,
}

impl Outcome {
    fn count(&mut self, k: &str) {
        self.counters.push((k.to_string(), 1));
    }
    fn add(&mut self, k: &str, n: u64) {
        self.counters.push((k.to_string(), n));
    }
    fn fail(&mut self, kind: &str, sig: &str, i: &str, m: &str, e: &str) {
        self.fails.push((kind.into(), sig.into(), self.input.clone(), i.into(), m.into(), e.into()));
    }
}

fn field<'a>(reply: &'a str, key: &str, next: &str) -> Option<&'a str> {
    let a = reply.find(&format!("{key} "))? + key.len() + 1;
    let rest = &reply[a..];
    if next.is_empty() {
        Some(rest)
    } else {
        let b = rest.find(&format!(" {next} "))?;
        Some(&rest[..b])
    }
}

/// class of a well-formed table's failure, used as the finding signature
fn classify(t: &[Entry], ls: &[Layout], impl_out: &str, expect: &str) -> String {
    if impl_out == "panic" {
        return "legal_table_panics".into();
    }
    if impl_out.starts_with("err:") {
        return format!("legal_table_rejected:{}", impl_out.split(':').nth(1).unwrap_or(""));
    }
    // a segment (first characters after the header or after a CONTINUE flag byte) that starts like a byte-order mark
    let mut bom = false;
    for (e, l) in t.iter().zip(ls) {
        let mut pos = 0usize;
        let mut modes = vec![l.wide0];
        let mut starts = vec![0usize];
        for (n, w) in &l.cuts {
            pos += n;
            starts.push(pos);
            modes.push(*w);
        }
        for (s, w) in starts.iter().zip(modes) {
            if w && *s < e.units.len() {
                let u0 = e.units[*s];
                let u1 = e.units.get(*s + 1).copied().unwrap_or(0);
                if u0 == 0xFEFF || u0 == 0xFFFE || (u0 == 0xBBEF && u1 & 0xFF == 0xBF) {
                    bom = true;
                }
            }
        }
    }
    if bom {
        return "segment_starting_with_bom_units_misdecoded".into();
    }
    let ni = impl_out.split(' ').nth(1).unwrap_or("");
    let ne = expect.split(' ').nth(1).unwrap_or("");
    if ni != ne {
        return "string_count_differs".into();
    }
    "string_text_differs".into()
}

fn run_case(line: &str, drv: &mut Driver) -> Outcome {
    let mut o = Outcome { input: line.to_string(), ..Default::default() };
    let (_, t, ls) = match parse_case(line) {
        Some(x) => x,
        None => {
            o.fail("model_vs_spec", "bad-replay-line", "", "", "");
            return o;
        }
    };
    let reply = drv.ask(line);
    let (bytes, legal, model, dexpect) = match (
        field(&reply, "bytes", "legal"),
        field(&reply, "legal", "model"),
        field(&reply, "model", "expect"),
        field(&reply, "expect", ""),
    ) {
        (Some(a), Some(b), Some(c), Some(d)) => (a, b, c, d),
        _ => {
            o.fail("model_vs_spec", "driver-protocol", "", &reply.chars().take(200).collect::<String>(), "");
            return o;
        }
    };
    let stream = unhex(bytes);
    // oracle: the stored text. Units produced by the generator are well-formed UTF-16; a replay line may hold
    // anything, then the lossy reading is the best statement available and the case is marked as such.
    let wellformed = t.iter().all(|e| String::from_utf16(&e.units).is_ok());
    let texts: Vec<String> = t.iter().map(|e| String::from_utf16_lossy(&e.units)).collect();
    let expect = canon_strings(&texts);
    let imp = impl_sst(&stream, t.len());
    o.impl_out = imp.clone();
    o.stream = stream.clone();
    let cuts: usize = ls.iter().map(|l| l.cuts.len() + l.run_cuts.len() + l.ext_cuts.len() + l.cut_before as usize).sum();
    let inner: usize = ls.iter().map(|l| l.cuts.len() + l.run_cuts.len() + l.ext_cuts.len()).sum();
    o.nontrivial = inner > 0 && !t.is_empty();
    o.add("sst.strings", t.len() as u64);
    o.add("sst.cuts", cuts as u64);
    o.add("sst.cuts_in_chars", ls.iter().map(|l| l.cuts.len() as u64).sum());
    o.add("sst.cuts_in_runs", ls.iter().map(|l| l.run_cuts.len() as u64).sum());
    o.add("sst.cuts_in_ext", ls.iter().map(|l| l.ext_cuts.len() as u64).sum());
    o.add("sst.stream_bytes", stream.len() as u64);
    o.add("sst.narrow_segments", ls.iter().map(|l| (!l.wide0) as u64 + l.cuts.iter().filter(|c| !c.1).count() as u64).sum());
    o.add("sst.wide_segments", ls.iter().map(|l| l.wide0 as u64 + l.cuts.iter().filter(|c| c.1).count() as u64).sum());
    o.add("sst.astral_strings", t.iter().filter(|e| e.units.iter().any(|u| is_high(*u))).count() as u64);
    o.add("sst.rich", t.iter().filter(|e| e.runs.is_some()).count() as u64);
    o.add("sst.ext", t.iter().filter(|e| e.ext.is_some()).count() as u64);
    o.add("sst.long_strings_ge_4112", t.iter().filter(|e| e.units.len() >= 4112).count() as u64);
    if legal != "1" {
        o.count("sst.layout_not_legal");
        if imp != model {
            o.fail("impl_vs_model", "illegal_layout", &imp, model, &expect);
        }
        return o;
    }
    o.count("sst.legal_layouts");
    if !wellformed {
        o.count("sst.illformed_utf16_units");
    }
    if imp != model {
        let sig = classify(&t, &ls, &imp, &expect);
        o.fail("impl_vs_model", &sig, &imp, model, &expect);
    }
    if imp != expect {
        let sig = classify(&t, &ls, &imp, &expect);
        o.fail("impl_vs_spec", &sig, &imp, model, &expect);
    }
    if (model != expect || dexpect != expect) && imp == expect {
        o.fail("model_vs_spec", "sst_roundtrip", &imp, model, &expect);
    }
    o
}

/// correspondence-only requests: `dec <hex>`, `recs <hex>`, `skip <n> <hex>`, `short <b> <hex>`, `str <b> <hex>`
fn run_raw(line: &str, drv: &mut Driver, expect: Option<&str>) -> Outcome {
    let mut o = Outcome { input: line.to_string(), ..Default::default() };
    let w: Vec<&str> = line.split_whitespace().collect();
    #[cfg(feature = "hooks")]
    let imp = match w.as_slice() {
        ["dec", h] => impl_sst(&unhex(h), 0),
        ["recs", h] => impl_recs(&unhex(h)),
        ["skip", n, h] => impl_skip(&unhex(h), n.parse().unwrap_or(0)),
        ["short", b, h] => impl_str("short", &unhex(h), *b == "1"),
        ["str", b, h] => impl_str("str", &unhex(h), *b == "1"),
        _ => {
            o.fail("model_vs_spec", "bad-replay-line", "", "", "");
            return o;
        }
    };
    // without the hooks only the cases that carry an expectation (a well-formed SST / XLUnicodeString) can be
    // driven through a generated workbook: the SST by LABELSST cells, the BIFF8 string as a LABEL cell
    #[cfg(not(feature = "hooks"))]
    let imp = match (w.as_slice(), expect) {
        (["dec", h], Some(e)) => {
            let n = e.split(' ').nth(1).and_then(|x| x.parse().ok()).unwrap_or(0);
            impl_sst(&unhex(h), n)
        }
        (["str", "1", h], Some(_)) => label_via_file(&unhex(h)),
        (["dec", _], None) | (["recs", _], _) | (["skip", _, _], _) | (["short", _, _], _) | (["str", _, _], _) => {
            o.count("skipped.hooks_unavailable");
            return o;
        }
        _ => {
            o.fail("model_vs_spec", "bad-replay-line", "", "", "");
            return o;
        }
    };
    let model = drv.ask(line);
    o.impl_out = imp.clone();
    let kind = w[0];
    o.count(&format!("{kind}.cases"));
    let class = if imp.starts_with("ok") {
        "ok".to_string()
    } else {
        imp.split(':').take(3).collect::<Vec<_>>().join(":")
    };
    o.count(&format!("{kind}.result.{class}"));
    o.nontrivial = imp.starts_with("ok");
    if imp != model {
        o.fail("impl_vs_model", &format!("{kind}:{class}"), &imp, &model, expect.unwrap_or(""));
    }
    if let Some(e) = expect {
        if imp != e {
            let sig = if imp.starts_with("err:Len:") && e == "ok -" {
                format!("empty_{kind}_rejected_biff{}", if w[1] == "1" { 8 } else { 5 })
            } else if kind == "dec" {
                "sst_strings_differ_from_stored".to_string()
            } else if imp.starts_with("ok") && model == e && unhex(w.last().unwrap_or(&"-")).windows(2).any(|p| p == [0xFF, 0xFE] || p == [0xFE, 0xFF] || p == [0xEF, 0xBB]) {
                format!("{kind}_bom_units_misdecoded")
            } else {
                format!("{kind}_text_differs")
            };
            o.fail("impl_vs_spec", &sig, &imp, &model, e);
        } else if model != e {
            o.fail("model_vs_spec", kind, &imp, &model, e);
        }
    }
    #[cfg(feature = "hooks")]
    if imp == "panic" && kind == "dec" {
        // malformed stream: not in C12's quantifier, but a panic escaping the reader is the C06 overlap (D31-b)
        let sig = format!("malformed_stream_panic:{}", panic_site(&unhex(w[1])));
        o.fail("impl_vs_spec", &sig, &imp, &model, "err (no panic)");
    }
    o
}

/// an XLUnicodeString payload as the value of a LABEL cell of a generated workbook, read with the public API
#[cfg(not(feature = "hooks"))]
fn label_via_file(payload: &[u8]) -> String {
    let mut rng = Rng::new(12);
    let mut book = XlsBook::new();
    let mut sh = XlsSheet::new("S");
    let mut d = verif_harness::xlsw::cell_hdr(0, 0, 0);
    d.extend_from_slice(payload);
    sh.cells.push(XlsCell::raw(verif_harness::xlsw::LABEL, d));
    book.sheets.push(sh);
    let bytes = book.to_bytes_plain(&mut rng);
    let res = guarded(|| -> Result<String, String> {
        let mut wb: Xls<_> = Xls::new(std::io::Cursor::new(bytes)).map_err(|e| format!("{e:?}"))?;
        let range = wb.worksheet_range("S").map_err(|e| format!("{e:?}"))?;
        match range.get_value((0, 0)) {
            Some(Data::String(s)) => Ok(s.clone()),
            other => Err(format!("cell {other:?}")),
        }
    });
    match res {
        Ok(Ok(s)) => format!("ok {}", hexs(s.as_bytes())),
        Ok(Err(e)) => canon_err(&e),
        Err(_) => "panic".into(),
    }
}

#[cfg(feature = "hooks")]
fn panic_site(stream: &[u8]) -> String {
    let msg = match guarded(|| hooks::sst_from_stream(stream, 1200)) {
        Err(m) => m,
        _ => String::new(),
    };
    if msg.contains("index out of bounds") {
        "index".into()
    } else if msg.contains("range end index") || msg.contains("range start index") {
        "slice".into()
    } else if msg.contains("unwrap") {
        "unwrap".into()
    } else {
        "other".into()
    }
}

// ---------------------------------------------------------------- shrinking a failing table

/// at most this many failing tables are shrunk per run (each costs up to 400 driver calls)
static SHRINKS_LEFT: std::sync::atomic::AtomicI64 = std::sync::atomic::AtomicI64::new(16);

fn has_fail(o: &Outcome, kind: &str, sig: &str) -> bool {
    o.fails.iter().any(|f| f.0 == kind && f.1 == sig)
}

/// segment index and offset of unit `k` under the cut list
fn seg_of(cuts: &[(usize, bool)], k: usize) -> usize {
    let mut pos = 0;
    for (j, (n, _)) in cuts.iter().enumerate() {
        if k < pos + n {
            return j;
        }
        pos += n;
    }
    cuts.len()
}

/// smaller tables / layouts that still show the same failure (greedy; bounded number of driver calls)
fn shrink_case(line: &str, kind: &str, sig: &str, drv: &mut Driver) -> Outcome {
    let mut best = run_case(line, drv);
    let (total, mut t, mut ls) = match parse_case(line) {
        Some(x) => x,
        None => return best,
    };
    let mut budget = 400;
    let mut attempt = |t: &Vec<Entry>, ls: &Vec<Layout>, drv: &mut Driver, budget: &mut i32| -> Option<Outcome> {
        if *budget <= 0 {
            return None;
        }
        *budget -= 1;
        let o = run_case(&wire_table(total.min(9), t, ls), drv);
        if has_fail(&o, kind, sig) {
            Some(o)
        } else {
            None
        }
    };
    // 1. a single entry
    if t.len() > 1 {
        for i in 0..t.len() {
            let (t1, l1) = (vec![t[i].clone()], vec![ls[i].clone()]);
            if let Some(o) = attempt(&t1, &l1, drv, &mut budget) {
                t = t1;
                ls = l1;
                best = o;
                break;
            }
        }
    }
    // 2. per entry: drop blocks, the leading break, cuts, units
    let mut improved = true;
    while improved && budget > 0 {
        improved = false;
        for i in 0..t.len() {
            let mut cands: Vec<(Entry, Layout)> = vec![];
            let (e, l) = (&t[i], &ls[i]);
            if e.runs.is_some() {
                cands.push((Entry { runs: None, ..e.clone() }, Layout { run_cuts: vec![], ..l.clone() }));
            }
            if e.ext.is_some() {
                cands.push((Entry { ext: None, ..e.clone() }, Layout { ext_cuts: vec![], ..l.clone() }));
            }
            if l.cut_before {
                cands.push((e.clone(), Layout { cut_before: false, ..l.clone() }));
            }
            for j in 0..l.cuts.len() {
                let mut l2 = l.clone();
                let (n, w) = l2.cuts[j];
                if j == 0 {
                    l2.wide0 |= w;
                } else {
                    l2.cuts[j - 1].1 |= w;
                }
                if j + 1 < l2.cuts.len() {
                    l2.cuts[j + 1].0 += n;
                }
                l2.cuts.remove(j);
                cands.push((e.clone(), l2));
            }
            for k in (0..e.units.len()).rev().take(40).chain(0..e.units.len().min(8)) {
                let mut e2 = e.clone();
                e2.units.remove(k);
                if String::from_utf16(&e2.units).is_err() {
                    continue;
                }
                let mut l2 = l.clone();
                let j = seg_of(&l2.cuts, k);
                if j < l2.cuts.len() {
                    if l2.cuts[j].0 <= 1 && j > 0 {
                        continue;
                    }
                    l2.cuts[j].0 -= 1;
                } else if !l2.cuts.is_empty() && e2.units.len() <= l2.cuts.iter().map(|c| c.0).sum::<usize>() {
                    continue; // the last segment would become empty
                }
                cands.push((e2, l2));
            }
            for (e2, l2) in cands {
                let (mut t2, mut ls2) = (t.clone(), ls.clone());
                t2[i] = e2;
                ls2[i] = l2;
                if let Some(o) = attempt(&t2, &ls2, drv, &mut budget) {
                    t = t2;
                    ls = ls2;
                    best = o;
                    improved = true;
                    break;
                }
            }
            if improved {
                break;
            }
        }
    }
    best
}

// ---------------------------------------------------------------- stage D: whole files

fn split_payloads(stream: &[u8]) -> Vec<Vec<u8>> {
    let mut v = vec![];
    let mut p = 0usize;
    while p + 4 <= stream.len() {
        let n = u16::from_le_bytes([stream[p + 2], stream[p + 3]]) as usize;
        v.push(stream[p + 4..(p + 4 + n).min(stream.len())].to_vec());
        p += 4 + n;
    }
    v
}

/// a sheet name made of the first characters of `text` (no NUL: `parse_sheet_metadata` strips them on purpose),
/// made unique by its index
fn sheet_name(i: usize, text: &str) -> String {
    let mut name = format!("{i}");
    let mut units = name.len();
    for c in text.chars() {
        if c == '\0' {
            continue;
        }
        if units + c.len_utf16() > 31 {
            break;
        }
        units += c.len_utf16();
        name.push(c);
    }
    name
}

/// `file <seed> <case line>`: the case's record stream inside a complete workbook
fn run_file(seed: u64, case_line: &str, stream: &[u8]) -> Outcome {
    let mut o = Outcome { input: format!("file {seed} {case_line}"), ..Default::default() };
    let (_, t, _) = match parse_case(case_line) {
        Some(x) => x,
        None => {
            o.fail("model_vs_spec", "bad-replay-line", "", "", "");
            return o;
        }
    };
    let mut rng = Rng::new(seed);
    let texts: Vec<String> = t.iter().map(|e| String::from_utf16_lossy(&e.units)).collect();
    let mut book = XlsBook::new();
    book.sst_raw = Some(split_payloads(stream));
    let nsheets = if texts.is_empty() { 1 } else { rng.range(1, 3) as usize };
    let mut expect: Vec<(String, Vec<(u32, u32, String)>)> = vec![];
    for si in 0..nsheets {
        let name = sheet_name(si, texts.get(rng.below(texts.len().max(1) as u64) as usize).map(|s| s.as_str()).unwrap_or(""));
        let mut sh = XlsSheet::new(&name);
        // BoundSheet8 kinds: worksheet, macro sheet, chart sheet, VBA module — the reader scans every substream for
        // cell records the same way (a chart sheet caches its series data in such records)
        sh.kind = *rng.pick(&[0u8, 0, 0, 1, 2, 6]);
        o.count(&format!("file.sheet_kind_{}", sh.kind));
        let mut cells = vec![];
        for (i, txt) in texts.iter().enumerate() {
            if si == 0 || rng.chance(1, 2) {
                sh.cells.push(XlsCell::new(i as u16, 0, CellV::LabelSst(i as u32)));
                cells.push((i as u32, 0u32, txt.clone()));
            }
            // an inline string must fit one record (8224 bytes): up to 8200 8-bit or 4100 16-bit characters
            let narrow_ok = t[i].units.iter().all(|u| *u < 256);
            let short = t[i].units.len() <= 4100 || (narrow_ok && t[i].units.len() <= 8200);
            let pack = if t[i].units.len() > 4100 { Some(false) } else { None };
            if t[i].units.len() > 4000 && short {
                o.count("file.inline_strings_over_4000_chars");
            }
            if short && rng.chance(1, 3) {
                sh.cells.push(XlsCell::new(i as u16, 1, CellV::Label(txt.clone(), pack)));
                cells.push((i as u32, 1, txt.clone()));
            }
            if short && !txt.is_empty() && rng.chance(1, 4) {
                // FORMULA with a string result: the STRING record follows directly, or after the definition of a
                // shared formula (SHRFMLA), an array formula (ARRAY) or a data table (TABLE)
                let between = rng.below(5);
                // one time in three the token stream is one the reader cannot render (PtgTbl / PtgMemFunc / PtgRefN): the
                // formula text becomes "Unrecognised formula …", the string result must still land in this cell
                let rg_first: Vec<u8> = match rng.below(6) {
                    0 => vec![0x02, 0, 0, 0, 0],
                    1 => vec![0x29, 3, 0, 0x1E, 1, 0],
                    2 => vec![0x2C, 0, 0, 0, 0],
                    _ => rgce_int(1),
                };
                if rg_first != rgce_int(1) {
                    o.count("file.formula_string_with_unrenderable_rgce");
                }
                if between < 2 {
                    use verif_harness::xlsw as x;
                    sh.cells.push(XlsCell::raw(x::FORMULA, x::formula_payload(i as u16, 2, 0, x::formula_value(&Cached::Str(String::new())), &rg_first)));
                    sh.cells.push(XlsCell::raw(x::STRING, x::xl_unicode_string(txt, pack, &mut rng)));
                } else {
                    use verif_harness::xlsw as x;
                    let row = i as u16;
                    sh.cells.push(XlsCell::raw(x::FORMULA, x::formula_payload(row, 2, 0, x::formula_value(&Cached::Str(String::new())), &rg_first)));
                    let mut d = row.to_le_bytes().to_vec(); // Ref: rwFirst rwLast colFirst colLast
                    d.extend_from_slice(&row.to_le_bytes());
                    d.extend_from_slice(&[2, 2]);
                    let rg = rgce_int(1);
                    let id = match between {
                        2 => {
                            d.extend_from_slice(&[0, 1]); // reserved, cUse
                            d.extend_from_slice(&(rg.len() as u16).to_le_bytes());
                            d.extend_from_slice(&rg);
                            0x04BCu16 // SHRFMLA
                        }
                        3 => {
                            d.extend_from_slice(&0u16.to_le_bytes());
                            d.extend_from_slice(&0u32.to_le_bytes());
                            d.extend_from_slice(&(rg.len() as u16).to_le_bytes());
                            d.extend_from_slice(&rg);
                            0x0221 // ARRAY
                        }
                        _ => {
                            d.extend_from_slice(&0u16.to_le_bytes());
                            d.extend_from_slice(&[0u8; 8]);
                            0x0236 // TABLE
                        }
                    };
                    sh.cells.push(XlsCell::raw(id, d));
                    sh.cells.push(XlsCell::raw(x::STRING, x::xl_unicode_string(txt, pack, &mut rng)));
                    o.count(match between {
                        2 => "file.string_after_shrfmla",
                        3 => "file.string_after_array",
                        _ => "file.string_after_table",
                    });
                }
                cells.push((i as u32, 2, txt.clone()));
            }
            // a second cell of the same sheet naming the same shared string
            if rng.chance(1, 3) {
                sh.cells.push(XlsCell::new(i as u16, 3, CellV::LabelSst(i as u32)));
                cells.push((i as u32, 3, txt.clone()));
                o.count("file.isst_referenced_again_in_sheet");
            }
        }
        book.sheets.push(sh);
        expect.push((name, cells));
    }
    let bytes = book.to_bytes(&mut rng);
    o.count("file.cases");
    o.add("file.bytes", bytes.len() as u64);
    o.add("file.sheets", nsheets as u64);
    o.add("file.cells", expect.iter().map(|e| e.1.len() as u64).sum());
    let res = guarded(|| -> Result<(), (String, String, String)> {
        let mut wb: Xls<_> = Xls::new(std::io::Cursor::new(bytes)).map_err(|e| ("file_rejected".to_string(), format!("{e:?}"), "Ok".to_string()))?;
        let names = wb.sheet_names();
        let want: Vec<String> = expect.iter().map(|e| e.0.clone()).collect();
        if names != want {
            return Err(("file_sheet_names_differ".into(), format!("{names:?}"), format!("{want:?}")));
        }
        for (name, cells) in &expect {
            let range = wb.worksheet_range(name).map_err(|e| ("file_sheet_rejected".to_string(), format!("{e:?}"), "Ok".to_string()))?;
            for (r, c, txt) in cells {
                let got = range.get_value((*r, *c));
                // (since fix b90dd43 a LABELSST cell naming the empty shared string reads String("") like an empty LABEL)
                let ok = matches!(got, Some(Data::String(s)) if s == txt);
                if !ok {
                    let kind = match c {
                        0 | 3 => "file_labelsst_cell_differs",
                        1 => "file_label_cell_differs",
                        _ => "file_formula_string_differs",
                    };
                    return Err((kind.into(), format!("({r},{c}) {got:?}").chars().take(300).collect(), format!("String({txt:?})").chars().take(300).collect()));
                }
            }
        }
        Ok(())
    });
    o.nontrivial = !texts.is_empty();
    match res {
        Ok(Ok(())) => {}
        Ok(Err((sig, got, want))) => o.fail("impl_vs_spec", &sig, &got, "(no file-level model)", &want),
        Err(m) => o.fail("impl_vs_spec", "file_panics", &m, "(no file-level model)", "no panic"),
    }
    o
}

// ---------------------------------------------------------------- stage F: short records in a workbook stream

/// `wb <hex of the Workbook stream>`: open through `Xls::new`, read every sheet; Ok or Err, never a panic
fn run_wb(line: &str) -> Outcome {
    let mut o = Outcome { input: line.to_string(), ..Default::default() };
    let h = line.split_whitespace().nth(1).unwrap_or("-");
    let stream = unhex(h);
    let mut rng = Rng::new(7);
    let bytes = verif_harness::cfbw::write_cfb(&[("Workbook".to_string(), stream)], &verif_harness::cfbw::CfbOpts::default(), &mut rng);
    o.count("wb.cases");
    let res = guarded(|| -> String {
        match Xls::new(std::io::Cursor::new(bytes)) {
            Ok(mut wb) => {
                for n in wb.sheet_names() {
                    let _ = wb.worksheet_range(&n);
                    let _ = wb.worksheet_formula(&n);
                    let _ = wb.worksheet_merge_cells(&n);
                }
                "ok".to_string()
            }
            Err(e) => canon_err(&format!("{e:?}")),
        }
    });
    match res {
        Ok(r) => {
            o.impl_out = r.clone();
            o.nontrivial = true;
            o.count(&format!("wb.result.{}", r.split(':').take(3).collect::<Vec<_>>().join(":")));
        }
        Err(msg) => {
            o.impl_out = "panic".into();
            let site = if msg.contains("index out of bounds") {
                "index"
            } else if msg.contains("range") || msg.contains("slice") {
                "slice"
            } else if msg.contains("unwrap") {
                "unwrap"
            } else if msg.contains("overflow") {
                "overflow"
            } else {
                "other"
            };
            o.fail("impl_vs_spec", &format!("malformed_workbook_panic:{site}"), "panic", "(no file-level model)", "Ok or Err");
        }
    }
    o
}

/// a small well-formed workbook stream as a list of records, then one fault: a record cut to a random shorter length
fn gen_wb(rng: &mut Rng) -> Vec<u8> {
    use verif_harness::xlsw as x;
    let mut g: Vec<(u16, Vec<u8>)> = vec![];
    g.push((x::BOF, x::bof(0x0005)[4..].to_vec()));
    g.push((x::CODEPAGE, 1200u16.to_le_bytes().to_vec()));
    g.push((x::DATEMODE, vec![0, 0]));
    let mut fmt = 164u16.to_le_bytes().to_vec();
    fmt.extend(x::xl_unicode_string("0.00", None, rng));
    g.push((x::FORMAT, fmt));
    g.push((x::XF, vec![0u8; 20]));
    // sheet offset patched below
    let mut bs = 0u32.to_le_bytes().to_vec();
    bs.extend_from_slice(&[0, 0]);
    bs.extend(x::short_xl_unicode_string("Sh", None, rng));
    let bs_at = g.len();
    g.push((x::BOUNDSHEET, bs));
    g.push((x::SUPBOOK, vec![1, 0, 1, 4]));
    g.push((x::EXTERNSHEET, vec![1, 0, 0, 0, 0, 0, 0, 0]));
    // Lbl: grbit, chKey, cch, cce, reserved, itab, 4 reserved, name (flag + chars), rgce
    let rgce: Vec<u8> = vec![0x3a, 0, 0, 1, 0, 2, 0];
    let mut lbl = vec![0u8, 0, 0, 2];
    lbl.extend_from_slice(&(rgce.len() as u16).to_le_bytes());
    lbl.extend_from_slice(&[0u8; 8]);
    lbl.extend_from_slice(&[0, b'N', b'm']);
    lbl.extend_from_slice(&rgce);
    g.push((x::LBL, lbl));
    let mut sst = vec![1u8, 0, 0, 0, 1, 0, 0, 0];
    sst.extend_from_slice(&[2, 0, 0x0D, 1, 0, 2, 0, 0, 0, b'a', 0, b'b', 0, 1, 2, 3, 4, 9, 9]);
    g.push((x::SST, sst));
    g.push((x::EOF, vec![]));
    let mut sh: Vec<(u16, Vec<u8>)> = vec![];
    sh.push((x::BOF, x::bof(0x0010)[4..].to_vec()));
    sh.push((x::DIMENSIONS, x::dimensions_payload(0, 3, 0, 3)));
    let mut lab = x::cell_hdr(0, 0, 0);
    lab.extend(x::xl_unicode_string("lab", None, rng));
    sh.push((x::LABEL, lab));
    let mut ls = x::cell_hdr(0, 1, 0);
    ls.extend_from_slice(&0u32.to_le_bytes());
    sh.push((x::LABELSST, ls));
    sh.push((x::FORMULA, x::formula_payload(1, 0, 0, x::formula_value(&Cached::Num(1.0)), &rgce_int(1))));
    sh.push((x::MERGECELLS, vec![1, 0, 0, 0, 1, 0, 0, 0, 1, 0]));
    sh.push((x::EOF, vec![]));
    // the fault
    let total = g.len() + sh.len();
    let k = rng.below(total as u64) as usize;
    let glen0 = g.len();
    let victim = if k < glen0 { &mut g[k] } else { &mut sh[k - glen0] };
    match rng.below(6) {
        0..=3 => {
            let n = rng.below(victim.1.len() as u64 + 1) as usize;
            victim.1.truncate(n);
        }
        4 => {
            // (not in cell records: a far-away row/column makes Range allocate the dense bounding box, D37)
            if !victim.1.is_empty() && k < bs_at + 5 {
                let i = rng.below(victim.1.len() as u64) as usize;
                victim.1[i] = *rng.pick(&[0u8, 1, 0x7F, 0xFF, 8, 12]);
            }
        }
        _ => {}
    }
    let glen: usize = g.iter().map(|r| 4 + r.1.len()).sum();
    let pos = if rng.chance(1, 12) { glen as u32 + rng.below(4000) as u32 } else { glen as u32 };
    if g[bs_at].1.len() >= 4 {
        g[bs_at].1[..4].copy_from_slice(&pos.to_le_bytes());
    }
    let mut out = x::frame(&g);
    out.extend(x::frame(&sh));
    out
}

/// one minimal workbook stream per repaired site (BOF + the short record [+ a sheet substream])
fn wb_corpus() -> Vec<String> {
    use verif_harness::xlsw as x;
    let bof = (x::BOF, x::bof(0x0005)[4..].to_vec());
    let globals_with = |r: (u16, Vec<u8>)| -> Vec<u8> { x::frame(&[bof.clone(), r, (x::EOF, vec![])]) };
    let sheet_with = |r: (u16, Vec<u8>)| -> Vec<u8> {
        // globals: BOF, BOUNDSHEET "S" at the offset of the sheet substream, EOF
        let mut bs = vec![0u8, 0, 0, 0, 0, 0, 1, 0, b'S'];
        let glen = (4 + bof.1.len()) + (4 + bs.len()) + 4;
        bs[..4].copy_from_slice(&(glen as u32).to_le_bytes());
        let mut out = x::frame(&[bof.clone(), (x::BOUNDSHEET, bs), (x::EOF, vec![])]);
        out.extend(x::frame(&[(x::BOF, x::bof(0x0010)[4..].to_vec()), r, (x::EOF, vec![])]));
        out
    };
    let mut v: Vec<Vec<u8>> = vec![
        globals_with((x::CODEPAGE, vec![0xB0])),                       // CodePage: 1 byte
        globals_with((x::DATEMODE, vec![])),                           // Date1904: empty
        globals_with((x::FORMAT, vec![164, 0, 1, 0])),                 // FORMAT: no flags byte
        globals_with((x::BOF, vec![0])),                               // a second BOF of 1 byte
        globals_with((x::BOUNDSHEET, vec![0, 0, 0, 0, 0])),            // BoundSheet8: 5 bytes
        globals_with((x::BOUNDSHEET, vec![0, 0, 0])),                  // BoundSheet8: 3 bytes
        globals_with((x::LBL, vec![0, 0, 0, 1])),                      // Lbl: 4 bytes
        globals_with((x::LBL, vec![0u8; 14])),                         // Lbl: no name
        globals_with((x::LBL, { let mut l = vec![0u8, 0, 0, 4, 0, 0]; l.extend_from_slice(&[0u8; 8]); l.extend_from_slice(&[1, b'a', 0]); l })), // name cut
        globals_with((x::LBL, { let mut l = vec![0u8, 0, 0, 1, 0x40, 0]; l.extend_from_slice(&[0u8; 8]); l.extend_from_slice(&[0, b'a']); l })), // cce > record
        globals_with((x::LBL, { let mut l = vec![0u8, 0, 0, 1, 3, 0]; l.extend_from_slice(&[0u8; 8]); l.extend_from_slice(&[0, b'a', 0x3a, 0, 0]); l })), // rgce: PtgRef3d cut
        globals_with((x::EXTERNSHEET, vec![1])),                       // ExternSheet: 1 byte
        globals_with((x::EXTERNSHEET, vec![2, 0, 0, 0, 0, 0, 0, 0, 1, 0, 0])), // second XTI cut
        globals_with((x::BOUNDSHEET, vec![0xFF, 0xFF, 0xFF, 0, 0, 0, 1, 0, b'S'])), // sheet offset beyond the stream
        globals_with((x::SST, vec![1, 0, 0, 0, 0xFF, 0xFF, 0xFF, 0xFF])),           // negative cstUnique
        globals_with((x::SST, vec![1, 0, 0, 0, 1, 0, 0, 0, 0, 0, 0x0C])),           // cRun / cbExtRst cut by the record end
        sheet_with((x::MERGECELLS, vec![1])),                          // MERGECELLS: 1 byte
        sheet_with((x::MERGECELLS, vec![2, 0, 0, 0, 1, 0, 0, 0, 1, 0])), // count 2, one entry
        sheet_with((x::FORMULA, vec![0u8; 21])),                       // FORMULA: cce cut
        sheet_with((x::FORMULA, { let mut f = vec![0u8; 20]; f.extend_from_slice(&[9, 0, 0x1E, 1]); f })), // cce > rgce
    ];
    v.drain(..).map(|b| format!("wb {}", hexs(&b))).collect()
}

// ---------------------------------------------------------------- stage H: more than 65 536 shared strings

/// `big <k> <seed>`: a workbook whose SST holds 65 536 + k distinct short strings (xlsw writer, random legal
/// CONTINUE cuts and packings) and LABELSST cells naming the entries around 2^16 and the last one
fn run_big(k: usize, seed: u64) -> Outcome {
    let mut o = Outcome { input: format!("big {k} {seed}"), ..Default::default() };
    let mut rng = Rng::new(seed);
    let n = 65536 + k;
    let mut book = XlsBook::new();
    book.sst = verif_harness::xlsw::big_sst_strings(n);
    let mut idx: Vec<usize> = vec![0, 1, 255, 256, 65535, 65536, 65537.min(n - 1), n - 1];
    for _ in 0..8 {
        idx.push(rng.below(n as u64) as usize);
        idx.push(65536 + rng.below(k as u64) as usize);
    }
    let mut sh = XlsSheet::new("Big");
    for (r, i) in idx.iter().enumerate() {
        sh.cells.push(XlsCell::new(r as u16, 0, CellV::LabelSst(*i as u32)));
    }
    book.sheets.push(sh);
    let bytes = book.to_bytes(&mut rng);
    o.count("big.cases");
    o.add("big.bytes", bytes.len() as u64);
    o.add("big.strings", n as u64);
    o.nontrivial = true;
    let want: Vec<String> = idx.iter().map(|i| book.sst[*i].clone()).collect();
    let res = guarded(|| -> Result<Vec<String>, String> {
        let mut wb: Xls<_> = Xls::new(std::io::Cursor::new(bytes)).map_err(|e| format!("{e:?}"))?;
        let range = wb.worksheet_range("Big").map_err(|e| format!("{e:?}"))?;
        Ok((0..idx.len()).map(|r| format!("{:?}", range.get_value((r as u32, 0)))).collect())
    });
    let want_dbg: Vec<String> = want.iter().map(|s| format!("{:?}", Some(Data::String(s.clone())))).collect();
    match res {
        Ok(Ok(got)) => {
            if got != want_dbg {
                let r = (0..idx.len()).find(|r| got[*r] != want_dbg[*r]).unwrap_or(0);
                let sig = if idx[r] >= 65536 { "labelsst_index_ge_65536_wrong_text" } else { "big_sst_cell_text_differs" };
                o.fail("impl_vs_spec", sig, &format!("cell {r} (isst {}) = {}", idx[r], got[r]), "(no file-level model)", &want_dbg[r]);
            }
        }
        Ok(Err(e)) => o.fail("impl_vs_spec", "big_sst_workbook_rejected", &canon_err(&e), "(no file-level model)", "Ok"),
        Err(m) => o.fail("impl_vs_spec", "big_sst_workbook_panics", &m, "(no file-level model)", "no panic"),
    }
    o
}

// ---------------------------------------------------------------- stage I: BIFF5 byte strings under a code page

/// `b5 <codepage> <forced 0|1> <bytes hex>,<expected utf8 hex>`: a BIFF5 workbook whose sheet name, a LABEL value and a
/// defined name are the given bytes (no flag byte: plain code-page text). The code page comes from the CODEPAGE record,
/// or (`forced`) the record says 1252 and the reader is opened with `XlsOptions::force_codepage`.
fn run_b5(line: &str) -> Outcome {
    use verif_harness::xlsw as x;
    let mut o = Outcome { input: line.to_string(), ..Default::default() };
    let w: Vec<&str> = line.split_whitespace().collect();
    let parsed = (|| {
        if w.len() != 4 {
            return None;
        }
        let (b, e) = w[3].split_once(',')?;
        Some((w[1].parse::<u16>().ok()?, w[2] == "1", unhex(b), String::from_utf8(unhex(e)).ok()?))
    })();
    let (cp, forced, bytes, want) = match parsed {
        Some(p) => p,
        None => {
            o.fail("model_vs_spec", "bad-replay-line", "", "", "");
            return o;
        }
    };
    let bof = |dt: u16| -> Vec<u8> {
        let mut b = 0x0500u16.to_le_bytes().to_vec();
        b.extend_from_slice(&dt.to_le_bytes());
        b.extend_from_slice(&[0xBB, 0x0D, 0xCC, 0x07]);
        b
    };
    let mut g: Vec<(u16, Vec<u8>)> = vec![(x::BOF, bof(0x0005))];
    g.push((x::CODEPAGE, (if forced { 1252u16 } else { cp }).to_le_bytes().to_vec()));
    let mut bs = 0u32.to_le_bytes().to_vec();
    bs.extend_from_slice(&[0, 0, bytes.len() as u8]);
    bs.extend_from_slice(&bytes);
    let bs_at = g.len();
    g.push((x::BOUNDSHEET, bs));
    let mut l = vec![0u8, 0, 0, bytes.len() as u8, 3, 0];
    l.extend_from_slice(&[0u8; 8]);
    l.extend_from_slice(&bytes);
    l.extend_from_slice(&[0x1E, 1, 0]);
    g.push((x::LBL, l));
    g.push((x::EOF, vec![]));
    let glen: usize = g.iter().map(|r| 4 + r.1.len()).sum();
    g[bs_at].1[..4].copy_from_slice(&(glen as u32).to_le_bytes());
    let mut lab = x::cell_hdr(0, 0, 0);
    lab.extend_from_slice(&(bytes.len() as u16).to_le_bytes());
    lab.extend_from_slice(&bytes);
    let mut stream = x::frame(&g);
    stream.extend(x::frame(&[(x::BOF, bof(0x0010)), (x::LABEL, lab), (x::EOF, vec![])]));
    let mut rng = Rng::new(verif_harness::fnv64(line.as_bytes()));
    let file = verif_harness::cfbw::write_cfb(&[("Book".to_string(), stream)], &verif_harness::cfbw::CfbOpts::default(), &mut rng);
    o.count(&format!("b5.cp{cp}{}", if forced { ".forced" } else { "" }));
    o.nontrivial = true;
    let res = guarded(|| -> Result<(String, String, String), String> {
        let mut opts = XlsOptions::default();
        if forced {
            opts.force_codepage = Some(cp);
        }
        let mut wb = Xls::new_with_options(std::io::Cursor::new(file), opts).map_err(|e| format!("{e:?}"))?;
        let name = wb.sheet_names().first().cloned().unwrap_or_default();
        let range = wb.worksheet_range(&name).map_err(|e| format!("{e:?}"))?;
        let label = match range.get_value((0, 0)) {
            Some(Data::String(s)) => s.clone(),
            other => format!("{other:?}"),
        };
        let dn = wb.defined_names().first().map(|d| d.0.clone()).unwrap_or_default();
        Ok((name, label, dn))
    });
    let wants = format!("{:?}", (want.clone(), want.clone(), want.clone()));
    match res {
        Ok(Ok(got)) => {
            if got != (want.clone(), want.clone(), want) {
                let what = if got.0 != got.1 || got.1 != got.2 { "carriers_disagree" } else { "text_differs" };
                o.fail("impl_vs_spec", &format!("biff5_byte_string_cp{cp}_{what}"), &format!("{got:?}"), "(no file-level model)", &wants);
            }
        }
        Ok(Err(e)) => o.fail("impl_vs_spec", &format!("biff5_workbook_cp{cp}_rejected"), &canon_err(&e), "(no file-level model)", &wants),
        Err(m) => o.fail("impl_vs_spec", &format!("biff5_workbook_cp{cp}_panics"), &m, "(no file-level model)", &wants),
    }
    o
}

fn gen_b5(rng: &mut Rng) -> String {
    let forced = rng.chance(1, 3);
    let (cp, bytes, want): (u16, Vec<u8>, String) = match rng.below(5) {
        3 | 4 => {
            // the double-byte code pages: a few characters each (lead/trail bytes incl. 0x5C and a single-byte kana), mixed with ASCII
            const T: [(u16, &[(&str, &[u8])]); 4] = [
                (932, &[("日", &[0x93, 0xFA]), ("本", &[0x96, 0x7B]), ("語", &[0x8C, 0xEA]), ("ア", &[0x83, 0x41]), ("ｱ", &[0xB1]), ("表", &[0x95, 0x5C]), ("A", &[0x41])]),
                (936, &[("中", &[0xD6, 0xD0]), ("文", &[0xCE, 0xC4]), ("表", &[0xB1, 0xED]), ("格", &[0xB8, 0xF1]), ("A", &[0x41])]),
                (949, &[("한", &[0xC7, 0xD1]), ("글", &[0xB1, 0xDB]), ("표", &[0xC7, 0xA5]), ("A", &[0x41])]),
                (950, &[("中", &[0xA4, 0xA4]), ("文", &[0xA4, 0xE5]), ("表", &[0xAA, 0xED]), ("格", &[0xAE, 0xE6]), ("A", &[0x41])]),
            ];
            let (cp, toks) = *rng.pick(&T);
            let n = rng.range(1, 12);
            let (mut b, mut w) = (vec![], String::new());
            for _ in 0..n {
                let (c, by) = *rng.pick(toks);
                w.push_str(c);
                b.extend_from_slice(by);
            }
            (cp, b, w)
        }
        0 => {
            // code page 1252: ASCII and the letters 0xC0..0xFF (same code points as Latin-1)
            let n = rng.range(1, 20) as usize;
            let mut b: Vec<u8> = vec![];
            for _ in 0..n {
                let opts = [rng.range(0x41, 0x5A) as u8, rng.range(0x61, 0x7A) as u8, rng.range(0xC0, 0xFF) as u8, b'_', b'7'];
                b.push(*rng.pick(&opts));
            }
            let w: String = b.iter().map(|c| *c as char).collect();
            (1252, b, w)
        }
        _ => {
            // code page 65001: the bytes are UTF-8
            let mut w = String::new();
            let target = rng.range(1, 24) as usize;
            while w.len() < target {
                let k = rng.below(4);
                let c = gen_char(rng, k);
                if c != '\0' && w.len() + c.len_utf8() <= 31 {
                    w.push(c);
                } else {
                    w.push('x');
                }
            }
            (65001, w.as_bytes().to_vec(), w)
        }
    };
    format!("b5 {cp} {} {},{}", forced as u8, hexs(&bytes), hexs(want.as_bytes()))
}

// ---------------------------------------------------------------- stage G: defined names, BIFF8 and BIFF5

/// `names <biff8 0|1> <name utf8 hex>,<rgce hex>;…` → a workbook stream with one Lbl per name
fn names_stream(biff8: bool, names: &[(String, Vec<u8>)], rng: &mut Rng) -> Vec<u8> {
    use verif_harness::xlsw as x;
    let vers: u16 = if biff8 { 0x0600 } else { 0x0500 };
    let bof = |dt: u16| -> Vec<u8> {
        let mut b = vers.to_le_bytes().to_vec();
        b.extend_from_slice(&dt.to_le_bytes());
        b.extend_from_slice(&[0xBB, 0x0D, 0xCC, 0x07]);
        if biff8 {
            b.extend_from_slice(&[0u8; 8]);
        }
        b
    };
    let mut g: Vec<(u16, Vec<u8>)> = vec![(x::BOF, bof(0x0005))];
    // BIFF8 files declare code page 1200; the BIFF5 workbooks here use Latin-1 names under code page 1252
    g.push((x::CODEPAGE, (if biff8 { 1200u16 } else { 1252u16 }).to_le_bytes().to_vec()));
    let mut bs = 0u32.to_le_bytes().to_vec();
    bs.extend_from_slice(&[0, 0]);
    if biff8 {
        bs.extend_from_slice(&[2, 0, b'S', b'1']);
    } else {
        bs.extend_from_slice(&[2, b'S', b'1']);
    }
    let bs_at = g.len();
    g.push((x::BOUNDSHEET, bs));
    for (name, rgce) in names {
        let mut l = vec![0u8, 0, 0];
        let units: Vec<u16> = name.encode_utf16().collect();
        l.push(units.len() as u8);
        l.extend_from_slice(&(rgce.len() as u16).to_le_bytes());
        l.extend_from_slice(&[0u8; 8]);
        if biff8 {
            let (fl, body) = x::pack_units(&units, None, rng);
            l.push(fl);
            l.extend(body);
        } else {
            l.extend(units.iter().map(|u| *u as u8));
        }
        l.extend_from_slice(rgce);
        g.push((x::LBL, l));
    }
    g.push((x::EOF, vec![]));
    let glen: usize = g.iter().map(|r| 4 + r.1.len()).sum();
    g[bs_at].1[..4].copy_from_slice(&(glen as u32).to_le_bytes());
    let mut out = x::frame(&g);
    out.extend(x::frame(&[(x::BOF, bof(0x0010)), (x::EOF, vec![])]));
    out
}

fn run_names(line: &str) -> Outcome {
    let mut o = Outcome { input: line.to_string(), ..Default::default() };
    let w: Vec<&str> = line.split_whitespace().collect();
    if w.len() != 3 {
        o.fail("model_vs_spec", "bad-replay-line", "", "", "");
        return o;
    }
    let biff8 = w[1] == "1";
    let names: Vec<(String, Vec<u8>)> = w[2]
        .split(';')
        .map(|p| {
            let (n, r) = p.split_once(',').unwrap_or((p, "-"));
            (String::from_utf8_lossy(&unhex(n)).to_string(), unhex(r))
        })
        .collect();
    let mut rng = Rng::new(verif_harness::fnv64(line.as_bytes()));
    let stream = names_stream(biff8, &names, &mut rng);
    let bytes = verif_harness::cfbw::write_cfb(&[((if biff8 { "Workbook" } else { "Book" }).to_string(), stream)], &verif_harness::cfbw::CfbOpts::default(), &mut rng);
    o.count(if biff8 { "names.biff8" } else { "names.biff5" });
    o.add("names.names", names.len() as u64);
    let want: Vec<String> = names.iter().map(|n| n.0.clone()).collect();
    let res = guarded(|| match Xls::new(std::io::Cursor::new(bytes)) {
        Ok(wb) => Ok(wb.defined_names().iter().map(|d| d.0.clone()).collect::<Vec<String>>()),
        Err(e) => Err(format!("{e:?}")),
    });
    o.nontrivial = true;
    let sig_b = if biff8 { "biff8" } else { "biff5" };
    match res {
        Ok(Ok(got)) => {
            if got != want {
                o.fail("impl_vs_spec", &format!("defined_name_text_differs_{sig_b}"), &format!("{got:?}"), "(no file-level model)", &format!("{want:?}"));
            }
        }
        Ok(Err(e)) => o.fail("impl_vs_spec", &format!("workbook_with_defined_names_rejected_{sig_b}"), &canon_err(&e), "(no file-level model)", &format!("{want:?}")),
        Err(m) => o.fail("impl_vs_spec", &format!("workbook_with_defined_names_panics_{sig_b}"), &m, "(no file-level model)", &format!("{want:?}")),
    }
    o
}

fn gen_names(rng: &mut Rng) -> String {
    let biff8 = rng.chance(1, 2);
    let n = rng.range(1, 3);
    let mut parts = vec![];
    for _ in 0..n {
        let len = *rng.pick(&[1usize, 2, 3, 8, 17, 20, 21, 40, 120, 255]);
        let mut name = String::new();
        let mut units = 0;
        while units < len {
            // BIFF5: Latin-1 letters only (one byte each under code page 1252, no C1 controls); BIFF8: anything but NUL
            let c = if biff8 {
                let k = rng.below(5);
                gen_char(rng, k)
            } else {
                {
                    let opts = [rng.range(0x41, 0x5A) as u32, rng.range(0x61, 0x7A) as u32, rng.range(0xC0, 0xFF) as u32, 0x5F, 0x31];
                    char::from_u32(*rng.pick(&opts)).unwrap()
                }
            };
            if c == '\0' || units + c.len_utf16() > len {
                name.push('x');
                units += 1;
            } else {
                units += c.len_utf16();
                name.push(c);
            }
        }
        let rgce: Vec<u8> = match rng.below(4) {
            0 => vec![0x1E, 1, 0],
            1 => vec![0x3a, 0, 0, 1, 0, 2, 0],
            2 => vec![0x3b, 0, 0, 1, 0, 3, 0, 2, 0, 4, 0],
            _ => vec![0x1E, 7, 0, 0x1E, 1, 0, 0x03],
        };
        parts.push(format!("{},{}", hexs(name.as_bytes()), hexs(&rgce)));
    }
    format!("names {} {}", biff8 as u8, parts.join(";"))
}

// ---------------------------------------------------------------- generators for the raw stages

fn rec(typ: u16, payload: &[u8]) -> Vec<u8> {
    let mut v = vec![];
    v.extend_from_slice(&typ.to_le_bytes());
    v.extend_from_slice(&(payload.len() as u16).to_le_bytes());
    v.extend_from_slice(payload);
    v
}

fn gen_record_stream(rng: &mut Rng) -> Vec<u8> {
    let mut s = vec![];
    let n = rng.range(0, 7);
    for _ in 0..n {
        let typ = *rng.pick(&[0x003Cu16, 0x003C, 0x00FC, 0x0009, 0x0809, 0x00FF, 0x3C00, 0x013C]);
        let len = *rng.pick(&[0usize, 0, 1, 2, 3, 4, 5, 9, 17]);
        s.extend(rec(typ, &rng.bytes(len)));
    }
    match rng.below(8) {
        0 => {
            let k = rng.below(s.len() as u64 + 1) as usize;
            s.truncate(k);
        }
        1 => {
            let k = rng.range(1, 5) as usize;
            s.extend(rng.bytes(k));
        }
        2 => s.extend(rec(0x003C, &[])),
        _ => {}
    }
    s
}

fn gen_skip_case(rng: &mut Rng) -> (usize, Vec<u8>) {
    let k0 = rng.range(0, 12) as usize;
    let mut s = rec(0x00FC, &rng.bytes(k0));
    let k = rng.below(5);
    let mut total = s.len() - 4;
    for _ in 0..k {
        let len = *rng.pick(&[0usize, 0, 1, 2, 3, 7, 12]);
        total += len;
        s.extend(rec(0x003C, &rng.bytes(len)));
    }
    if rng.chance(1, 3) {
        s.extend(rec(0x00FF, &rng.bytes(3)));
    }
    let n = match rng.below(6) {
        0 => 0,
        1 => total,
        2 => total + 1,
        _ => rng.below(total as u64 + 3) as usize,
    };
    (n, s)
}

/// a valid stream with one structural fault
fn mutate(stream: &[u8], rng: &mut Rng) -> Vec<u8> {
    let mut s = stream.to_vec();
    match rng.below(7) {
        0 => {
            let k = rng.below(s.len() as u64 + 1) as usize;
            s.truncate(k);
        }
        1 | 2 => {
            if !s.is_empty() {
                let i = rng.below(s.len() as u64) as usize;
                s[i] = *rng.pick(&[0u8, 1, 4, 8, 9, 12, 13, 0x3C, 0xFF, s[i].wrapping_add(1), s[i] ^ 1]);
            }
        }
        3 => {
            // insert an empty CONTINUE record at a record boundary
            let mut bounds = vec![];
            let mut p = 0usize;
            while p + 4 <= s.len() {
                bounds.push(p);
                p += 4 + u16::from_le_bytes([s[p + 2], s[p + 3]]) as usize;
            }
            let at = if bounds.len() > 1 { bounds[1 + rng.below(bounds.len() as u64 - 1) as usize] } else { s.len() };
            let at = at.min(s.len());
            let tail = s.split_off(at);
            s.extend(rec(0x003C, &[]));
            s.extend(tail);
        }
        4 => {
            // cstUnique off by a little
            if s.len() >= 12 {
                let v = u32::from_le_bytes([s[8], s[9], s[10], s[11]]);
                let v = match rng.below(6) {
                    0 => v.wrapping_add(1),
                    1 => v.wrapping_sub(1),
                    2 => v + 7,
                    3 => 0x7FFF_FFFF,
                    4 => 0x8000_0000 | v,
                    _ => 0,
                };
                s[8..12].copy_from_slice(&v.to_le_bytes());
            }
        }
        5 => {
            // drop one byte
            if !s.is_empty() {
                let i = rng.below(s.len() as u64) as usize;
                s.remove(i);
            }
        }
        _ => {
            // append garbage / another record
            let typ = *rng.pick(&[0x003Cu16, 0x00FF]);
            let k = rng.range(0, 6) as usize;
            s.extend(rec(typ, &rng.bytes(k)));
        }
    }
    s
}

/// (before fix 9c57a3b `Vec::with_capacity(cstUnique)` made huge declared counts abort the process and the
/// mutated counts had to be kept small)
fn alloc_safe(_s: &[u8]) -> bool {
    // since fix 9c57a3b `parse_sst` bounds its reservation by the record bytes: any count may be tried
    true
}

fn gen_illegal_layout(t: &[Entry], rng: &mut Rng) -> Vec<Layout> {
    // random cut sizes and packings with no regard for legality (pairs split, empty segments, narrow packing of
    // wide units, empty chunks): correspondence only
    t.iter()
        .map(|e| {
            let n = e.units.len();
            let k = rng.below(4) as usize;
            Layout {
                cut_before: rng.chance(1, 3),
                wide0: rng.chance(1, 2),
                cuts: (0..k).map(|_| (rng.below(n as u64 + 2) as usize, rng.chance(1, 2))).collect(),
                run_cuts: (0..rng.below(3)).map(|_| rng.below(9) as usize).collect(),
                ext_cuts: (0..rng.below(3)).map(|_| rng.below(9) as usize).collect(),
            }
        })
        .collect()
}

fn gen_small_table(rng: &mut Rng) -> Vec<Entry> {
    let n = rng.range(1, 4) as usize;
    (0..n)
        .map(|_| {
            let (a, b, c) = (rng.below(8) as usize, 4 * rng.below(3) as usize, rng.below(6) as usize);
            Entry {
                units: gen_units(rng, a),
                runs: if rng.chance(1, 3) { Some(rng.bytes(b)) } else { None },
                ext: if rng.chance(1, 3) { Some(rng.bytes(c)) } else { None },
            }
        })
        .collect()
}

fn gen_str_case(rng: &mut Rng) -> (String, Option<String>) {
    let short = rng.chance(1, 2);
    let biff8 = !rng.chance(1, 5);
    let maxlen = if short { 255 } else { 8200 };
    let len = (*rng.pick(&[0usize, 0, 1, 2, 3, 7, 40, 255, 400, 400, 4095, 4096, 4097, 5000, 8000])).min(maxlen);
    let units = gen_units(rng, len);
    let narrow_ok = units.iter().all(|u| *u < 256);
    let wide = biff8 && (!narrow_ok || rng.chance(1, 2));
    let mut p = vec![];
    if short {
        p.push(units.len() as u8);
    } else {
        p.extend_from_slice(&(units.len() as u16).to_le_bytes());
    }
    if biff8 {
        p.push(wide as u8 | *rng.pick(&[0u8, 0, 0, 4, 8, 0xFE]) & 0xFE);
    }
    let mut wellformed = true;
    if wide {
        p.extend(units.iter().flat_map(|u| u.to_le_bytes()));
    } else if narrow_ok {
        p.extend(units.iter().map(|u| *u as u8));
    } else {
        // BIFF5 cannot hold these units: arbitrary bytes, correspondence only
        p.extend(units.iter().map(|u| *u as u8));
        wellformed = false;
    }
    // faults: truncation, trailing bytes
    match rng.below(10) {
        0 => {
            let k = rng.below(p.len() as u64 + 1) as usize;
            if k < p.len() {
                wellformed = false;
            }
            p.truncate(k);
        }
        1 => {
            let k = rng.range(1, 4) as usize;
            p.extend(rng.bytes(k));
        }
        _ => {}
    }
    let line = format!("{} {} {}", if short { "short" } else { "str" }, biff8 as u8, hexs(&p));
    // a BIFF5 ShortXLUnicodeString with cch = 0 is the single byte 00; `parse_short_string` wants 2 bytes.
    // Its only BIFF5 caller reads sheet names (1..31 characters), so no workbook can show it: not asserted.
    if short && !biff8 && units.is_empty() {
        wellformed = false;
    }
    let expect = if wellformed { Some(format!("ok {}", hexs(String::from_utf16_lossy(&units).as_bytes()))) } else { None };
    (line, expect)
}

// ---------------------------------------------------------------- corpus (every defect ever found first)

fn corpus() -> Vec<(String, Option<String>)> {
    let mut v: Vec<(String, Option<String>)> = vec![
        // D36: the legal empty XLUnicodeString (cch = 0, flags) was rejected: Len{expected 4, found 3}
        ("str 1 000000".into(), Some("ok -".into())),
        ("str 1 000001".into(), Some("ok -".into())),
        ("str 1 01000061".into(), Some("ok 61".into())),
        ("short 1 0000".into(), Some("ok -".into())),
        ("str 0 0000".into(), Some("ok -".into())),
        ("str 0 01007d".into(), Some("ok 7d".into())),
        ("short 1 0305fffe0000ff00".into(), Some("ok efbbbf00c3bf".into())),
        ("str 1 010005fffe".into(), Some("ok efbbbf".into())),
        ("short 1 020161006200".into(), Some("ok 6162".into())),
        // two strings, break between characters with a change of packing, rich runs + ext broken mid-block
        ("case 3 610062002000,~,~,0,1,1:0,-,-;3dd800de,01020304,aabb,1,1,-,-,1".into(), None),
        // U+FEFF / U+FFFE / EF BB BF look-alikes at the start of a 16-bit segment (BOM sniffing of `Encoding::decode`)
        ("case 1 6100fffe6200,~,~,0,1,1:1,-,-".into(), None),
        ("case 1 6100fffe6200,~,~,0,1,-,-,-".into(), None),
        ("case 1 fffe6100,~,~,0,1,-,-,-".into(), None),
        ("case 1 feff61006200,~,~,0,1,-,-,-".into(), None),
        ("case 1 efbbbf006100,~,~,0,1,-,-,-".into(), None),
        ("case 1 4100efbbbf004200,~,~,0,1,1:1,-,-".into(), None),
        // empty table, empty strings, first entry after a break, zero-length first segment
        ("case 0 -".into(), None),
        ("case 7 -,~,~,0,0,-,-,-;-,-,-,1,1,-,-,-".into(), None),
        ("case 1 61006200,~,~,1,0,0:1,-,-".into(), None),
        // D31-b: empty CONTINUE right after a character split (malformed): SST "ab" cut after 'a', then an empty CONTINUE
        ("dec fc000c000100000001000000020000613c0000003c0002000062".into(), None),
    ];
    // regression of D35 found by review: a BIFF5 defined name (no flag byte) starting with an odd-coded letter
    v.push((format!("names 0 {},1e0100", hexs(b"Assumptions_Table_Q1")), None));
    v.push((format!("names 0 {},1e0100;{},3a000001000200", hexs(b"B"), hexs("Caf\u{e9}".as_bytes())), None));
    v.push((format!("names 1 {},1e0100", hexs("A\u{416}\u{1F600}".as_bytes())), None));
    // 19 empty strings then "last": more strings than payload bytes / 4 (seeded change C12-m5: an entry estimate used as a bound)
    v.push((format!("case 20 {};6c00610073007400,~,~,0,1,-,-,-", vec!["-,~,~,0,0,-,-,-"; 19].join(";")), None));
    v.push((format!("file 3 case 20 {};6c00610073007400,~,~,0,1,-,-,-", vec!["-,~,~,0,1,-,-,-"; 19].join(";")), None));
    // cstTotal == cstUnique with strings named by several cells (seeded change C12-m11: strings moved out of the table);
    // FORMULA, SHRFMLA / ARRAY / TABLE, STRING (seeded change C12-m10: the STRING arm guarded by the previous record type)
    for seed in 1..=10u64 {
        v.push((format!("file {seed} case 3 6100,~,~,0,1,-,-,-;62006300,~,~,0,0,-,-,-;64006500e900,~,~,0,1,1:1,-,-"), None));
    }
    // a 5000-character 8-bit string as shared string, LABEL and formula STRING (seeded change C12-m14: 4096 characters per
    // decode_to call), in sheets of every kind (seeded change C12-m15: chart sheets / VBA modules not scanned)
    for seed in 11..=18u64 {
        v.push((format!("file {seed} case 1 {},~,~,0,0,-,-,-", "41004200e9004400".repeat(1250)), None));
    }
    // an entry with 16 384 rich-text runs: 4 * cRun = 65 536 (seeded change C12-m7: the product computed in 16 bits)
    {
        let mut rng = Rng::new(5);
        let e = Entry { units: vec![0x61, 0x62], runs: Some(rng.bytes(4 * 16384)), ext: None };
        let t = vec![e, Entry { units: vec![0x63], runs: None, ext: None }];
        let ls = make_layout(&t, &mut rng, &style(&mut Rng::new(1), 0));
        v.push((wire_table(2, &t, &ls), None));
    }
    // BIFF5 byte strings decoded as UTF-8 (seeded change C12-m19: NUL-interleaved), by record and forced
    v.push((format!("b5 65001 0 {0},{0}", hexs("Caf\u{e9} \u{65e5}\u{672c}".as_bytes())), None));
    v.push((format!("b5 65001 1 {0},{0}", hexs("na\u{ef}ve".as_bytes())), None));
    v.push(("b5 1252 0 436166e9,436166c3a9".into(), None));
    // finding D44 (fixed 1eaf680): BIFF5 byte strings under the double-byte code pages 932 / 936 / 949 / 950 were
    // zero-extended before decoding (XlsEncoding::high_byte answered Some(false) for every multi-byte encoding): NUL-interleaved garbage
    v.push(("b5 932 0 93fa967b,e697a5e69cac".into(), None));
    v.push(("b5 936 0 d6d0cec4,e4b8ade69687".into(), None));
    v.push(("b5 949 0 c7d1b1db,ed959ceab880".into(), None));
    v.push(("b5 950 1 a4a4a4e5,e4b8ade69687".into(), None));
    v.push(("b5 932 1 4142,4142".into(), None));
    v.push((format!("b5 932 0 955c8341b141,{}", hexs("表アｱA".as_bytes())), None));
    v.push((format!("b5 936 1 b1edb8f141,{}", hexs("表格A".as_bytes())), None));
    v.push((format!("b5 949 1 c7a541,{}", hexs("표A".as_bytes())), None));
    v.push((format!("b5 950 0 aaedaee6,{}", hexs("表格".as_bytes())), None));
    // whole file: BOM-like units at segment starts in SST, LABEL and a sheet name
    v.push(("file 1 case 1 6100fffe6200,~,~,0,1,1:1,-,-;fffe6100,~,~,0,1,-,-,-;-,~,~,0,1,-,-,-".into(), None));
    // fixed 9c57a3b (C06 overlap): header fields cut by a record end, negative cstUnique, cstUnique = 2^31-1 (reservation)
    v.push(("dec fc000c0001000000ffffff7f00000000".into(), None));
    v.push(("dec fc000b00010000000100000000000c".into(), None));
    v.push(("dec fc000c0001000000ffffffff00000000".into(), None));
    // finding D43: a surrogate pair whose halves sit in two records (a record may be cut after any 16-bit unit) read as
    // U+FFFD U+FFFD; with a flag-only CONTINUE in between (seeded change C12-m13); 8-bit text before the pair
    v.push(("case 1 3dd800de,~,~,0,1,1:1,-,-".into(), None));
    v.push(("case 1 3dd800de,~,~,0,1,1:1/0:1,-,-".into(), None));
    v.push(("case 2 610062003dd800de6300,~,~,0,0,2:1/1:1/1:0,-,-;3dd800de,~,~,1,1,-,-,-".into(), None));
    v.push(("file 2 case 1 61003dd800de6200,~,~,0,1,2:1/0:1/1:1,-,-".into(), None));
    v
}

// ---------------------------------------------------------------- work distribution

/// stage E: the Workbook / Book stream of every .xls fixture of the repo, through `dec` (impl vs model on
/// string tables written by Excel / LibreOffice and friends)
#[cfg(not(feature = "hooks"))]
fn fixture_streams() -> Vec<(String, Vec<u8>)> {
    vec![] // needs `verif_hooks::cfb::Cfb` to pull the Workbook stream out of the container
}

#[cfg(feature = "hooks")]
fn fixture_streams() -> Vec<(String, Vec<u8>)> {
    let mut out = vec![];
    let mut paths: Vec<_> = match std::fs::read_dir("/repo/tests") {
        Ok(d) => d.filter_map(|e| e.ok()).map(|e| e.path()).filter(|p| p.extension().map(|x| x == "xls").unwrap_or(false)).collect(),
        Err(_) => vec![],
    };
    paths.sort();
    for p in paths {
        let bytes = match std::fs::read(&p) {
            Ok(b) => b,
            Err(_) => continue,
        };
        let name = p.file_name().unwrap().to_string_lossy().to_string();
        let res = guarded(|| {
            let mut cur = std::io::Cursor::new(&bytes);
            let mut cfb = calamine::verif_hooks::cfb::Cfb::new(&mut cur, bytes.len()).ok()?;
            for s in ["Workbook", "Book"] {
                if let Ok(st) = cfb.get_stream(s, &mut cur) {
                    return Some(st);
                }
            }
            None
        });
        if let Ok(Some(st)) = res {
            if alloc_safe_any(&st) {
                out.push((name, st));
            }
        }
    }
    out
}

/// cstUnique of the first SST record of a workbook stream stays small enough for `Vec::with_capacity`
fn alloc_safe_any(stream: &[u8]) -> bool {
    let mut p = 0usize;
    while p + 4 <= stream.len() {
        let typ = u16::from_le_bytes([stream[p], stream[p + 1]]);
        let n = u16::from_le_bytes([stream[p + 2], stream[p + 3]]) as usize;
        if typ == 0x00FC {
            return p + 12 > stream.len() || alloc_safe(&stream[p..]);
        }
        p += 4 + n;
    }
    true
}

enum Job {
    /// seed of one table: 8 layouts
    Table(u64),
    Illegal(u64),
    Mutated(u64),
    Recs(u64),
    Skip(u64),
    Str(u64),
    Wb(u64),
    Names(u64),
    Counts(u64),
    B5(u64),
    Big(usize, u64),
    Line(String, Option<String>),
}

fn run_job(job: &Job, drv: &mut Driver) -> Vec<Outcome> {
    let outs = run_job_inner(job, drv);
    // debugging aid: VERIF_C12_DUMP=<file> appends every request line (they can be piped into drv_c12)
    if let Ok(p) = std::env::var("VERIF_C12_DUMP") {
        use std::io::Write;
        if let Ok(mut f) = std::fs::OpenOptions::new().create(true).append(true).open(p) {
            for o in &outs {
                let _ = writeln!(f, "{}", o.input);
            }
        }
    }
    outs
}

fn run_job_inner(job: &Job, drv: &mut Driver) -> Vec<Outcome> {
    match job {
        Job::Line(l, e) => {
            if let Some(rest) = l.strip_prefix("file ") {
                let (seed, case_line) = rest.split_once(' ').unwrap_or(("0", ""));
                let reply = drv.ask(case_line);
                let stream = unhex(field(&reply, "bytes", "legal").unwrap_or("-"));
                if field(&reply, "legal", "model") != Some("1") {
                    // the stored text is only promised for legal layouts
                    let mut o = Outcome { input: l.clone(), ..Default::default() };
                    o.count("file.layout_not_legal_skipped");
                    return vec![o];
                }
                vec![run_file(seed.parse().unwrap_or(0), case_line, &stream)]
            } else if l.starts_with("big ") {
                let w: Vec<&str> = l.split_whitespace().collect();
                vec![run_big(w.get(1).and_then(|x| x.parse().ok()).unwrap_or(1), w.get(2).and_then(|x| x.parse().ok()).unwrap_or(1))]
            } else if l.starts_with("b5 ") {
                vec![run_b5(l)]
            } else if l.starts_with("names ") {
                vec![run_names(l)]
            } else if l.starts_with("wb ") {
                vec![run_wb(l)]
            } else if l.starts_with("case ") {
                vec![run_case(l, drv)]
            } else {
                vec![run_raw(l, drv, e.as_deref())]
            }
        }
        Job::Table(seed) => {
            let mut rng = Rng::new(*seed);
            let t = gen_table(&mut rng);
            // cstTotal (the number of references, which readers must not rely on): equal to / smaller than / larger
            // than cstUnique
            let total = match rng.below(3) {
                0 => t.len() as u32,
                1 => rng.below(t.len() as u64 + 1) as u32,
                _ => t.len() as u32 + 1 + rng.below(1 << 20) as u32,
            };
            let mut outs = vec![];
            let mut firsts: Option<String> = None;
            for k in 0..8 {
                let st = style(&mut rng, k);
                let ls = make_layout(&t, &mut rng, &st);
                let line = wire_table(total, &t, &ls);
                let mut o = run_case(&line, drv);
                // a failing legal layout: report the shrunk table under the same signature as well
                if let Some(f) = o.fails.iter().find(|f| f.0 != "model_vs_spec").cloned() {
                    if line.len() > 120 && SHRINKS_LEFT.fetch_sub(1, std::sync::atomic::Ordering::SeqCst) > 0 {
                        let small = shrink_case(&line, &f.0, &f.1, drv);
                        for sf in small.fails.iter().filter(|sf| sf.0 == f.0 && sf.1 == f.1) {
                            o.fails.push(sf.clone());
                        }
                    }
                }
                if o.counters.iter().any(|c| c.0 == "sst.layout_not_legal") {
                    o.fail("model_vs_spec", "generator_produced_illegal_layout", "", "", "");
                }
                match &firsts {
                    None => firsts = Some(o.impl_out.clone()),
                    Some(f) => {
                        if *f != o.impl_out {
                            let i = o.impl_out.clone();
                            o.fail("impl_vs_spec", "layout_dependent_result", &i, "", f);
                        }
                    }
                }
                outs.push(o);
            }
            // stage D: one of the 8 layouts inside a complete workbook
            let k = rng.below(8) as usize;
            if outs[k].fails.is_empty() && outs[k].counters.iter().any(|c| c.0 == "sst.legal_layouts") {
                let line = outs[k].input.clone();
                let fo = run_file(rng.next(), &line, &outs[k].stream);
                outs.push(fo);
            }
            for o in outs.iter_mut() {
                o.stream = vec![];
            }
            outs
        }
        Job::Illegal(seed) => {
            let mut rng = Rng::new(*seed);
            let t = gen_small_table(&mut rng);
            let ls = gen_illegal_layout(&t, &mut rng);
            let line = wire_table(1, &t, &ls);
            let mut o = run_case(&line, drv);
            o.count("illegal.cases");
            o.nontrivial = false;
            vec![o]
        }
        Job::Mutated(seed) => {
            let mut rng = Rng::new(*seed);
            let t = gen_small_table(&mut rng);
            let k = 2 + rng.below(3) as usize;
            let st = style(&mut rng, k);
            let st = Style { p_char: (1, 2), p_block: (1, 2), ..st };
            let ls = make_layout(&t, &mut rng, &st);
            let reply = drv.ask(&wire_table(1, &t, &ls));
            let bytes = unhex(field(&reply, "bytes", "legal").unwrap_or("-"));
            let mut outs = vec![];
            for _ in 0..4 {
                let m = mutate(&bytes, &mut rng);
                if !alloc_safe(&m) {
                    continue;
                }
                let mut o = run_raw(&format!("dec {}", hexs(&m)), drv, None);
                o.nontrivial = false;
                outs.push(o);
            }
            outs
        }
        Job::Recs(seed) => {
            let mut rng = Rng::new(*seed);
            let s = gen_record_stream(&mut rng);
            vec![run_raw(&format!("recs {}", hexs(&s)), drv, None)]
        }
        Job::Skip(seed) => {
            let mut rng = Rng::new(*seed);
            let (n, s) = gen_skip_case(&mut rng);
            vec![run_raw(&format!("skip {n} {}", hexs(&s)), drv, None)]
        }
        Job::Names(seed) => {
            let mut rng = Rng::new(*seed);
            vec![run_names(&gen_names(&mut rng))]
        }
        Job::Counts(seed) => {
            // cstUnique smaller than / equal to / larger than the number of strings present
            let mut rng = Rng::new(*seed);
            let t = if rng.chance(2, 3) { gen_empty_table(&mut rng) } else { gen_small_table(&mut rng) };
            let k = rng.below(3);
            let st = style(&mut rng, k as usize);
            let ls = make_layout(&t, &mut rng, &st);
            let reply = drv.ask(&wire_table(1, &t, &ls));
            let mut bytes = unhex(field(&reply, "bytes", "legal").unwrap_or("-"));
            let n = t.len();
            let c = match rng.below(4) {
                0 => n,
                1 => rng.below(n as u64 + 1) as usize,
                2 => n.saturating_sub(1),
                _ => n + 1 + rng.below(3) as usize,
            };
            if bytes.len() >= 12 {
                bytes[8..12].copy_from_slice(&(c as u32).to_le_bytes());
            }
            // the declared count rules: the first c strings, whatever follows them in the record
            let expect = if c <= n && t.iter().all(|e| String::from_utf16(&e.units).is_ok()) {
                let texts: Vec<String> = t[..c].iter().map(|e| String::from_utf16_lossy(&e.units)).collect();
                Some(canon_strings(&texts))
            } else {
                None
            };
            let mut o = run_raw(&format!("dec {}", hexs(&bytes)), drv, expect.as_deref());
            o.count(match c.cmp(&n) {
                std::cmp::Ordering::Less => "counts.cst_unique_smaller",
                std::cmp::Ordering::Equal => "counts.cst_unique_exact",
                std::cmp::Ordering::Greater => "counts.cst_unique_larger",
            });
            vec![o]
        }
        Job::Big(k, seed) => vec![run_big(*k, *seed)],
        Job::B5(seed) => {
            let mut rng = Rng::new(*seed);
            vec![run_b5(&gen_b5(&mut rng))]
        }
        Job::Wb(seed) => {
            let mut rng = Rng::new(*seed);
            let s = gen_wb(&mut rng);
            vec![run_wb(&format!("wb {}", hexs(&s)))]
        }
        Job::Str(seed) => {
            let mut rng = Rng::new(*seed);
            let (line, expect) = gen_str_case(&mut rng);
            vec![run_raw(&line, drv, expect.as_deref())]
        }
    }
}

fn main() {
    let args = Args::parse();
    let mut rep = Report::new(
        "C12",
        "stage A: random shared-string tables (0-40 strings; lengths 0,1,2,..,300, some to 3000, in 1 table of 30 also 4111..32767 so that one \
         string spans several CONTINUE records; ASCII / Latin-1 / BMP / astral (surrogate pairs) / BOM-like and boundary \
         code points; optional rgRun (0..2100 runs, rarely 16384..16500) and ExtRst (0..9000 bytes)) x 8 layouts per table (forced-cuts-only wide, \
         forced-cuts-only compressed, 6 random: cut density 1/400..9/10 per character boundary / run / ext byte, breaks \
         between strings, zero-length first segment, random 8/16-bit packing per segment whenever all units < 0x100); breaks between \
         the halves of a surrogate pair (half of the random layouts), CONTINUE records holding their flag byte alone (a quarter); every \
         layout is checked `Legal` by the Lean spec (cuts never inside a header or a 16-bit unit, no CONTINUE record opened after the \
         last character, no empty CONTINUE record, records <= 8224 bytes); \
         the stream is produced by the Lean encoder and read by the real RecordIter+parse_sst (hook, code page 1200), by the \
         Lean model and compared with the stored text; the 8 results of a table must be identical. stage B (correspondence \
         only): illegal layouts, streams with one structural fault, raw record sequences for RecordIter, Record::skip. \
         the SST header's cstTotal is equal to / smaller than / larger than cstUnique (a third each). \
         stage D: one layout of each table inside a complete .xls (xlsw writer, random compound-file layout): LABELSST cell per \
         string (one time in three a second cell of the sheet names the same string; the other sheets name it again), FORMULA+STRING \
         also with a SHRFMLA / ARRAY / TABLE record between the two and, one time in three, with a token stream the reader cannot render \
         (PtgTbl, PtgMemFunc, PtgRefN), inline LABEL cells and FORMULA+STRING results for strings <= 2000 units, sheet names = first <= 30 units of a \
         table string (NUL excluded), read through Xls::new / sheet_names / worksheet_range against the stored text. \
         one table in 12 is made of 13..80 strings nearly all empty (cch = 0, 8- or 16-bit flag, with or without the rich / ext \
         flags carrying zero counts) with a few short ones at the end; `counts`: such tables (and small ones) with cstUnique set \
         below / at / above the number of strings present (the first cstUnique strings are expected, the rest of the record is ignored). \
         stage H: workbooks whose SST holds 65536+k distinct short strings (k = 1, 100, random; xlsw writer, ~60 CONTINUE records) \
         with LABELSST cells naming entries 0, 1, 255, 256, 65535, 65536, 65537, the last and random ones >= 65536. \
         stage I: BIFF5 workbooks whose sheet name, LABEL value and defined name are byte strings (no flag byte) in code page 1252, \
         65001 (UTF-8) or one of the double-byte pages 932 / 936 / 949 / 950 (a few characters each, mixed with ASCII), the code page given by the CODEPAGE record or forced through XlsOptions::force_codepage. \
         stage G: 1-3 defined names (1..255 units; BIFF8: any characters, random 8/16-bit packing; BIFF5: Latin-1 letters as plain \
         code-page-1252 bytes, no flag byte) in a BIFF8 / BIFF5 workbook, read through Xls::new / defined_names against the stored names. \
         stage F: a small workbook stream (BOF, CODEPAGE, DATEMODE, FORMAT, XF, BOUNDSHEET, SUPBOOK, EXTERNSHEET, LBL, SST, EOF + a \
         sheet with DIMENSIONS, LABEL, LABELSST, FORMULA, MERGECELLS) with one record cut to a random shorter length or one \
         byte replaced, sometimes a sheet offset beyond the stream, opened with Xls::new and every sheet read: Ok or Err, no panic. \
         stage E: the Workbook/Book stream of every tests/*.xls fixture through the SST reader (impl vs model). \
         stage C (long values: 4095 / 4096 / 4097 / 5000 / 8000 characters, 8-bit whenever the text allows) and stage D (one table \
         in 40 holds 1-3 Latin-1 strings of 4095..8200 characters, written also as inline LABEL and formula STRING values of one record; \
         sheets are worksheets, macro sheets, chart sheets or VBA modules, all holding the same kinds of cell records). \
         stage C: parse_short_string/parse_string payloads (BIFF8 8/16-bit and BIFF5, empty, truncated) against the stored text \
         (not asserted: the empty BIFF5 short string, whose only reader is the sheet-name field). \
         non-trivial = a legal table with at least one break inside characters/rgRun/ExtRst, or a raw case the reader accepts; \
         distinct by request text",
    );
    let mut jobs: Vec<Job> = vec![];
    if let Some(inp) = &args.replay {
        jobs.push(Job::Line(inp.clone(), None));
    } else {
        for (l, e) in corpus() {
            jobs.push(Job::Line(l, e));
        }
        for l in wb_corpus() {
            jobs.push(Job::Line(l, None));
        }
        let fx = fixture_streams();
        rep.add("fixture.workbook_streams", fx.len() as u64);
        for (_, st) in fx {
            jobs.push(Job::Line(format!("dec {}", hexs(&st)), None));
        }
        let n = args.count(5000, 500_000);
        let mut rng = Rng::new(args.seed);
        for i in 0..n {
            jobs.push(Job::Table(rng.next()));
            if i % 2 == 0 {
                jobs.push(Job::Illegal(rng.next()));
                jobs.push(Job::Mutated(rng.next()));
            }
            jobs.push(Job::Recs(rng.next()));
            jobs.push(Job::Skip(rng.next()));
            jobs.push(Job::Str(rng.next()));
            jobs.push(Job::Str(rng.next()));
            jobs.push(Job::Wb(rng.next()));
            if i % 2 == 0 {
                jobs.push(Job::Names(rng.next()));
            }
            jobs.push(Job::Counts(rng.next()));
            if i % 4 == 0 {
                jobs.push(Job::B5(rng.next()));
            }
        }
        // shared-string tables of more than 65 536 entries (about 0.6 MB each)
        let bigs = if args.thorough() { 40 } else { 3 };
        for j in 0..bigs {
            let k = match j {
                0 => 1,
                1 => 100,
                _ => rng.range(1, 100) as usize,
            };
            jobs.push(Job::Big(k, rng.next()));
        }
    }
    let threads = if args.replay.is_some() {
        1
    } else {
        std::thread::available_parallelism().map(|n| n.get()).unwrap_or(4).min(if args.thorough() { 16 } else { 8 })
    };
    verif_harness::silence_panics();
    let jobs = std::sync::Arc::new(jobs);
    let next = std::sync::Arc::new(std::sync::atomic::AtomicUsize::new(0));
    let (tx, rx) = mpsc::sync_channel::<Vec<Outcome>>(256);
    let mut handles = vec![];
    for _ in 0..threads {
        let jobs = jobs.clone();
        let next = next.clone();
        let tx = tx.clone();
        let driver = args.driver.clone();
        handles.push(std::thread::spawn(move || {
            let mut drv = Driver::spawn(&driver);
            loop {
                let i = next.fetch_add(1, std::sync::atomic::Ordering::SeqCst);
                if i >= jobs.len() {
                    break;
                }
                let outs = run_job(&jobs[i], &mut drv);
                if tx.send(outs).is_err() {
                    break;
                }
            }
        }));
    }
    drop(tx);
    let mut tables = 0u64;
    for outs in rx {
        if outs.len() >= 8 {
            tables += 1;
        }
        for o in outs {
            rep.case(&o.input, o.nontrivial);
            for (k, n) in &o.counters {
                rep.add(k, *n);
            }
            for (kind, sig, input, i, m, e) in &o.fails {
                rep.fail(kind, sig, input, i, m, e);
            }
        }
    }
    for h in handles {
        h.join().expect("worker thread");
    }
    rep.add("tables_x8_layouts", tables);
    #[cfg(not(feature = "hooks"))]
    rep.notes.push(
        "C12 built WITHOUT verif-hooks (a hooked private signature of /repo changed): stage A reads every SST layout through a generated \
         workbook (LABELSST cell per string, Xls::new / worksheet_range) instead of the sst_from_stream hook; `counts` and the BIFF8 \
         parse_string cases that carry an expectation go through generated workbooks too; stages D, F, G, H (public API) run unchanged; \
         skipped (counter skipped.hooks_unavailable): stage B correspondence on malformed / illegal-record streams (dec without \
         expectation, recs, skip), the short-string and BIFF5 string payloads of stage C, stage E (fixture Workbook streams)"
            .into(),
    );
    rep.notes.push(
        "C12: encoding_rs (UTF-16LE code units -> text) and the codepage crate are exercised, not modelled; only code page 1200 (BIFF8) is covered"
            .into(),
    );
    rep.write(&args.out);
}
