//! C18 — VBA modules are extracted byte-exact from the compressed project.
//!
//! Four streams of cases, each compared three ways (impl = real calamine in-process, model = Lean `drv_c18`,
//! oracle = the data the generator started from):
//!   A. containers : a source byte string → a token list chosen by one of several tokenisers (literal-only,
//!      greedy LZ, random valid tokenisation, raw chunks, mixtures) → serialized **by the Lean spec encoder**
//!      (`serialize`, the function `decompress_correct` speaks about) → `decompress_stream` (hook) vs model vs source.
//!   B. malformed  : single faults applied to valid containers; outcome class (ok+bytes / err / panic) impl vs model.
//!      A panic on malformed input (C06, ledger D34, repaired in /repo 3510bc7 and a92e839) is reported with a `malformed-panic:<site>`
//!      signature (none is known any more).
//!   C. projects   : whole VBA projects (dir stream + module streams, compressed by the same tokenisers, wrapped in a
//!      compound file by `cfbw::write_cfb`) read through `VbaProject::new`; names, raw bytes, decoded text,
//!      references vs the generator's data and vs the model (`proj`). The `dir` walk alone also goes through the hook.
//!   D. fixtures   : every `tests/*.xlsm|xlsb|xls` of the repo that carries a VBA project: impl vs model on the real
//!      dir stream, module streams and the whole project.
use calamine::vba::{Reference, VbaError, VbaProject};
#[cfg(feature = "hooks")]
use calamine::verif_hooks::cfb::{decompress_stream, Cfb, CfbError, XlsEncoding};
#[cfg(feature = "hooks")]
use calamine::verif_hooks::vba as vhook;
use std::collections::BTreeMap;
use std::io::{Cursor, Read};
use verif_harness::cfbw::{write_cfb, CfbOpts};
use verif_harness::{driver::Driver, fnv64, guarded, hex, report::Report, rng::Rng, unhex, Args};

// ---------------------------------------------------------------------------------------------
// container syntax (mirrors Spec/OvbaContainer.lean; the bytes come from the Lean encoder, not from here)

#[derive(Clone, Debug, PartialEq)]
enum Tok {
    Lit(u8),
    Copy(usize, usize),
}

#[derive(Clone, Debug)]
enum Chunk {
    Raw(Vec<u8>),
    Comp(Vec<Tok>),
}

/// MS-OVBA 2.4.1.3.19.1: max(4, ceil(log2 d)) — written independently of the implementation's table lookup
fn bit_count(d: usize) -> usize {
    let mut b = 4;
    while (1usize << b) < d {
        b += 1;
    }
    b
}

fn max_len(d: usize) -> usize {
    (0xFFFFusize >> bit_count(d)) + 3
}

/// size in bytes of the CompressedChunkData of a token list
fn ser_len(toks: &[Tok]) -> usize {
    toks.len().div_ceil(8) + toks.iter().map(|t| if matches!(t, Tok::Lit(_)) { 1 } else { 2 }).sum::<usize>()
}

fn out_len(toks: &[Tok]) -> usize {
    toks.iter().map(|t| if let Tok::Copy(_, l) = t { *l } else { 1 }).sum()
}

fn wire_chunks(cs: &[Chunk]) -> String {
    if cs.is_empty() {
        return "-".into();
    }
    let mut parts = vec![];
    for c in cs {
        match c {
            Chunk::Raw(b) => parts.push(format!("R{}", hex(b))),
            Chunk::Comp(toks) => {
                let mut s = String::from("C");
                let mut run: Vec<u8> = vec![];
                for t in toks {
                    match t {
                        Tok::Lit(b) => run.push(*b),
                        Tok::Copy(o, l) => {
                            if !run.is_empty() {
                                s.push_str(&format!(",L{}", hex(&run)));
                                run.clear();
                            }
                            s.push_str(&format!(",K{o}:{l}"));
                        }
                    }
                }
                if !run.is_empty() {
                    s.push_str(&format!(",L{}", hex(&run)));
                }
                parts.push(s);
            }
        }
    }
    parts.join("/")
}

// ---------------------------------------------------------------------------------------------
// tokenisers (the "compressors"): every one returns a token list that expands to `block`

#[derive(Clone, Copy, Debug, PartialEq)]
enum Mode {
    Literal,
    Greedy,
    Random,
    Raw,
    Mixed,
}

fn match_len(block: &[u8], d: usize, off: usize, cap: usize) -> usize {
    let mut k = 0;
    while k < cap && block[d + k] == block[d - off + k] {
        k += 1;
    }
    k
}

fn key3(block: &[u8], d: usize) -> u32 {
    (block[d] as u32) | (block[d + 1] as u32) << 8 | (block[d + 2] as u32) << 16
}

fn tokenise(block: &[u8], mode: Mode, rng: &mut Rng) -> Vec<Tok> {
    let n = block.len();
    let mut toks = vec![];
    if mode == Mode::Literal {
        return block.iter().map(|b| Tok::Lit(*b)).collect();
    }
    let mut table: std::collections::HashMap<u32, Vec<usize>> = std::collections::HashMap::new();
    let mut indexed = 0usize; // positions < indexed are in the table
    let p_copy = if mode == Mode::Greedy { 100 } else { [30u64, 60, 90][rng.below(3) as usize] };
    let mut d = 0;
    while d < n {
        while indexed < d && indexed + 2 < n {
            let e = table.entry(key3(block, indexed)).or_default();
            e.push(indexed);
            if e.len() > 12 {
                e.remove(0);
            }
            indexed += 1;
        }
        let cap = max_len(d).min(n - d);
        let mut cands: Vec<(usize, usize)> = vec![]; // (off, matchlen ≥ 3)
        if d >= 1 && cap >= 3 && rng.below(100) < p_copy {
            let mut offs: Vec<usize> = vec![];
            if d + 2 < n {
                if let Some(ps) = table.get(&key3(block, d)) {
                    offs.extend(ps.iter().map(|p| d - p));
                }
            }
            offs.push(1);
            offs.push(d);
            if mode != Mode::Greedy {
                for _ in 0..3 {
                    offs.push(rng.range(1, d as u64) as usize);
                }
            } else if d >= 2 {
                offs.push(2);
            }
            for off in offs {
                let m = match_len(block, d, off, cap);
                if m >= 3 {
                    cands.push((off, m));
                }
            }
        }
        if cands.is_empty() {
            toks.push(Tok::Lit(block[d]));
            d += 1;
        } else if mode == Mode::Greedy {
            let (off, m) = *cands.iter().max_by_key(|c| (c.1, usize::MAX - c.0)).unwrap();
            toks.push(Tok::Copy(off, m));
            d += m;
        } else {
            let (off, m) = cands[rng.below(cands.len() as u64) as usize];
            let len = match rng.below(4) {
                0 => 3,
                1 => m,
                _ => rng.range(3, m as u64) as usize,
            };
            toks.push(Tok::Copy(off, len));
            d += len;
        }
    }
    toks
}

/// make the token count a multiple of 8 (the D16 shape) by splitting copies / turning short copies into
/// literals; gives up (returns false) when the chunk has no copy token or would outgrow 4096 data bytes
fn force_group_boundary(toks: &mut Vec<Tok>, block: &[u8], rng: &mut Rng) -> bool {
    let mut guard = 0;
    while toks.len() % 8 != 0 {
        guard += 1;
        if guard > 64 {
            return false;
        }
        // positions of the copy tokens
        let mut d = 0;
        let mut copies = vec![];
        for (i, t) in toks.iter().enumerate() {
            if let Tok::Copy(_, l) = t {
                copies.push((i, d, *l));
                d += l;
            } else {
                d += 1;
            }
        }
        if copies.is_empty() {
            return false;
        }
        let need = 8 - toks.len() % 8;
        let (i, d, l) = copies[rng.below(copies.len() as u64) as usize];
        let off = if let Tok::Copy(o, _) = toks[i] { o } else { unreachable!() };
        if l >= 6 {
            // copy(off, l) = copy(off, l-3); copy(off, 3)   (byte-by-byte semantics)
            toks[i] = Tok::Copy(off, l - 3);
            toks.insert(i + 1, Tok::Copy(off, 3));
        } else if l - 1 <= need {
            let lits: Vec<Tok> = block[d..d + l].iter().map(|b| Tok::Lit(*b)).collect();
            toks.splice(i..i + 1, lits);
        } else {
            continue;
        }
    }
    ser_len(toks) <= 4096
}

/// reference expansion (harness-side sanity of the tokenisers; the Lean `expand` is the one that counts)
fn expand_tokens(toks: &[Tok]) -> Vec<u8> {
    let mut out = vec![];
    for t in toks {
        match t {
            Tok::Lit(b) => out.push(*b),
            Tok::Copy(o, l) => {
                for _ in 0..*l {
                    out.push(out[out.len() - o]);
                }
            }
        }
    }
    out
}

struct Encoded {
    chunks: Vec<Chunk>,
    /// the bytes the container stands for (the source, possibly shortened when its tail cannot be a valid chunk)
    source: Vec<u8>,
    /// a non-final compressed chunk has a token count that is a multiple of 8
    boundary: bool,
    /// block sizes follow the format (4096 except the last)
    standard: bool,
    modes: Vec<Mode>,
}

/// split `source` into blocks and tokenise each; `force` asks for the D16 shape on non-final chunks;
/// `odd_split` cuts non-final blocks shorter than 4096 (decodable, not a format-valid container)
fn encode(source: &[u8], mode: Mode, force: bool, odd_split: bool, rng: &mut Rng) -> Encoded {
    let mut blocks: Vec<Vec<u8>> = vec![];
    let mut i = 0;
    while i < source.len() {
        let sz = if odd_split { rng.range(1, 4096) as usize } else { 4096 };
        let e = (i + sz).min(source.len());
        blocks.push(source[i..e].to_vec());
        i = e;
    }
    let nb = blocks.len();
    let mut chunks = vec![];
    let mut out_source = vec![];
    let mut boundary = false;
    let mut modes = vec![];
    for (k, mut block) in blocks.into_iter().enumerate() {
        let last = k + 1 == nb;
        let m = if mode == Mode::Mixed { *rng.pick(&[Mode::Literal, Mode::Greedy, Mode::Random, Mode::Raw]) } else { mode };
        let mut chunk = None;
        if m == Mode::Raw && block.len() == 4096 {
            chunk = Some(Chunk::Raw(block.clone()));
            modes.push(Mode::Raw);
        }
        if chunk.is_none() {
            let m2 = if m == Mode::Raw { Mode::Greedy } else { m };
            let mut toks = tokenise(&block, m2, rng);
            if ser_len(&toks) > 4096 {
                toks = tokenise(&block, Mode::Greedy, rng);
            }
            if ser_len(&toks) > 4096 {
                if block.len() == 4096 {
                    chunk = Some(Chunk::Raw(block.clone()));
                    modes.push(Mode::Raw);
                } else {
                    // an incompressible tail of 3641..4095 bytes has no valid chunk: shorten the source
                    block.truncate(3640);
                    toks = block.iter().map(|b| Tok::Lit(*b)).collect();
                }
            }
            if chunk.is_none() {
                if force && !last {
                    let mut t2 = toks.clone();
                    if force_group_boundary(&mut t2, &block, rng) {
                        toks = t2;
                    }
                }
                if !last && toks.len() % 8 == 0 {
                    boundary = true;
                }
                modes.push(m2);
                chunk = Some(Chunk::Comp(toks));
            }
        }
        out_source.extend_from_slice(&block);
        chunks.push(chunk.unwrap());
        if block.len() < 4096 && !last && !odd_split {
            break; // shortened tail in the middle cannot happen (only the last block can be short)
        }
    }
    Encoded { chunks, source: out_source, boundary, standard: !odd_split, modes }
}

// ---------------------------------------------------------------------------------------------
// sources

const VBA_WORDS: [&str; 24] = [
    "Sub ", "End Sub\r\n", "Dim ", " As ", "Integer", "String", "Range(\"A1\")", ".Value", " = ", "For i = 1 To ",
    "Next i\r\n", "If ", " Then\r\n", "End If\r\n", "MsgBox ", "\"hello\"", "Function ", "End Function\r\n",
    "Attribute VB_Name = \"", "\"\r\n", "    ", "Cells(i, 1)", "Option Explicit\r\n", "' comment\r\n",
];

fn gen_source(len: usize, rng: &mut Rng) -> (Vec<u8>, &'static str) {
    match rng.below(6) {
        0 => (rng.bytes(len), "random"),
        1 => {
            let k = rng.range(1, 4);
            let alpha = rng.bytes(k as usize);
            ((0..len).map(|_| alpha[rng.below(k) as usize]).collect(), "small-alphabet")
        }
        2 => {
            // runs (RLE-like, overlapping copies with offset 1..3)
            let mut v = vec![];
            while v.len() < len {
                let b = rng.next() as u8;
                let run = if rng.chance(1, 8) { rng.range(1, 5000) } else { rng.range(1, 40) } as usize;
                for _ in 0..run {
                    v.push(b);
                }
            }
            v.truncate(len);
            (v, "runs")
        }
        3 => {
            // a phrase repeated with mutations (long offsets)
            let plen = rng.range(2, 700) as usize;
            let mut phrase = rng.bytes(plen);
            let mut v = vec![];
            while v.len() < len {
                v.extend_from_slice(&phrase);
                if rng.chance(1, 3) {
                    let i = rng.below(plen as u64) as usize;
                    phrase[i] = rng.next() as u8;
                }
            }
            v.truncate(len);
            (v, "phrase")
        }
        4 => {
            let mut v = vec![];
            while v.len() < len {
                v.extend_from_slice(rng.pick(&VBA_WORDS).as_bytes());
            }
            v.truncate(len);
            (v, "vba-text")
        }
        _ => {
            // half redundant, half noise
            let mut v = vec![];
            while v.len() < len {
                if rng.chance(1, 2) {
                    let k = rng.range(1, 300) as usize;
                    v.extend(rng.bytes(k));
                } else {
                    let b = rng.next() as u8;
                    let n = rng.range(3, 300) as usize;
                    v.extend(std::iter::repeat(b).take(n));
                }
            }
            v.truncate(len);
            (v, "mixed")
        }
    }
}

fn gen_len(rng: &mut Rng) -> (usize, usize) {
    // (number of chunks, total length)
    let k = rng.below(100);
    let nchunks = if k < 3 { 0 } else if k < 58 { 1 } else { *rng.pick(&[2usize, 2, 2, 2, 3, 3, 4, 5]) };
    if nchunks == 0 {
        return (0, 0);
    }
    let last = match rng.below(6) {
        0 => rng.range(1, 20),
        1 => *rng.pick(&[1u64, 2, 3, 15, 16, 17, 31, 32, 33, 64, 65, 128, 129, 256, 257, 512, 513, 1024, 1025, 2048, 2049, 4095, 4096]),
        2 => 4096,
        _ => rng.range(1, 4096),
    } as usize;
    (nchunks, (nchunks - 1) * 4096 + last)
}

// ---------------------------------------------------------------------------------------------
// outcomes

fn digest(b: &[u8]) -> String {
    format!("{}:{}", b.len(), fnv64(b))
}

/// the decoder used to turn the MODEL's byte strings into text. With hooks: calamine's own `XlsEncoding` (the model
/// leaves decoding to encoding_rs, as the code does). Without hooks (`--no-default-features`, see `./check`): an
/// independent decoder from the tables of this file, complete for everything the generators emit and the fixtures
/// contain (ASCII; 1252, 1251 all bytes; 932 half-width katakana, hiragana and katakana rows; 65001; 1200).
#[cfg(feature = "hooks")]
type Enc = XlsEncoding;
#[cfg(not(feature = "hooks"))]
struct Enc(u16);
#[cfg(not(feature = "hooks"))]
impl Enc {
    fn from_codepage(cp: u16) -> Result<Enc, ()> {
        Ok(Enc(cp))
    }
    fn decode_all(&self, b: &[u8]) -> String {
        match self.0 {
            65001 => String::from_utf8_lossy(b).into_owned(),
            1200 => String::from_utf16_lossy(&b.chunks(2).map(|c| u16::from_le_bytes([c[0], *c.get(1).unwrap_or(&0)])).collect::<Vec<_>>()),
            1252 | 1251 => b.iter().map(|x| if *x < 0x80 { *x as char } else { hi_char(self.0, *x) }).collect(),
            932 => {
                let mut s = String::new();
                let mut i = 0;
                while i < b.len() {
                    let x = b[i];
                    let y = b.get(i + 1).copied().unwrap_or(0);
                    if x < 0x80 {
                        s.push(x as char);
                    } else if (0xA1..=0xDF).contains(&x) {
                        s.push(hi_char(932, x));
                    } else if x == 0x82 && (0x9F..=0xF1).contains(&y) {
                        s.push(char::from_u32(0x3041 + (y as u32 - 0x9F)).unwrap());
                        i += 1;
                    } else if x == 0x83 && (0x40..=0x96).contains(&y) && y != 0x7F {
                        let k = if y < 0x7F { y as u32 - 0x40 } else { y as u32 - 0x80 + 63 };
                        s.push(char::from_u32(0x30A1 + k).unwrap());
                        i += 1;
                    } else {
                        s.push('\u{FFFD}');
                    }
                    i += 1;
                }
                s
            }
            _ => b.iter().map(|x| if *x < 0x80 { *x as char } else { '\u{FFFD}' }).collect(),
        }
    }
}

/// error class of a `CfbError` seen only through `Debug` (its type cannot be named without the hooks)
#[cfg(not(feature = "hooks"))]
fn cfb_class<E: std::fmt::Debug>(e: &E) -> String {
    let d = format!("{e:?}");
    let v = d.split(|c: char| !c.is_alphanumeric()).next().unwrap_or("");
    match v {
        "Io" => "err:io".into(),
        "Ole" => "err:ole".into(),
        "EmptyRootDir" => "err:emptyroot".into(),
        "StreamNotFound" => "err:streamnotfound".into(),
        "Invalid" => "err:invalid".into(),
        "CodePageNotFound" => "err:codepage".into(),
        other => format!("err:cfb-{other}"),
    }
}

#[cfg(feature = "hooks")]
fn cfb_class(e: &CfbError) -> String {
    match e {
        CfbError::Io(_) => "err:io".into(),
        CfbError::Ole => "err:ole".into(),
        CfbError::EmptyRootDir => "err:emptyroot".into(),
        CfbError::StreamNotFound(_) => "err:streamnotfound".into(),
        CfbError::Invalid { .. } => "err:invalid".into(),
        CfbError::CodePageNotFound(_) => "err:codepage".into(),
    }
}

fn vba_class(e: &VbaError) -> String {
    match e {
        VbaError::Cfb(c) => cfb_class(c),
        VbaError::Io(_) => "err:io".into(),
        VbaError::ModuleNotFound(_) => "err:modulenotfound".into(),
        VbaError::Unknown { .. } => "err:unknown".into(),
        VbaError::LibId => "err:libid".into(),
        VbaError::InvalidRecordId { .. } => "err:recordid".into(),
    }
}

/// a container of `data` made of literal-only chunks of at most 3000 bytes (decodable by construction; written
/// here so that no implementation code is involved)
#[cfg(not(feature = "hooks"))]
fn literal_container(data: &[u8]) -> Vec<u8> {
    let mut out = vec![1u8];
    for block in data.chunks(3000) {
        let mut body = vec![];
        for g in block.chunks(8) {
            body.push(0u8);
            body.extend_from_slice(g);
        }
        let h = 0xB000u16 | (body.len() as u16 - 1);
        out.extend_from_slice(&h.to_le_bytes());
        out.extend(body);
    }
    out
}

/// without the hooks `decompress_stream` is private: it is reached through the public API by wrapping the container
/// under test as the only module stream (text offset 0) of a minimal VBA project in a compound file and reading it
/// with `VbaProject::new` + `get_module_raw`
#[cfg(not(feature = "hooks"))]
fn impl_dec(bytes: &[u8]) -> (String, Option<Vec<u8>>) {
    use std::sync::OnceLock;
    static DIRC: OnceLock<Vec<u8>> = OnceLock::new();
    let dirc = DIRC.get_or_init(|| {
        let name = (b"M".to_vec(), "M".to_string());
        let p = ProjSpec { cp: 1252, compat: false, refs: vec![], mods: vec![ModSpec { name: name.clone(), stream: name, offset: 0, text: (vec![], String::new()), private: false, readonly: false, doc: false }] };
        literal_container(&build_dir(&p, &mut Rng::new(18)).0)
    });
    let file = write_cfb(&[("dir".to_string(), dirc.clone()), ("M".to_string(), bytes.to_vec())], &CfbOpts::default(), &mut Rng::new(18));
    match guarded(|| {
        let mut cur = Cursor::new(&file[..]);
        VbaProject::new(&mut cur, file.len()).map(|vp| vp.get_module_raw("M").map(|r| r.to_vec()).unwrap_or_default())
    }) {
        Ok(Ok(v)) => (format!("ok:{}", digest(&v)), Some(v)),
        Ok(Err(e)) => (vba_class(&e), None),
        Err(_) => ("panic".into(), None),
    }
}

/// outcome of the real `decompress_stream` in the driver's digest form
#[cfg(feature = "hooks")]
fn impl_dec(bytes: &[u8]) -> (String, Option<Vec<u8>>) {
    match guarded(|| decompress_stream(bytes)) {
        Ok(Ok(v)) => (format!("ok:{}", digest(&v)), Some(v)),
        Ok(Err(e)) => (cfb_class(&e), None),
        Err(_) => ("panic".into(), None),
    }
}

fn class_of(s: &str) -> &str {
    if s.starts_with("panic") {
        "panic"
    } else if s.starts_with("ok") {
        "ok"
    } else {
        s
    }
}

/// for failure signatures: what the implementation did instead of returning the right bytes
fn wrong(s: &str) -> &str {
    if s.starts_with("ok") {
        "wrong-bytes"
    } else {
        class_of(s)
    }
}

// ---------------------------------------------------------------------------------------------
// A. containers

struct Ctx<'a> {
    drv: &'a mut Driver,
    rep: &'a mut Report,
}

/// returns the container bytes when the case ran
fn run_container(cx: &mut Ctx, enc: &Encoded, label: &str) -> Option<Vec<u8>> {
    let desc = wire_chunks(&enc.chunks);
    // the spec's `expand` is quadratic: always on small cases, sampled (1/32) on large ones
    let with_exp = enc.source.len() <= 600 || fnv64(desc.as_bytes()) % 32 == 0;
    let reply = cx.drv.ask(&format!("case {} {desc}", with_exp as u8));
    let f: Vec<&str> = reply.split(' ').collect();
    if f.len() != 4 {
        cx.rep.fail("model_vs_spec", "driver-protocol", &desc, "", &reply, "");
        return None;
    }
    let (flags, chex, exp_digest, model) = (f[0], f[1], f[2], f[3]);
    let valid = flags.starts_with('1');
    let decodable = flags.ends_with('1');
    let container = unhex(chex);
    let want = format!("ok:{}", digest(&enc.source));
    let nchunks = enc.chunks.len();
    let nontrivial = enc.chunks.iter().any(|c| matches!(c, Chunk::Comp(t) if t.iter().any(|x| matches!(x, Tok::Copy(..))))) || nchunks > 1;
    cx.rep.case(&format!("{label} {}", if desc.len() > 300 { &desc[..300] } else { &desc }), nontrivial);
    cx.rep.count(&format!("chunks:{nchunks}"));
    cx.rep.count(if valid { "valid-container" } else if decodable { "decodable-only-container" } else { "invalid-container" });
    if enc.boundary {
        cx.rep.count("boundary:nonfinal-chunk-ends-on-flag-group(D16 shape)");
    }
    for m in &enc.modes {
        cx.rep.count(&format!("chunk-mode:{m:?}"));
    }
    for c in &enc.chunks {
        if let Chunk::Comp(t) = c {
            let p = ser_len(t);
            if p >= 4094 {
                cx.rep.count(&format!("compressed-chunk-payload:{p}-bytes"));
            }
        }
    }
    // what the copy tokens of this container exercise
    let (mut bcs, mut overlap, mut maxlen, mut maxoff) = ([false; 16], false, false, false);
    for c in &enc.chunks {
        if let Chunk::Comp(toks) = c {
            let mut d = 0;
            for t in toks {
                match t {
                    Tok::Lit(_) => d += 1,
                    Tok::Copy(o, l) => {
                        bcs[bit_count(d)] = true;
                        overlap |= l > o;
                        maxlen |= *l == max_len(d);
                        maxoff |= *o == d;
                        d += l;
                    }
                }
            }
        }
    }
    for (b, hit) in bcs.iter().enumerate() {
        if *hit {
            cx.rep.count(&format!("containers-with-copy-at-bitcount:{b:02}"));
        }
    }
    if overlap {
        cx.rep.count("containers-with-overlapping-copy");
    }
    if maxlen {
        cx.rep.count("containers-with-copy-of-maximal-length");
    }
    if maxoff {
        cx.rep.count("containers-with-copy-from-chunk-start");
    }
    if enc.standard && !valid || !decodable {
        // the generator promised a valid container: harness/tokeniser bug or spec disagreement
        cx.rep.fail("model_vs_spec", "generator-not-valid", &desc, "", flags, "valid");
        return None;
    }
    if with_exp {
        cx.rep.count("expand-evaluated");
    }
    if with_exp && format!("ok:{exp_digest}") != want {
        cx.rep.fail("model_vs_spec", "expand-differs-from-source", &desc, "", exp_digest, &want);
        return None;
    }
    if model != want {
        // contradicts decompress_correct_decodable
        cx.rep.fail("model_vs_spec", "model-dec-differs-from-expand", &desc, "", model, &want);
    }
    let (imp, _) = impl_dec(&container);
    let sig_shape = if enc.boundary { "nonfinal-chunk-on-flag-group-boundary" } else { "other" };
    if imp != model {
        cx.rep.fail("impl_vs_model", &format!("dec:{}:{sig_shape}", wrong(&imp)), &format!("ser {desc}"), &imp, model, &want);
    }
    if imp != want && valid {
        cx.rep.fail("impl_vs_spec", &format!("dec:{}:{sig_shape}", wrong(&imp)), &format!("ser {desc}"), &imp, model, &want);
    }
    // the same container with the UNUSED bits of every last flag byte (behind the last token of a chunk) set at
    // random: MS-OVBA stops at the end of the chunk whatever those bits say; the spec encoder (and every usual
    // compressor) writes zeros there (seeded change C18-m22). One container in two; it is also the one handed on to
    // the project stage.
    let h = fnv64(desc.as_bytes());
    if valid && h % 2 == 1 {
        let mut padded = container.clone();
        let mut pos = 1usize;
        let mut touched = false;
        let mut bits = h >> 8;
        for c in &enc.chunks {
            match c {
                Chunk::Raw(_) => pos += 2 + 4096,
                Chunk::Comp(toks) => {
                    let g = toks.len() % 8;
                    if g != 0 {
                        let full = toks.len() - g;
                        let last_flag = pos + 2 + ser_len(&toks[..full]);
                        let pad = ((bits & 0xFF) as u8 | 1 << g) & (0xFFu8 << g);
                        bits = bits.rotate_right(8) ^ 0x9E37;
                        padded[last_flag] |= pad;
                        touched = true;
                    }
                    pos += 2 + ser_len(toks);
                }
            }
        }
        if touched {
            cx.rep.count("container-with-padding-bits-set-in-last-flag-bytes");
            let (imp2, _) = impl_dec(&padded);
            let model2 = cx.drv.ask(&format!("decd {}", hex(&padded)));
            let input = format!("dec {}", hex(&padded));
            if imp2 != model2 {
                cx.rep.fail("impl_vs_model", &format!("dec-padding-bits:{}", wrong(&imp2)), &input, &imp2, &model2, &want);
            }
            if imp2 != want {
                cx.rep.fail("impl_vs_spec", &format!("dec-padding-bits:{}", wrong(&imp2)), &input, &imp2, &model2, &want);
            }
            return Some(padded);
        }
    }
    Some(container)
}

/// a compressed chunk whose CompressedChunkData (flag bytes + literals + 2 x copy tokens) takes EXACTLY `payload`
/// bytes (4096 = size field 0x0FFF, the largest a compressed chunk can have; seeded change C18-m14) and that
/// expands to exactly `out` bytes (4096 for a non-final chunk). Found by search over (literals, copies).
fn exact_payload_chunk(payload: usize, out: Option<usize>, rng: &mut Rng) -> Option<Vec<Tok>> {
    let mut cands = vec![];
    for c in 1..400usize {
        for l in 1..4096usize {
            if l + 2 * c + (l + c).div_ceil(8) != payload {
                continue;
            }
            match out {
                Some(o) => {
                    if o >= l + 3 * c && o <= l + 18 * c {
                        cands.push((l, c, o - l));
                    }
                }
                None => {
                    if l + 3 * c <= 4096 {
                        let hi = (l + 18 * c).min(4096);
                        cands.push((l, c, rng.range((l + 3 * c) as u64, hi as u64) as usize - l));
                    }
                }
            }
        }
    }
    if cands.is_empty() {
        return None;
    }
    let (l, c, copy_total) = cands[rng.below(cands.len() as u64) as usize];
    // lengths of the c copies: 3..=18 each (18 is the longest copy at any position of a chunk), sum copy_total
    let mut lens = vec![3usize; c];
    let mut rest = copy_total - 3 * c;
    while rest > 0 {
        let i = rng.below(c as u64) as usize;
        if lens[i] < 18 {
            lens[i] += 1;
            rest -= 1;
        }
    }
    // positions: the first token is a literal; the copies are spread at random among the others
    let mut kinds = vec![false; l + c - 1];
    for k in kinds.iter_mut().take(c) {
        *k = true;
    }
    rng.shuffle(&mut kinds[..]);
    let mut toks = vec![Tok::Lit(rng.next() as u8)];
    let mut d = 1usize;
    let mut li = 0;
    for is_copy in kinds {
        if is_copy {
            let off = if rng.chance(1, 3) { d } else { rng.range(1, d as u64) as usize };
            toks.push(Tok::Copy(off, lens[li]));
            d += lens[li];
            li += 1;
        } else {
            toks.push(Tok::Lit(rng.next() as u8));
            d += 1;
        }
    }
    debug_assert_eq!(ser_len(&toks), payload);
    Some(toks)
}

/// containers around a chunk of exact payload size: alone / last after other chunks (final, any output length), or
/// first / in the middle (non-final: expands to 4096 bytes)
fn gen_exact_payload_case(rng: &mut Rng) -> Option<(Encoded, String)> {
    let payload = *rng.pick(&[4096usize, 4096, 4095, 4094]);
    let before = rng.below(3) as usize;
    let after = rng.below(2) as usize;
    let mut chunks = vec![];
    let mut modes = vec![];
    for _ in 0..before {
        let (src, _) = gen_source(4096, rng);
        let e = encode(&src, *rng.pick(&[Mode::Greedy, Mode::Random, Mode::Raw]), false, false, rng);
        chunks.extend(e.chunks);
        modes.extend(e.modes);
    }
    chunks.push(Chunk::Comp(exact_payload_chunk(payload, if after > 0 { Some(4096) } else { None }, rng)?));
    modes.push(Mode::Random);
    for k in 0..after {
        let (src, _) = gen_source(if k + 1 == after { rng.range(1, 4096) as usize } else { 4096 }, rng);
        let e = encode(&src, Mode::Greedy, false, false, rng);
        chunks.extend(e.chunks);
        modes.extend(e.modes);
    }
    let source: Vec<u8> = chunks.iter().flat_map(|c| match c { Chunk::Raw(b) => b.clone(), Chunk::Comp(t) => expand_tokens(t) }).collect();
    let n = chunks.len();
    let boundary = chunks[..n - 1].iter().any(|c| matches!(c, Chunk::Comp(t) if t.len() % 8 == 0));
    Some((Encoded { chunks, source, boundary, standard: true, modes }, format!("exact-payload={payload} before={before} after={after}")))
}

fn gen_container_case(rng: &mut Rng) -> (Encoded, String) {
    if rng.chance(1, 40) {
        if let Some(c) = gen_exact_payload_case(rng) {
            return c;
        }
    }
    let (nchunks, len) = gen_len(rng);
    let (src, kind) = gen_source(len, rng);
    let mode = *rng.pick(&[Mode::Literal, Mode::Greedy, Mode::Greedy, Mode::Random, Mode::Random, Mode::Random, Mode::Raw, Mode::Mixed]);
    let force = nchunks >= 2 && rng.chance(17, 20);
    let odd = nchunks >= 2 && rng.chance(1, 12);
    let enc = encode(&src, mode, force, odd, rng);
    (enc, format!("src={kind} mode={mode:?} len={len}"))
}

// ---------------------------------------------------------------------------------------------
// B. malformed

fn mutate(valid: &[u8], rng: &mut Rng) -> (Vec<u8>, &'static str) {
    let mut v = valid.to_vec();
    let n = v.len();
    match rng.below(9) {
        0 => {
            v.truncate(rng.below(n as u64 + 1) as usize);
            (v, "truncate")
        }
        1 => {
            v[0] = if rng.chance(1, 2) { 0 } else { rng.next() as u8 };
            (v, "signature-byte")
        }
        2 if n >= 3 => {
            // chunk header of the first chunk: signature bits / flag / size
            match rng.below(4) {
                0 => v[2] ^= 0x10 << rng.below(3),
                1 => v[2] ^= 0x80,
                2 => {
                    let h = (v[1] as u16 | (v[2] as u16) << 8) & 0xF000;
                    let sz = *rng.pick(&[0u16, 1, 2, 0xFFF, 0xFFE]);
                    v[1] = (h | sz) as u8;
                    v[2] = ((h | sz) >> 8) as u8;
                }
                _ => {
                    let sz = (v[1] as u16 | (v[2] as u16) << 8) & 0x0FFF;
                    let nsz = if rng.chance(1, 2) { sz.wrapping_add(1) } else { sz.wrapping_sub(1) } & 0x0FFF;
                    v[1] = nsz as u8;
                    v[2] = (v[2] & 0xF0) | (nsz >> 8) as u8;
                }
            }
            (v, "chunk-header")
        }
        3 if n >= 2 => {
            let i = rng.range(1, n as u64 - 1) as usize;
            v[i] ^= 1 << rng.below(8);
            (v, "bit-flip")
        }
        4 if n >= 2 => {
            let i = rng.range(1, n as u64 - 1) as usize;
            v[i] = *rng.pick(&[0u8, 0xFF, 0x80, 0x7F]);
            (v, "byte-set")
        }
        5 if n >= 4 => {
            // first flag byte: all copy tokens at the very start (offset > produced)
            v[3] = 0xFF;
            (v, "flags-all-copy")
        }
        6 => {
            let extra = rng.range(1, 6) as usize;
            v.extend(rng.bytes(extra));
            (v, "trailing-garbage")
        }
        7 => {
            let len = rng.range(0, 40) as usize;
            let mut g = rng.bytes(len);
            if !g.is_empty() && rng.chance(3, 4) {
                g[0] = 1;
            }
            if g.len() >= 3 && rng.chance(3, 4) {
                g[2] = (g[2] & 0x8F) | 0x30;
            }
            (g, "garbage")
        }
        _ => {
            if n > 4 {
                let i = rng.range(1, n as u64 - 2) as usize;
                v.remove(i);
            }
            (v, "delete-byte")
        }
    }
}

fn run_malformed(cx: &mut Ctx, bytes: &[u8], kind: &str) {
    let reply = cx.drv.ask(&format!("decd {}", hex(bytes)));
    let (imp, _) = impl_dec(bytes);
    cx.rep.case(&format!("malformed {kind} {}", hex(&bytes[..bytes.len().min(64)])), true);
    cx.rep.count(&format!("malformed:{kind}"));
    cx.rep.count(&format!("malformed-outcome:{}", if imp.starts_with("ok") { "ok" } else { &imp }));
    let input = format!("dec {}", hex(bytes));
    let same = imp == reply || (imp == "panic" && reply.starts_with("panic"));
    if !same {
        cx.rep.fail("impl_vs_model", &format!("malformed:{}-vs-{}", class_of(&imp).split(':').next().unwrap(), class_of(&reply).split(':').next().unwrap()), &input, &imp, &reply, "same outcome (bytes when ok, class otherwise)");
    } else if imp == "panic" {
        // C06 matter (D34): a malformed container must not panic; site taken from the model
        let site = reply.strip_prefix("panic:").unwrap_or("?");
        cx.rep.fail("impl_vs_spec", &format!("malformed-panic:{site}"), &input, &imp, &reply, "Err, not a panic (C06)");
    }
}

// ---------------------------------------------------------------------------------------------
// C. projects

#[derive(Clone)]
struct RefSpec {
    name: (Vec<u8>, String),
    kind: u8, // 0 registered, 1 project, 2 control, 3 control with original + extended name
    desc: (Vec<u8>, String),
    path: (Vec<u8>, String),
}

#[derive(Clone)]
struct ModSpec {
    name: (Vec<u8>, String),
    stream: (Vec<u8>, String),
    offset: usize,
    text: (Vec<u8>, String),
    private: bool,
    readonly: bool,
    doc: bool,
}

struct ProjSpec {
    cp: u16,
    compat: bool,
    refs: Vec<RefSpec>,
    mods: Vec<ModSpec>,
}

thread_local! {
    /// when set: every module of the next project lives in this ONE stream (each at its own text offset; seeded
    /// change C18-m17)
    static SHARED_STREAM: std::cell::RefCell<Option<Vec<u8>>> = const { std::cell::RefCell::new(None) };
}

thread_local! {
    /// when set: the next project container is a version-3 file with exactly this number of FAT sectors, tables at
    /// the front, the project's streams at the very end (seeded change C18-m13 / C13-m9)
    static FAT_SECTORS: std::cell::Cell<usize> = const { std::cell::Cell::new(0) };
}

/// a random string in the code page together with its Unicode text, from tables written here (not encoding_rs)
const CP1252_80: [u32; 32] = [
    0x20AC, 0x0081, 0x201A, 0x0192, 0x201E, 0x2026, 0x2020, 0x2021, 0x02C6, 0x2030, 0x0160, 0x2039, 0x0152, 0x008D, 0x017D, 0x008F,
    0x0090, 0x2018, 0x2019, 0x201C, 0x201D, 0x2022, 0x2013, 0x2014, 0x02DC, 0x2122, 0x0161, 0x203A, 0x0153, 0x009D, 0x017E, 0x0178,
];
const CP1251_80: [u32; 64] = [
    0x0402, 0x0403, 0x201A, 0x0453, 0x201E, 0x2026, 0x2020, 0x2021, 0x20AC, 0x2030, 0x0409, 0x2039, 0x040A, 0x040C, 0x040B, 0x040F,
    0x0452, 0x2018, 0x2019, 0x201C, 0x201D, 0x2022, 0x2013, 0x2014, 0x0098, 0x2122, 0x0459, 0x203A, 0x045A, 0x045C, 0x045B, 0x045F,
    0x00A0, 0x040E, 0x045E, 0x0408, 0x00A4, 0x0490, 0x00A6, 0x00A7, 0x0401, 0x00A9, 0x0404, 0x00AB, 0x00AC, 0x00AD, 0x00AE, 0x0407,
    0x00B0, 0x00B1, 0x0406, 0x0456, 0x0491, 0x00B5, 0x00B6, 0x00B7, 0x0451, 0x2116, 0x0454, 0x00BB, 0x0458, 0x0405, 0x0455, 0x0457,
];

/// the character a single byte >= 0x80 stands for in a code page (tables written here from the code page
/// definitions, independent of encoding_rs); 932: the single-byte half-width katakana range only
fn hi_char(cp: u16, b: u8) -> char {
    let u = match cp {
        1252 => if b < 0xA0 { CP1252_80[(b - 0x80) as usize] } else { b as u32 },
        1251 => if b < 0xC0 { CP1251_80[(b - 0x80) as usize] } else { 0x0410 + (b as u32 - 0xC0) },
        932 => 0xFF61 + (b as u32 - 0xA1),
        _ => unreachable!(),
    };
    char::from_u32(u).unwrap()
}

thread_local! {
    /// 0: special characters are a mixture (ordinary high bytes and UTF-8 look-alikes); 1: look-alikes only, so
    /// that a whole string is well-formed UTF-8 although the code page is not UTF-8
    static UTF8_STYLE: std::cell::Cell<u8> = const { std::cell::Cell::new(0) };
}

/// bytes >= 0x80 that form a WELL-FORMED UTF-8 sequence and are at the same time ordinary text of the (non-UTF-8)
/// code page: cp1252 `C3 A9` = "Ã©", cp1251 `D0 96` = "Р–", cp932 `C2 A9` = two half-width katakana
fn utf8_lookalike(cp: u16, rng: &mut Rng) -> (Vec<u8>, String) {
    let cont = |rng: &mut Rng| -> u8 {
        loop {
            let c = match cp {
                932 => rng.range(0xA1, 0xBF) as u8,
                _ => rng.range(0x80, 0xBF) as u8,
            };
            // bytes without a character in the code page (mapped to C1 controls) are left out
            if (cp == 1252 && [0x81u8, 0x8D, 0x8F, 0x90, 0x9D].contains(&c)) || (cp == 1251 && c == 0x98) {
                continue;
            }
            return c;
        }
    };
    let bytes: Vec<u8> = if cp != 932 && rng.chance(1, 3) {
        vec![rng.range(0xE1, 0xEC) as u8, cont(rng), cont(rng)]
    } else {
        vec![rng.range(0xC2, 0xDF) as u8, cont(rng)]
    };
    debug_assert!(std::str::from_utf8(&bytes).is_ok());
    let text: String = bytes.iter().map(|b| hi_char(cp, *b)).collect();
    (bytes, text)
}

fn cp_string(cp: u16, len: usize, ascii_only: bool, rng: &mut Rng) -> (Vec<u8>, String) {
    let mut b = vec![];
    let mut s = String::new();
    for _ in 0..len {
        let special = !ascii_only && rng.chance(1, 3);
        if !special {
            let c = *rng.pick(b"ABCDEFGHIJKLMNOPQRSTUVWXYZabcdefghijklmnopqrstuvwxyz0123456789_");
            b.push(c);
            s.push(c as char);
            continue;
        }
        if matches!(cp, 1252 | 1251 | 932) && (UTF8_STYLE.with(|c| c.get()) == 1 || rng.chance(1, 3)) {
            let (x, t) = utf8_lookalike(cp, rng);
            b.extend(x);
            s.push_str(&t);
            continue;
        }
        match cp {
            1252 => {
                let (x, c) = *rng.pick(&[(0xE9u8, 'é'), (0xF1, 'ñ'), (0xFC, 'ü'), (0xC4, 'Ä'), (0x80, '€'), (0xDF, 'ß'), (0xE7, 'ç')]);
                b.push(x);
                s.push(c);
            }
            1251 => {
                let x = rng.range(0xC0, 0xFF) as u8; // А..я
                b.push(x);
                s.push(char::from_u32(0x0410 + (x as u32 - 0xC0)).unwrap());
            }
            932 => {
                if rng.chance(1, 2) {
                    let k = rng.below(83) as u32; // hiragana ぁ..ん
                    b.push(0x82);
                    b.push((0x9F + k) as u8);
                    s.push(char::from_u32(0x3041 + k).unwrap());
                } else {
                    let k = rng.below(86) as u32; // katakana ァ..ヶ (ソ = 0x83 0x5C included)
                    b.push(0x83);
                    b.push(if k < 63 { 0x40 + k } else { 0x80 + (k - 63) } as u8);
                    s.push(char::from_u32(0x30A1 + k).unwrap());
                }
            }
            _ => {
                // 65001
                let c = *rng.pick(&['é', 'Ж', 'モ', '€', 'ß']);
                let mut buf = [0u8; 4];
                b.extend_from_slice(c.encode_utf8(&mut buf).as_bytes());
                s.push(c);
            }
        }
    }
    (b, s)
}

fn rec(out: &mut Vec<u8>, id: u16, payload: &[u8]) {
    out.extend_from_slice(&id.to_le_bytes());
    out.extend_from_slice(&(payload.len() as u32).to_le_bytes());
    out.extend_from_slice(payload);
}

fn utf16(s: &str) -> Vec<u8> {
    s.encode_utf16().flat_map(|u| u.to_le_bytes()).collect()
}

/// MS-OVBA 2.3.4.2 dir stream, built here independently of the Lean encoder; the second component is the
/// same project description in the wire form of the driver's `dirser` (the Lean `serDir` must give the same bytes)
fn build_dir(p: &ProjSpec, rng: &mut Rng) -> (Vec<u8>, String) {
    let mut o = vec![];
    let mut w: Vec<String> = vec![];
    rec(&mut o, 0x0001, &1u32.to_le_bytes()); // PROJECTSYSKIND
    w.push("1".into());
    if p.compat {
        rec(&mut o, 0x004A, &3u32.to_le_bytes()); // PROJECTCOMPATVERSION
        w.push("3".into());
    } else {
        w.push("~".into());
    }
    rec(&mut o, 0x0002, &0x409u32.to_le_bytes()); // PROJECTLCID
    rec(&mut o, 0x0014, &0x409u32.to_le_bytes()); // PROJECTLCIDINVOKE
    rec(&mut o, 0x0003, &p.cp.to_le_bytes()); // PROJECTCODEPAGE
    w.push("1033".into());
    w.push("1033".into());
    w.push(p.cp.to_string());
    let pname = cp_string(p.cp, rng.range(1, 12) as usize, false, rng);
    rec(&mut o, 0x0004, &pname.0);
    let doc = cp_string(p.cp, rng.below(20) as usize, false, rng);
    rec(&mut o, 0x0005, &doc.0);
    rec(&mut o, 0x0040, &utf16(&doc.1));
    let help = cp_string(p.cp, rng.below(10) as usize, true, rng);
    rec(&mut o, 0x0006, &help.0);
    rec(&mut o, 0x003D, &help.0);
    rec(&mut o, 0x0007, &0u32.to_le_bytes()); // PROJECTHELPCONTEXT
    rec(&mut o, 0x0008, &0u32.to_le_bytes()); // PROJECTLIBFLAGS
    o.extend_from_slice(&0x0009u16.to_le_bytes()); // PROJECTVERSION
    o.extend_from_slice(&4u32.to_le_bytes());
    let (vmaj, vmin) = (rng.next() as u32, rng.next() as u16);
    o.extend_from_slice(&vmaj.to_le_bytes());
    o.extend_from_slice(&vmin.to_le_bytes());
    let consts = cp_string(p.cp, rng.below(12) as usize, true, rng);
    rec(&mut o, 0x000C, &consts.0);
    rec(&mut o, 0x003C, &utf16(&consts.1));
    w.extend([hex(&pname.0), hex(&doc.0), hex(&utf16(&doc.1)), hex(&help.0), hex(&help.0), "0".into(), "0".into(), vmaj.to_string(), vmin.to_string(), hex(&consts.0), hex(&utf16(&consts.1)), "65535".into()]);
    let mut wrefs: Vec<String> = vec![];
    for r in &p.refs {
        rec(&mut o, 0x0016, &r.name.0);
        rec(&mut o, 0x003E, &utf16(&r.name.1));
        let mut libid = b"*\\G{00020430-0000-0000-C000-000000000046}#2.0#0#".to_vec();
        libid.extend_from_slice(&r.path.0);
        libid.push(b'#');
        libid.extend_from_slice(&r.desc.0);
        let head = format!("{}:{}", hex(&r.name.0), hex(&utf16(&r.name.1)));
        match r.kind {
            0 => {
                o.extend_from_slice(&0x000Du16.to_le_bytes());
                o.extend_from_slice(&((libid.len() + 10) as u32).to_le_bytes());
                o.extend_from_slice(&(libid.len() as u32).to_le_bytes());
                o.extend_from_slice(&libid);
                o.extend_from_slice(&[0; 6]);
                wrefs.push(format!("{head}:G:{}", hex(&libid)));
            }
            1 => {
                let mut abs = b"*\\C".to_vec();
                abs.extend_from_slice(&r.path.0);
                let rel = b"*\\Crel.xlsm".to_vec();
                o.extend_from_slice(&0x000Eu16.to_le_bytes());
                o.extend_from_slice(&((abs.len() + rel.len() + 14) as u32).to_le_bytes());
                o.extend_from_slice(&(abs.len() as u32).to_le_bytes());
                o.extend_from_slice(&abs);
                o.extend_from_slice(&(rel.len() as u32).to_le_bytes());
                o.extend_from_slice(&rel);
                o.extend_from_slice(&[1, 0, 0, 0, 2, 0]);
                wrefs.push(format!("{head}:P:{}:{}:1:2", hex(&abs), hex(&rel)));
            }
            _ => {
                if r.kind == 3 {
                    rec(&mut o, 0x0033, &libid); // REFERENCEORIGINAL
                }
                let tw = b"*\\G{11111111-0000-0000-C000-000000000046}#2.0#0#twiddled.tlb#tw".to_vec();
                o.extend_from_slice(&0x002Fu16.to_le_bytes());
                o.extend_from_slice(&((tw.len() + 10) as u32).to_le_bytes());
                o.extend_from_slice(&(tw.len() as u32).to_le_bytes());
                o.extend_from_slice(&tw);
                o.extend_from_slice(&[0; 6]);
                if r.kind == 3 {
                    rec(&mut o, 0x0016, &r.name.0); // NameRecordExtended
                    rec(&mut o, 0x003E, &utf16(&r.name.1));
                }
                o.extend_from_slice(&0x0030u16.to_le_bytes());
                o.extend_from_slice(&((libid.len() + 30) as u32).to_le_bytes());
                o.extend_from_slice(&(libid.len() as u32).to_le_bytes());
                o.extend_from_slice(&libid);
                o.extend_from_slice(&[0; 6]);
                let guid = rng.bytes(16);
                let cookie = rng.next() as u32;
                o.extend_from_slice(&guid);
                o.extend_from_slice(&cookie.to_le_bytes());
                let (orig, en, eu) = if r.kind == 3 { (hex(&libid), hex(&r.name.0), hex(&utf16(&r.name.1))) } else { ("~".into(), "~".into(), "~".into()) };
                wrefs.push(format!("{head}:C:{orig}:{}:{en}:{eu}:{}:{}:{cookie}", hex(&tw), hex(&libid), hex(&guid)));
            }
        }
    }
    w.push(if wrefs.is_empty() { "-".into() } else { wrefs.join(";") });
    o.extend_from_slice(&0x000Fu16.to_le_bytes()); // PROJECTMODULES
    o.extend_from_slice(&2u32.to_le_bytes());
    o.extend_from_slice(&(p.mods.len() as u16).to_le_bytes());
    rec(&mut o, 0x0013, &0xFFFFu16.to_le_bytes()); // PROJECTCOOKIE
    let mut wmods: Vec<String> = vec![];
    for m in &p.mods {
        rec(&mut o, 0x0019, &m.name.0);
        rec(&mut o, 0x0047, &utf16(&m.name.1));
        rec(&mut o, 0x001A, &m.stream.0);
        rec(&mut o, 0x0032, &utf16(&m.stream.1));
        let d = cp_string(p.cp, rng.below(8) as usize, false, rng);
        rec(&mut o, 0x001C, &d.0);
        rec(&mut o, 0x0048, &utf16(&d.1));
        rec(&mut o, 0x0031, &(m.offset as u32).to_le_bytes());
        rec(&mut o, 0x001E, &0u32.to_le_bytes());
        rec(&mut o, 0x002C, &0xFFFFu16.to_le_bytes());
        rec(&mut o, if m.doc { 0x0022 } else { 0x0021 }, &[]);
        if m.readonly {
            rec(&mut o, 0x0025, &[]);
        }
        if m.private {
            rec(&mut o, 0x0028, &[]);
        }
        rec(&mut o, 0x002B, &[]);
        wmods.push(format!(
            "{}:{}:{}:{}:{}:{}:{}:0:65535:{}:{}:{}",
            hex(&m.name.0), hex(&utf16(&m.name.1)), hex(&m.stream.0), hex(&utf16(&m.stream.1)), hex(&d.0), hex(&utf16(&d.1)),
            m.offset, m.doc as u8, m.readonly as u8, m.private as u8
        ));
    }
    w.push(if wmods.is_empty() { "-".into() } else { wmods.join(";") });
    rec(&mut o, 0x0010, &[]);
    (o, w.join(" "))
}

fn gen_project(rng: &mut Rng) -> ProjSpec {
    let cp = *rng.pick(&[1252u16, 1252, 932, 1251, 65001]);
    let nmods = rng.range(1, 6) as usize;
    let nrefs = rng.below(5) as usize;
    let mut mods: Vec<ModSpec> = vec![];
    let ascii_names = rng.chance(1, 2); // ASCII stream names: the composed model (projfile) applies
    // one project in three: every non-ASCII piece is a UTF-8 look-alike, so whole names / module texts are
    // well-formed UTF-8 while the code page is not UTF-8 (seeded change C18-m7: an `is valid UTF-8` shortcut)
    UTF8_STYLE.with(|c| c.set(if rng.chance(1, 3) { 1 } else { 0 }));
    while mods.len() < nmods {
        let name = cp_string(cp, rng.range(1, 10) as usize, ascii_names, rng);
        if mods.iter().any(|m| m.name.1 == name.1) || name.1.encode_utf16().count() > 31 {
            continue;
        }
        // stream name: usually the module name; sometimes different
        let stream = if rng.chance(1, 4) { cp_string(cp, rng.range(1, 10) as usize, ascii_names, rng) } else { name.clone() };
        if mods.iter().any(|m| m.stream.1 == stream.1) || stream.1 == "dir" {
            continue;
        }
        // module text: VBA-like ASCII plus code-page characters
        let mut tb = vec![];
        let mut ts = String::new();
        let target = match rng.below(5) {
            0 => rng.range(0, 40),
            1 => rng.range(4000, 9000),
            _ => rng.range(40, 1500),
        } as usize;
        while tb.len() < target {
            if rng.chance(1, 6) {
                let (b, s) = cp_string(cp, rng.range(1, 6) as usize, false, rng);
                tb.extend(b);
                ts.push_str(&s);
            } else {
                let w = rng.pick(&VBA_WORDS);
                tb.extend_from_slice(w.as_bytes());
                ts.push_str(w);
            }
        }
        mods.push(ModSpec {
            name,
            stream,
            // the performance cache in front of the source: absent, small, or several sectors (then the stream is
            // held in regular sectors and the source starts beyond the first one; seeded change C18-m19)
            offset: match rng.below(4) {
                0 => 0,
                1 => rng.range(4096, 20000) as usize,
                _ => rng.range(1, 3000) as usize,
            },
            text: (tb, ts),
            private: rng.chance(1, 3),
            readonly: rng.chance(1, 5),
            doc: rng.chance(1, 2),
        });
    }
    let mut refs: Vec<RefSpec> = vec![];
    while refs.len() < nrefs {
        let name = cp_string(cp, rng.range(1, 8) as usize, false, rng);
        let mut path = cp_string(cp, rng.range(1, 8) as usize, true, rng);
        path.0.splice(0..0, b"C:\\lib\\".iter().copied());
        path.1.insert_str(0, "C:\\lib\\");
        refs.push(RefSpec { name, kind: rng.below(4) as u8, desc: cp_string(cp, rng.range(1, 12) as usize, false, rng), path });
    }
    // a module (and its stream) named like a standard root stream, in another case
    if rng.chance(1, 10) {
        let n = *rng.pick(&["Project", "project", "ProjectWm", "PROJECTWM", "projectwm", "pROJECT"]);
        if !mods.iter().any(|m| m.name.1.eq_ignore_ascii_case(n)) {
            mods[0].name = (n.as_bytes().to_vec(), n.to_string());
            mods[0].stream = mods[0].name.clone();
        }
    }
    // UTF-8 projects: stream names of at most 31 UTF-16 units that take more than 62 BYTES in the code page
    // (seeded change C18-m16)
    if cp == 65001 && rng.chance(1, 3) {
        let k = rng.range(21, 31) as usize;
        let t: String = (0..k).map(|_| *rng.pick(&['モ', '語', '漢', 'あ', '㐀'])).collect();
        if !mods.iter().any(|m| m.name.1 == t) {
            let last = mods.len() - 1;
            mods[last].name = (t.as_bytes().to_vec(), t.clone());
            mods[last].stream = mods[last].name.clone();
        }
    }
    ProjSpec { cp, compat: rng.chance(1, 2), refs, mods }
}

fn show_ref(name: &str, desc: &str, path: &str) -> String {
    format!("{}|{}|{}", name, desc, path)
}

/// canonical text of an opened project (impl side), modules sorted by name as the BTreeMap gives them
fn canon_project(p: &VbaProject) -> String {
    let mut s = String::new();
    for r in p.get_references() {
        s.push_str(&format!("R[{}]", show_ref(&r.name, &r.description, &r.path.to_string_lossy())));
    }
    for n in p.get_module_names() {
        let raw = p.get_module_raw(n).unwrap_or(&[]);
        let txt = p.get_module(n).unwrap_or_default();
        s.push_str(&format!("M[{}|{}|{}]", n, digest(raw), digest(txt.as_bytes())));
    }
    s
}

fn parse_field(f: &str) -> Vec<u8> {
    unhex(f)
}

/// canonical text from the model's `proj` reply, decoding with the same `XlsEncoding` the implementation uses
fn canon_model_project(reply: &str) -> Result<String, String> {
    let f: Vec<&str> = reply.split(' ').collect();
    if f.len() != 4 || f[0] != "ok" {
        return Err(reply.to_string());
    }
    let cp: u16 = f[1].parse().map_err(|_| reply.to_string())?;
    let enc = Enc::from_codepage(cp).map_err(|_| "err:codepage".to_string())?;
    let mut s = String::new();
    if f[2] != "-" {
        for r in f[2].split(';') {
            let p: Vec<&str> = r.split(':').collect();
            s.push_str(&format!(
                "R[{}]",
                show_ref(&enc.decode_all(&parse_field(p[0])), &enc.decode_all(&parse_field(p[1])), &enc.decode_all(&parse_field(p[2])))
            ));
        }
    }
    let mut mods: BTreeMap<String, Vec<u8>> = BTreeMap::new();
    if f[3] != "-" {
        for m in f[3].split(';') {
            let p: Vec<&str> = m.split(':').collect();
            mods.insert(enc.decode_all(&parse_field(p[0])), parse_field(p[1]));
        }
    }
    for (n, raw) in mods {
        let txt = enc.decode_all(&raw);
        s.push_str(&format!("M[{}|{}|{}]", n, digest(&raw), digest(txt.as_bytes())));
    }
    Ok(s)
}

#[cfg(feature = "hooks")]
fn canon_dirwalk_impl(d: &vhook::DirWalk, refs: &[Reference]) -> String {
    let mut s = String::new();
    for r in refs {
        s.push_str(&format!("R[{}]", show_ref(&r.name, &r.description, &r.path.to_string_lossy())));
    }
    for (n, st, off) in &d.modules {
        s.push_str(&format!("D[{n}|{st}|{off}]"));
    }
    // the encoding, observed by its behaviour on a probe
    let probe: Vec<u8> = (0x20u8..=0xFF).collect();
    s.push_str(&format!("E[{}]", digest(d.encoding.decode_all(&probe).as_bytes())));
    s
}

#[cfg(feature = "hooks")]
fn canon_dirwalk_model(reply: &str) -> Result<String, String> {
    let f: Vec<&str> = reply.split(' ').collect();
    if f.len() != 4 || f[0] != "ok" {
        return Err(reply.to_string());
    }
    let cp: u16 = f[1].parse().map_err(|_| reply.to_string())?;
    let enc = Enc::from_codepage(cp).map_err(|_| "err:codepage".to_string())?;
    let mut s = String::new();
    if f[2] != "-" {
        for r in f[2].split(';') {
            let p: Vec<&str> = r.split(':').collect();
            s.push_str(&format!(
                "R[{}]",
                show_ref(&enc.decode_all(&parse_field(p[0])), &enc.decode_all(&parse_field(p[1])), &enc.decode_all(&parse_field(p[2])))
            ));
        }
    }
    if f[3] != "-" {
        for m in f[3].split(';') {
            let p: Vec<&str> = m.split(':').collect();
            s.push_str(&format!("D[{}|{}|{}]", enc.decode_all(&parse_field(p[0])), enc.decode_all(&parse_field(p[1])), p[2]));
        }
    }
    let probe: Vec<u8> = (0x20u8..=0xFF).collect();
    s.push_str(&format!("E[{}]", digest(enc.decode_all(&probe).as_bytes())));
    Ok(s)
}

#[cfg(feature = "hooks")]
fn impl_dirwalk(dir: &[u8]) -> String {
    match guarded(|| vhook::dir_walk(dir)) {
        Ok(Ok(d)) => canon_dirwalk_impl(&d, &d.references),
        Ok(Err(e)) => vba_class(&e),
        Err(_) => "panic".into(),
    }
}

/// without the hooks the dir walk is private. Valid dir streams are covered by the project stage anyway; a
/// malformed one is wrapped (literal-only container) as the `dir` stream of a compound file WITHOUT module streams
/// and read with `VbaProject::new`: outcome class (ok / err:<class> / panic) against the model's `proj`
#[cfg(not(feature = "hooks"))]
fn run_dirwalk(cx: &mut Ctx, dir: &[u8], label: &str, expect: Option<&str>) {
    if expect.is_some() {
        cx.rep.count("dirwalk:valid:left-to-the-project-stage(no hooks)");
        return;
    }
    let dirc = literal_container(dir);
    let file = write_cfb(&[("dir".to_string(), dirc.clone())], &CfbOpts::default(), &mut Rng::new(18));
    let imp = match guarded(|| {
        let mut cur = Cursor::new(&file[..]);
        VbaProject::new(&mut cur, file.len()).map(|_| ())
    }) {
        Ok(Ok(())) => "ok".to_string(),
        Ok(Err(e)) => vba_class(&e),
        Err(_) => "panic".into(),
    };
    let reply = cx.drv.ask(&format!("proj {} -", hex(&dirc)));
    let model = if reply.starts_with("ok ") { "ok".to_string() } else { reply.clone() };
    let input = format!("dir {}", hex(dir));
    cx.rep.count(&format!("dirwalk-through-VbaProject::new:{label}:{imp}"));
    if class_of(&imp) != class_of(&model) {
        cx.rep.fail("impl_vs_model", &format!("dirwalk:{label}"), &input, &imp, &model, "");
    } else if imp == "panic" {
        let site = model.strip_prefix("panic:").unwrap_or("?");
        cx.rep.fail("impl_vs_spec", &format!("malformed-panic:{site}"), &input, &imp, &model, "Err, not a panic (C06)");
    }
}

#[cfg(feature = "hooks")]
fn run_dirwalk(cx: &mut Ctx, dir: &[u8], label: &str, expect: Option<&str>) {
    let reply = cx.drv.ask(&format!("dir {}", hex(dir)));
    let model = canon_dirwalk_model(&reply).unwrap_or_else(|e| e);
    let imp = impl_dirwalk(dir);
    let input = format!("dir {}", hex(dir));
    cx.rep.count(&format!("dirwalk:{label}:{}", if imp.starts_with("R[") || imp.starts_with("D[") || imp.starts_with("E[") { "ok" } else { &imp }));
    if class_of(&imp) != class_of(&model) {
        cx.rep.fail("impl_vs_model", &format!("dirwalk:{label}"), &input, &imp, &model, expect.unwrap_or(""));
    } else if imp == "panic" && expect.is_none() {
        let site = model.strip_prefix("panic:").unwrap_or("?");
        cx.rep.fail("impl_vs_spec", &format!("malformed-panic:{site}"), &input, &imp, &model, "Err, not a panic (C06)");
    }
    if let Some(e) = expect {
        // without the encoding probe
        let strip = |s: &str| s.split("E[").next().unwrap_or("").to_string();
        if strip(&imp) != e {
            cx.rep.fail("impl_vs_spec", &format!("dirwalk:{label}"), &input, &imp, &model, e);
        }
    }
}

fn compress_stream(cx: &mut Ctx, data: &[u8], rng: &mut Rng) -> Option<Vec<u8>> {
    let mode = *rng.pick(&[Mode::Greedy, Mode::Greedy, Mode::Random, Mode::Mixed, Mode::Literal]);
    let enc = encode(data, mode, rng.chance(1, 2), false, rng);
    if enc.source != data {
        // tail was shortened (incompressible 3641..4095-byte tail): use greedy on the full data with a raw-free path
        return None;
    }
    run_container(cx, &enc, "project-stream")
}

fn run_project(cx: &mut Ctx, rng: &mut Rng) {
    let p = gen_project(rng);
    if rng.chance(1, 25) {
        return run_shared_stream_project(cx, rng);
    }
    if rng.chance(1, 50) {
        let big = big_multibyte_project(*rng.pick(&[932u16, 65001]), rng.range(1, 2) as usize, rng.below(4) as usize);
        cx.rep.count("project:module-longer-than-64KiB-multibyte");
        return run_project_spec(cx, &big, "project-big-multibyte", None, rng);
    }
    match rng.below(8) {
        0 => run_project_spec(cx, &p, "project-fault", None, rng),
        1 => {
            // duplicate entry names (seeded change C18-m9): the module stream comes first in 2 cases out of 3
            // kind 0 (a STORAGE of the same name) is no longer a finding: Cfb::get_stream looks at stream entries only
            // (/repo d258a89), so both orders must read the module; kind 1 (another STREAM of the same name) keeps
            // the known finding "the first in directory order wins"
            let kind = rng.below(2) as u8;
            if rng.chance(2, 3) {
                run_project_spec(cx, &p, "project-dup-wanted-first", Some((kind, false)), rng)
            } else if kind == 0 {
                run_project_spec(cx, &p, "project-dup-storage-first", Some((kind, true)), rng)
            } else {
                run_project_spec(cx, &p, "project-dup-decoy-first", Some((kind, true)), rng)
            }
        }
        _ => run_project_spec(cx, &p, "project", None, rng),
    }
}

/// regression projects: names and module text that *begin with the bytes of a byte-order mark* in the project's
/// code page (0xFF 0xFE = "яю" in 1251, 0xEF 0xBB 0xBF = "ï»¿" in 1252): they are ordinary text of that code page
fn corpus_projects() -> Vec<(&'static str, ProjSpec)> {
    let s = |b: &[u8], t: &str| (b.to_vec(), t.to_string());
    let module = |name: (Vec<u8>, String), text: (Vec<u8>, String)| ModSpec {
        name: name.clone(),
        stream: name,
        offset: 5,
        text,
        private: false,
        readonly: false,
        doc: false,
    };
    vec![
        (
            "bom-lookalike-1251",
            ProjSpec {
                cp: 1251,
                compat: false,
                refs: vec![RefSpec { name: s(&[0xFF, 0xFE, 0x42], "яюB"), kind: 0, desc: s(b"d", "d"), path: s(b"C:\\p", "C:\\p") }],
                mods: vec![module(s(&[0xFF, 0xFE, 0x4D], "яюM"), s(&[0xFF, 0xFE, 0x20, 0x78, 0x20, 0x78], "яю x x"))],
            },
        ),
        (
            "bom-lookalike-1252",
            ProjSpec {
                cp: 1252,
                compat: true,
                refs: vec![RefSpec { name: s(&[0xEF, 0xBB, 0xBF, 0x42], "ï»¿B"), kind: 0, desc: s(b"d", "d"), path: s(b"C:\\p", "C:\\p") }],
                mods: vec![module(s(b"M1", "M1"), s(&[0xEF, 0xBB, 0xBF, 0x41, 0xE9], "ï»¿Aé"))],
            },
        ),
        // names and text that begin with the code page's OWN byte-order mark: U+FEFF is a character of the name
        // (the compound-file directory keeps it), so it must survive decoding; a reference named exactly U+FEFF is
        // a named reference
        (
            "own-bom-65001",
            ProjSpec {
                cp: 65001,
                compat: false,
                refs: vec![
                    RefSpec { name: s(&[0xEF, 0xBB, 0xBF, 0x42], "\u{FEFF}B"), kind: 0, desc: s(b"d", "d"), path: s(b"C:\\p", "C:\\p") },
                    RefSpec { name: s(&[0xEF, 0xBB, 0xBF], "\u{FEFF}"), kind: 0, desc: s(b"e", "e"), path: s(b"C:\\q", "C:\\q") },
                ],
                mods: vec![module(s(&[0xEF, 0xBB, 0xBF, 0x4D], "\u{FEFF}M"), s(&[0xEF, 0xBB, 0xBF, 0x41, 0xC3, 0xA9], "\u{FEFF}Aé"))],
            },
        ),
        // module text / names with bytes >= 0x80 that are well-formed UTF-8 under a non-UTF-8 code page: they must be
        // decoded with the code page (seeded change C18-m7: a `from_utf8` shortcut in get_module)
        (
            "utf8-lookalike-1252",
            ProjSpec {
                cp: 1252,
                compat: false,
                refs: vec![RefSpec { name: s(&[0xC3, 0xA9, 0x52], "Ã©R"), kind: 0, desc: s(b"d", "d"), path: s(b"C:\\p", "C:\\p") }],
                mods: vec![module(s(&[0x4D, 0xC3, 0xA9], "MÃ©"), s(&[0x78, 0x20, 0xC3, 0xA9, 0x20, 0xE2, 0x82, 0xAC], "x Ã© â‚¬"))],
            },
        ),
        (
            "utf8-lookalike-932",
            ProjSpec {
                cp: 932,
                compat: false,
                refs: vec![],
                mods: vec![module(s(b"M", "M"), s(&[0x78, 0xC2, 0xA9], "xﾂｩ"))],
            },
        ),
        (
            "utf8-lookalike-1251",
            ProjSpec {
                cp: 1251,
                compat: true,
                refs: vec![],
                mods: vec![module(s(&[0xD0, 0x96], "Р–"), s(&[0xD0, 0x96, 0x0D, 0x0A], "Р–\r\n"))],
            },
        ),
        (
            "own-bom-1200",
            ProjSpec {
                cp: 1200,
                compat: true,
                refs: vec![],
                mods: vec![module(s(&[0xFF, 0xFE, 0x4D, 0x00], "\u{FEFF}M"), s(&[0xFF, 0xFE, 0x41, 0x00, 0x16, 0x04], "\u{FEFF}AЖ"))],
            },
        ),
    ]
}

/// `dup`: a second directory entry with the name of the first module's stream — kind 0 an (empty) STORAGE entry
/// (the designer storage of a UserForm has the name of the form's module stream), kind 1 another stream with other
/// content (a same-named stream of another storage); `true` = the decoy precedes the module stream in the directory
/// Two MODULE records naming the SAME stream at different text offsets: the stream holds, behind `o1` bytes of
/// cache, a container of one raw chunk (module 1 = its 4096 bytes) whose tail is itself a complete container, the
/// source of module 2. Each module is "the decompression of the container at its recorded offset of the named
/// stream", so both must come out (code page 1252: every byte of module 1 has a character).
fn run_shared_stream_project(cx: &mut Ctx, rng: &mut Rng) {
    let mut t2 = String::new();
    let want = rng.range(10, 400) as usize;
    while t2.len() < want {
        let w: &&str = rng.pick(&VBA_WORDS);
        t2.push_str(w);
    }
    let Some(c2) = compress_stream(cx, t2.as_bytes(), rng) else { return };
    if c2.len() > 3000 {
        return;
    }
    let mut m1: Vec<u8> = (0..4096 - c2.len()).map(|_| *rng.pick(b"abc \r\n'=xyz0123")).collect();
    m1.extend_from_slice(&c2);
    let enc = Encoded { chunks: vec![Chunk::Raw(m1.clone())], source: m1.clone(), boundary: false, standard: true, modes: vec![Mode::Raw] };
    let Some(c1) = run_container(cx, &enc, "shared-stream-raw") else { return };
    let o1 = if rng.chance(1, 2) { rng.range(0, 600) } else { rng.range(600, 9000) } as usize;
    let mut stream = rng.bytes(o1);
    stream.extend_from_slice(&c1);
    let text1: String = m1.iter().map(|b| if *b < 0x80 { *b as char } else { hi_char(1252, *b) }).collect();
    let name = |s: &str| (s.as_bytes().to_vec(), s.to_string());
    let module = |n: &str, off: usize, text: (Vec<u8>, String)| ModSpec { name: name(n), stream: name("Shared"), offset: off, text, private: false, readonly: false, doc: false };
    let mods = vec![module("First", o1, (m1.clone(), text1)), module("Second", o1 + 3 + (4096 - c2.len()), (t2.as_bytes().to_vec(), t2.clone()))];
    let p = ProjSpec { cp: 1252, compat: rng.chance(1, 2), refs: vec![], mods: if rng.chance(1, 2) { mods } else { mods.into_iter().rev().collect() } };
    SHARED_STREAM.with(|c| *c.borrow_mut() = Some(stream));
    cx.rep.count("project:two-modules-in-one-stream");
    run_project_spec(cx, &p, "project-shared-stream", None, rng);
}

/// a project with one module of multi-byte text a few bytes longer than `blocks` x 64 KiB, the characters shifted by
/// `shift` ASCII bytes so that, over the shifts 0..3, every alignment of a character relative to the 64 KiB
/// boundaries occurs (seeded change C18-m10: text decoded in independent 64 KiB blocks)
fn big_multibyte_project(cp: u16, blocks: usize, shift: usize) -> ProjSpec {
    let (cb, cs): (&[u8], &str) = if cp == 932 { (&[0x82, 0xA0], "あ") } else { (&[0xE3, 0x83, 0xA2], "モ") };
    let mut b = vec![b'x'; shift];
    let mut t = "x".repeat(shift);
    let target = blocks * 65536 + 40;
    let mut k = 0usize;
    while b.len() < target {
        if k % 50 == 49 {
            b.extend_from_slice(b"\r\n");
            t.push_str("\r\n");
            // keep the alignment of the characters: a line break is 2 bytes, the UTF-8 character 3
            if cb.len() == 3 {
                b.push(b' ');
                t.push(' ');
            }
        } else {
            b.extend_from_slice(cb);
            t.push_str(cs);
        }
        k += 1;
    }
    let name = (b"Big".to_vec(), "Big".to_string());
    ProjSpec {
        cp,
        compat: false,
        refs: vec![],
        mods: vec![ModSpec { name: name.clone(), stream: name, offset: 7, text: (b, t), private: false, readonly: false, doc: false }],
    }
}

fn run_project_spec(cx: &mut Ctx, p: &ProjSpec, label: &str, dup: Option<(u8, bool)>, rng: &mut Rng) {
    let p: &ProjSpec = p;
    let (dir, dir_wire) = build_dir(&p, rng);
    // the Lean spec encoder (the bytes `dir_walk` is about) must lay the same project out as the same bytes
    let lean_dir = cx.drv.ask(&format!("dirser {dir_wire}"));
    if lean_dir != format!("1 {}", hex(&dir)) {
        cx.rep.fail("model_vs_spec", "dir-encoders-disagree", &dir_wire, &hex(&dir), &lean_dir, "");
    }
    // oracle for the dir walk
    let mut expect_dir = String::new();
    let mut expect_proj = String::new();
    for r in &p.refs {
        let (desc, path) = match r.kind {
            1 => (r.name.1.clone(), r.path.1.clone()),
            2 => (r.desc.1.clone(), "twiddled.tlb".to_string()),
            _ => (r.desc.1.clone(), r.path.1.clone()),
        };
        let t = format!("R[{}]", show_ref(&r.name.1, &desc, &path));
        expect_dir.push_str(&t);
        expect_proj.push_str(&t);
    }
    for m in &p.mods {
        expect_dir.push_str(&format!("D[{}|{}|{}]", m.name.1, m.stream.1, m.offset));
    }
    let mut sorted: Vec<&ModSpec> = p.mods.iter().collect();
    sorted.sort_by(|a, b| a.name.1.cmp(&b.name.1));
    for m in sorted {
        expect_proj.push_str(&format!("M[{}|{}|{}]", m.name.1, digest(&m.text.0), digest(m.text.1.as_bytes())));
    }
    cx.rep.count(&format!("project:codepage:{}", p.cp));
    for m in &p.mods {
        if p.cp != 65001 && p.cp != 1200 && !m.text.0.is_ascii() {
            cx.rep.count(if std::str::from_utf8(&m.text.0).is_ok() { "project:module-text:high-bytes-wellformed-utf8" } else { "project:module-text:high-bytes-not-utf8" });
        }
    }
    cx.rep.count(&format!("project:modules:{}", p.mods.len()));
    for r in &p.refs {
        cx.rep.count(&format!("project:refkind:{}", ["registered", "project", "control", "control+original+extname"][r.kind as usize]));
    }
    run_dirwalk(cx, &dir, "valid", Some(&expect_dir));

    // streams
    let Some(dirc) = compress_stream(cx, &dir, rng) else { return };
    let mut streams: Vec<(String, Vec<u8>)> = vec![("dir".into(), dirc.clone())];
    let mut first = true;
    let shared = SHARED_STREAM.with(|c| c.borrow_mut().take());
    if let Some(s) = &shared {
        streams.push((p.mods[0].stream.1.clone(), s.clone()));
    }
    for m in &p.mods {
        if shared.is_some() {
            break;
        }
        let Some(c) = compress_stream(cx, &m.text.0, rng) else { return };
        let mut s = rng.bytes(m.offset);
        s.extend_from_slice(&c);
        if label == "project-fault" && std::mem::take(&mut first) {
            // fault: the first module's stream ends before (or right at) its recorded text offset
            s.truncate(m.offset.saturating_sub(rng.below(3) as usize));
        }
        streams.push((m.stream.1.clone(), s));
    }
    // the other standard streams of a project; always there when a module's stream is named like one of them in
    // another case (`Project` vs `PROJECT`: different storages in a real file, different names for the flat lookup;
    // seeded change C18-m15: case-insensitive comparison)
    let case_variant = p.mods.iter().any(|m| ["PROJECT", "PROJECTWM"].contains(&m.stream.1.to_uppercase().as_str()));
    if case_variant || rng.chance(1, 2) {
        streams.push(("PROJECT".into(), b"ID=\"{0}\"\r\n".to_vec()));
        streams.push(("PROJECTwm".into(), vec![0x4D, 0x31, 0, 0x4D, 0, 0x31, 0, 0, 0, 0, 0]));
        streams.push(("_VBA_PROJECT".into(), vec![0xCC, 0x61, 0xFF, 0xFF, 0, 0, 0]));
    }
    if case_variant {
        cx.rep.count("project:module-stream-named-like-a-root-stream-in-another-case");
    }
    rng.shuffle(&mut streams[..]);
    let mut opts = CfbOpts::random(rng);
    if rng.chance(1, 3) {
        // the root entry gives the mini stream its exact length; the partial last mini sector belongs to a stream of
        // the project (seeded change C18-m21): sequential mini sectors, such a stream last
        if let Some(k) = streams.iter().rposition(|(n, d)| (n == "dir" || p.mods.iter().any(|m| m.stream.1 == *n)) && d.len() < 4096 && d.len() % 64 != 0) {
            if dup.is_none() && label != "project-fault" {
                let st = streams.remove(k);
                streams.push(st);
                opts.unpadded_root = true;
                opts.mini_shuffle = false;
                cx.rep.count("project:cfb-root-entry-with-exact-mini-stream-length");
            }
        }
    }
    if opts.unpadded_root && streams.iter().any(|(_, d)| d.len() >= 4096) {
        // regular-sector streams fetched after the partial last mini sector: read wrongly before /repo 3eeaae6
        cx.rep.count("project:cfb-root-entry-with-exact-mini-stream-length:and-a-regular-sector-stream");
    }
    if rng.chance(1, 3) {
        // over-allocated chains: spare (mini) sectors behind every stream (seeded change C18-m18)
        opts.spare_sectors = rng.range(1, 3) as usize;
        cx.rep.count("project:cfb-over-allocated-chains");
    }
    let n_fat = FAT_SECTORS.with(|c| c.replace(0));
    if n_fat > 0 {
        opts = CfbOpts { sector_size: 512, free_after_tables: true, unused_dirs: opts.unused_dirs, fill: opts.fill, spare_sectors: opts.spare_sectors, unpadded_root: opts.unpadded_root, ..CfbOpts::default() };
        match verif_harness::cfbw::extra_free_for_fat_sectors(&streams, &opts, n_fat) {
            Some(f) => opts.extra_free = f - rng.below(100.min(f as u64 + 1)) as usize,
            None => return,
        }
        cx.rep.count(&format!("project:container-with-exactly-{n_fat}-FAT-sectors"));
    }
    let mut storage_patch: Option<(String, usize)> = None;
    let mut storage_decoy_at: Option<usize> = None; // a storage entry is not a stream: invisible to the lookup
    if let Some((kind, decoy_first)) = dup {
        let m = &p.mods[0];
        let wanted = streams.iter().position(|(n, _)| *n == m.stream.1).unwrap();
        let decoy = if kind == 0 {
            vec![]
        } else {
            let Some(c) = compress_stream(cx, b"Attribute VB_Name = \"Decoy\"\r\n' not the module\r\n", rng) else { return };
            let mut d = rng.bytes(m.offset);
            d.extend_from_slice(&c);
            d
        };
        let at = if decoy_first { wanted } else { wanted + 1 };
        streams.insert(at, (m.stream.1.clone(), decoy));
        if kind == 0 {
            storage_decoy_at = Some(at);
        }
        opts.dir_shuffle = false; // the directory order is the order of `streams`
        if kind == 0 {
            storage_patch = Some((m.stream.1.clone(), if decoy_first { 0 } else { 1 }));
        }
        cx.rep.count(&format!("project:dup-entry:{}:{}", if kind == 0 { "storage" } else { "stream" }, if decoy_first { "decoy-first" } else { "wanted-first" }));
    }
    // the model's view of the compound file: (encoded stream name, content) in directory order
    let mut model_streams = vec![];
    for (k, (n, d)) in streams.iter().enumerate() {
        if Some(k) == storage_decoy_at {
            continue;
        }
        if let Some(m) = p.mods.iter().find(|m| m.stream.1 == *n) {
            model_streams.push(format!("{}={}", hex(&m.stream.0), hex(d)));
        }
    }
    let mut file = write_cfb(&streams, &opts, rng);
    if let Some((n, nth)) = &storage_patch {
        if !verif_harness::cfbpatch::set_entry_type(&mut file, n, *nth, 1) {
            cx.rep.fail("model_vs_spec", "harness:storage-entry-not-found", n, "", "", "");
        }
    }
    // fields MS-CFB tells readers to ignore (seeded change C18-m12: the high half of the size in version 3 files)
    if rng.chance(1, 2) {
        for t in verif_harness::cfbpatch::garbage_ignored_fields(&mut file, rng) {
            cx.rep.count(&format!("project:cfb-ignored-field-garbage:{t}"));
        }
    }
    // the compound-file layer is C13's subject, but a stream that is not read back as written is reported here too
    // (never skipped): names that occur once must give their content
    #[cfg(not(feature = "hooks"))]
    let readback: Option<String> = None; // `Cfb` is not reachable without the hooks; the project comparison below stands
    #[cfg(feature = "hooks")]
    let readback = guarded(|| {
        let mut cur = Cursor::new(&file[..]);
        let mut cfb = match Cfb::new(&mut cur, file.len()) {
            Ok(c) => c,
            Err(e) => return Some(format!("Cfb::new: {}", cfb_class(&e))),
        };
        for (n, d) in &streams {
            if streams.iter().filter(|(x, _)| x == n).count() > 1 {
                continue;
            }
            match cfb.get_stream(n, &mut cur) {
                Ok(v) if &v == d => {}
                Ok(v) => return Some(format!("stream {n}: {} bytes read, {} written, contents differ", v.len(), d.len())),
                Err(e) => return Some(format!("stream {n}: {}", cfb_class(&e))),
            }
        }
        None
    })
    .unwrap_or_else(|_| Some("panic".into()));
    if let Some(why) = readback {
        if label != "project-fault" {
            cx.rep.fail("impl_vs_spec", &format!("{label}:cfb-readback"), &format!("{label} file={}", hex(&file)), &why, "", "every stream read back as written");
        }
    }
    let imp = match guarded(|| {
        let mut cur = Cursor::new(&file[..]);
        VbaProject::new(&mut cur, file.len())
    }) {
        Ok(Ok(vp)) => canon_project(&vp),
        Ok(Err(e)) => vba_class(&e),
        Err(_) => "panic".into(),
    };
    let reply = cx.drv.ask(&format!("proj {} {}", hex(&dirc), if model_streams.is_empty() { "-".to_string() } else { model_streams.join(";") }));
    let model = canon_model_project(&reply).unwrap_or_else(|e| e);
    let input = if file.len() > 1 << 20 {
        format!("{label} cp={} mods={} refs={} file=<{} bytes: version 3, {n_fat} FAT sectors, tables first, project streams in the last sectors; rebuilt by the corpus>", p.cp, p.mods.len(), p.refs.len(), file.len())
    } else {
        format!("{label} cp={} mods={} refs={} file={}", p.cp, p.mods.len(), p.refs.len(), hex(&file))
    };
    cx.rep.case(&format!("{label} cp={} mods={} refs={} size={}", p.cp, p.mods.len(), p.refs.len(), file.len()), true);
    if imp != model {
        cx.rep.fail("impl_vs_model", label, &input, &imp, &model, &expect_proj);
    }
    // the composed model (C13 reader model, then this one) on the whole file, for ASCII stream names
    if p.mods.iter().all(|m| m.stream.0.is_ascii()) && file.len() <= 200_000 {
        let reply = cx.drv.ask(&format!("projfile {}", hex(&file)));
        let whole = canon_model_project(&reply).unwrap_or_else(|e| e);
        cx.rep.count("project:composed-model(projfile)");
        if class_of(&whole) != class_of(&imp) || (!imp.starts_with("err") && whole != imp) {
            cx.rep.fail("impl_vs_model", &format!("{label}-composed-model"), &input, &imp, &whole, &expect_proj);
        }
    }
    if label == "project-fault" {
        // malformed project: outcome classes only (C06: Err, never a panic)
        cx.rep.count(&format!("project-fault-outcome:{}", if imp.starts_with("err") || imp == "panic" { imp.as_str() } else { "ok" }));
        if imp == "panic" {
            cx.rep.fail("impl_vs_spec", "malformed-panic:project", &input, &imp, &model, "Err, not a panic (C06)");
        }
        return;
    }
    if imp != expect_proj {
        cx.rep.fail("impl_vs_spec", label, &input, &imp, &model, &expect_proj);
    }
    // the same project embedded in a workbook and read through `Reader::vba_project`
    let kind = *rng.pick(&["xlsm", "xlsb", "xls"]);
    let seen = through_reader(kind, &file, &streams, storage_patch.as_ref(), p.cp, cx.rep, rng);
    cx.rep.count(&format!("project:through-reader:{kind}"));
    if seen != expect_proj {
        cx.rep.fail("impl_vs_spec", &format!("{label}-through-{kind}"), &input, &seen, &model, &expect_proj);
    }
}

/// single faults on a valid dir stream (C06 territory; outcome classes impl vs model)
fn run_dir_malformed(cx: &mut Ctx, rng: &mut Rng) {
    let p = gen_project(rng);
    let (dir, _) = build_dir(&p, rng);
    let mut v = dir.clone();
    let kind = match rng.below(5) {
        0 => {
            v.truncate(rng.below(v.len() as u64) as usize);
            "truncate"
        }
        1 => {
            let i = rng.below(v.len() as u64) as usize;
            v[i] ^= 1 << rng.below(8);
            "bit-flip"
        }
        2 => {
            let i = rng.below(v.len() as u64) as usize;
            v[i] = *rng.pick(&[0u8, 0xFF, 0x7F]);
            "byte-set"
        }
        3 => {
            let i = rng.below(v.len() as u64) as usize;
            v.remove(i);
            "delete-byte"
        }
        _ => {
            let i = rng.below(v.len() as u64) as usize;
            v.insert(i, rng.next() as u8);
            "insert-byte"
        }
    };
    cx.rep.case(&format!("dir-malformed {kind}"), true);
    run_dirwalk(cx, &v, kind, None);
}

// ---------------------------------------------------------------------------------------------
// C'. the same project seen through the workbook readers (`Reader::vba_project`)

fn template(path: &str) -> &'static Vec<(String, Vec<u8>)> {
    use std::sync::OnceLock;
    static XLSM: OnceLock<Vec<(String, Vec<u8>)>> = OnceLock::new();
    static XLSB: OnceLock<Vec<(String, Vec<u8>)>> = OnceLock::new();
    let cell = if path.ends_with(".xlsm") { &XLSM } else { &XLSB };
    cell.get_or_init(|| {
        let mut out = vec![];
        let f = std::fs::File::open(path).expect("template");
        let mut z = zip::ZipArchive::new(f).expect("template zip");
        for i in 0..z.len() {
            let mut e = z.by_index(i).unwrap();
            if e.is_dir() {
                continue;
            }
            let mut buf = vec![];
            e.read_to_end(&mut buf).unwrap();
            out.push((e.name().to_string(), buf));
        }
        out
    })
}

fn xls_workbook_stream() -> &'static Vec<u8> {
    use std::sync::OnceLock;
    static WB: OnceLock<Vec<u8>> = OnceLock::new();
    WB.get_or_init(|| {
        let bytes = std::fs::read("/repo/tests/any_sheets.xls").expect("xls template");
        #[cfg(feature = "hooks")]
        {
            let mut cur = Cursor::new(&bytes[..]);
            let mut cfb = Cfb::new(&mut cur, bytes.len()).expect("xls template cfb");
            cfb.get_stream("Workbook", &mut cur).expect("Workbook stream")
        }
        #[cfg(not(feature = "hooks"))]
        {
            verif_harness::cfbpatch::read_regular_stream(&bytes, "Workbook").expect("Workbook stream")
        }
    })
}

fn zip_with_project(path: &str, bin: &[u8], rng: &mut Rng) -> Vec<u8> {
    use std::io::Write;
    let mut w = zip::ZipWriter::new(Cursor::new(Vec::new()));
    let mut wrote = false;
    for (name, data) in template(path) {
        let method = if rng.chance(1, 2) { zip::CompressionMethod::Stored } else { zip::CompressionMethod::Deflated };
        let opt = zip::write::SimpleFileOptions::default().compression_method(method);
        w.start_file(name.as_str(), opt).unwrap();
        if name == "xl/vbaProject.bin" {
            w.write_all(bin).unwrap();
            wrote = true;
        } else if name == "xl/_rels/workbook.xml.rels" && path.ends_with(".xlsm") {
            // the vbaProject relationship addresses the macro part relatively, with a `./` prefix, or by its absolute
            // part name (openpyxl style); all three are the part xl/vbaProject.bin (seeded change C18-m23)
            let target = *rng.pick(&["vbaProject.bin", "/xl/vbaProject.bin", "./vbaProject.bin"]);
            let text = String::from_utf8_lossy(data).replace("Target=\"vbaProject.bin\"", &format!("Target=\"{target}\""));
            assert!(target == "vbaProject.bin" || text.contains(target), "template has no vbaProject relationship");
            w.write_all(text.as_bytes()).unwrap();
        } else {
            w.write_all(data).unwrap();
        }
    }
    if !wrote {
        let opt = zip::write::SimpleFileOptions::default().compression_method(zip::CompressionMethod::Deflated);
        w.start_file("xl/vbaProject.bin", opt).unwrap();
        w.write_all(bin).unwrap();
    }
    w.finish().unwrap().into_inner()
}

/// the project as `Reader::vba_project` of the given workbook kind shows it
fn through_reader(kind: &str, bin: &[u8], streams: &[(String, Vec<u8>)], storage_patch: Option<&(String, usize)>, project_cp: u16, rep: &mut Report, rng: &mut Rng) -> String {
    use calamine::{Reader, Xls, XlsOptions, Xlsb, Xlsx};
    fn show<E: std::fmt::Debug>(r: Option<Result<std::borrow::Cow<'_, VbaProject>, E>>) -> String {
        match r {
            None => "no-project".into(),
            Some(Ok(p)) => canon_project(&p),
            Some(Err(e)) => format!("reader-error:{e:?}"),
        }
    }
    let res = guarded(|| match kind {
        "xlsm" => {
            let file = zip_with_project("/repo/tests/vba.xlsm", bin, rng);
            match Xlsx::new(Cursor::new(file)) {
                Ok(mut x) => show(x.vba_project()),
                Err(e) => format!("open-error:{e:?}"),
            }
        }
        "xlsb" => {
            let file = zip_with_project("/repo/tests/any_sheets.xlsb", bin, rng);
            match Xlsb::new(Cursor::new(file)) {
                Ok(mut x) => show(x.vba_project()),
                Err(e) => format!("open-error:{e:?}"),
            }
        }
        _ => {
            let mut all = streams.to_vec();
            all.push(("Workbook".into(), xls_workbook_stream().clone()));
            all.push(("_VBA_PROJECT_CUR".into(), vec![]));
            let mut file = write_cfb(&all, &CfbOpts::default(), rng);
            // the rebuilt container keeps the entry type of a storage decoy (directory order = order of `all`)
            if let Some((n, nth)) = storage_patch {
                if !verif_harness::cfbpatch::set_entry_type(&mut file, n, *nth, 1) {
                    rep.fail("model_vs_spec", "harness:storage-entry-not-found", n, "", "", "");
                }
            }
            if rng.chance(1, 2) {
                verif_harness::cfbpatch::garbage_ignored_fields(&mut file, rng);
            }
            // `force_codepage` is about the workbook's 8-bit strings; the VBA project keeps its own code page
            // (seeded change C18-m11)
            let mut options = XlsOptions::default();
            if rng.chance(1, 2) {
                let other: Vec<u16> = [1252u16, 1251, 932, 65001, 936, 1200].into_iter().filter(|c| *c != project_cp).collect();
                options.force_codepage = Some(*rng.pick(&other));
                rep.count("project:through-reader:xls:force_codepage-differs-from-project");
            }
            match Xls::new_with_options(Cursor::new(file), options) {
                Ok(mut x) => show(x.vba_project()),
                Err(e) => format!("open-error:{e:?}"),
            }
        }
    });
    res.unwrap_or_else(|_| "panic".into())
}

// ---------------------------------------------------------------------------------------------
// D. fixtures

fn fixture_projects() -> Vec<(String, Vec<u8>)> {
    let mut out = vec![];
    let dir = "/repo/tests";
    let mut names: Vec<String> = std::fs::read_dir(dir).map(|d| d.filter_map(|e| e.ok()).map(|e| e.file_name().to_string_lossy().to_string()).collect()).unwrap_or_default();
    names.sort();
    for n in names {
        let path = format!("{dir}/{n}");
        let lower = n.to_lowercase();
        if lower.ends_with(".xlsm") || lower.ends_with(".xlsb") || lower.ends_with(".xlsx") {
            let Ok(f) = std::fs::File::open(&path) else { continue };
            let Ok(mut z) = zip::ZipArchive::new(f) else { continue };
            let Ok(mut part) = z.by_name("xl/vbaProject.bin") else { continue };
            let mut buf = vec![];
            if part.read_to_end(&mut buf).is_ok() {
                out.push((n, buf));
            }
        }
    }
    out
}

/// without the hooks: the fixture's vbaProject.bin as a whole — `VbaProject::new` against the composed model
/// (`projfile`: C13 reader model, then the C18 model), and through the workbook reader of the fixture
#[cfg(not(feature = "hooks"))]
fn run_fixture(cx: &mut Ctx, name: &str, bin: &[u8]) {
    cx.rep.case(&format!("fixture {name} vbaProject.bin={}B", bin.len()), true);
    cx.rep.count("fixture:project");
    let imp = match guarded(|| {
        let mut cur = Cursor::new(bin);
        VbaProject::new(&mut cur, bin.len())
    }) {
        Ok(Ok(vp)) => canon_project(&vp),
        Ok(Err(e)) => vba_class(&e),
        Err(_) => "panic".into(),
    };
    let reply = cx.drv.ask(&format!("projfile {}", hex(bin)));
    let model = canon_model_project(&reply).unwrap_or_else(|e| e);
    if imp != model {
        cx.rep.fail("impl_vs_model", "fixture-project", &format!("fixture {name}"), &imp, &model, "");
    }
    let seen = guarded(|| {
        use calamine::Reader;
        match calamine::open_workbook_auto(format!("/repo/tests/{name}")) {
            Ok(mut wb) => match wb.vba_project() {
                Some(Ok(p)) => canon_project(&p),
                Some(Err(e)) => format!("reader-error:{e:?}"),
                None => "no-project".into(),
            },
            Err(e) => format!("open-error:{e:?}"),
        }
    })
    .unwrap_or_else(|_| "panic".into());
    cx.rep.count("fixture:through-reader");
    if seen != imp {
        cx.rep.fail("impl_vs_model", "fixture-through-reader", &format!("fixture {name}"), &seen, &model, &imp);
    }
}

#[cfg(feature = "hooks")]
fn run_fixture(cx: &mut Ctx, name: &str, bin: &[u8]) {
    let Ok(Ok((dirc, mut cfb))) = guarded(|| {
        let mut cur = Cursor::new(bin);
        let mut cfb = Cfb::new(&mut cur, bin.len())?;
        let d = cfb.get_stream("dir", &mut cur)?;
        Ok::<_, CfbError>((d, cfb))
    }) else {
        cx.rep.count("fixture:no-dir-stream");
        return;
    };
    cx.rep.case(&format!("fixture {name} dir-container={}B", dirc.len()), true);
    cx.rep.count("fixture:project");
    // dir container: impl vs model
    let (imp, dir) = impl_dec(&dirc);
    let model = cx.drv.ask(&format!("decd {}", hex(&dirc)));
    if imp != model {
        cx.rep.fail("impl_vs_model", "fixture-dir-container", &format!("dec {}", hex(&dirc)), &imp, &model, "");
    }
    let Some(dir) = dir else { return };
    run_dirwalk(cx, &dir, "fixture", None);
    let Ok(Ok(walk)) = guarded(|| vhook::dir_walk(&dir)) else { return };
    let mut model_streams = vec![];
    let enc_name = |s: &str| -> Vec<u8> { s.as_bytes().to_vec() }; // fixture stream names are ASCII
    for (_, st, off) in &walk.modules {
        let mut cur = Cursor::new(bin);
        let Ok(s) = cfb.get_stream(st, &mut cur) else { continue };
        if *off <= s.len() {
            let (i2, _) = impl_dec(&s[*off..]);
            let m2 = cx.drv.ask(&format!("decd {}", hex(&s[*off..])));
            cx.rep.case(&format!("fixture {name} module-stream {st} {}B", s.len() - off), true);
            cx.rep.count("fixture:module-stream");
            if i2 != m2 {
                cx.rep.fail("impl_vs_model", "fixture-module-container", &format!("dec {}", hex(&s[*off..])), &i2, &m2, "");
            }
        }
        if st.is_ascii() {
            model_streams.push(format!("{}={}", hex(&enc_name(st)), hex(&s)));
        }
    }
    let imp = match guarded(|| {
        let mut cur = Cursor::new(bin);
        VbaProject::new(&mut cur, bin.len())
    }) {
        Ok(Ok(vp)) => canon_project(&vp),
        Ok(Err(e)) => vba_class(&e),
        Err(_) => "panic".into(),
    };
    let reply = cx.drv.ask(&format!("proj {} {}", hex(&dirc), if model_streams.is_empty() { "-".to_string() } else { model_streams.join(";") }));
    let model = canon_model_project(&reply).unwrap_or_else(|e| e);
    if imp != model {
        cx.rep.fail("impl_vs_model", "fixture-project", &format!("fixture {name}"), &imp, &model, "");
    }
    // and through the workbook reader of the fixture itself
    let seen = guarded(|| {
        use calamine::Reader;
        match calamine::open_workbook_auto(format!("/repo/tests/{name}")) {
            Ok(mut wb) => match wb.vba_project() {
                Some(Ok(p)) => canon_project(&p),
                Some(Err(e)) => format!("reader-error:{e:?}"),
                None => "no-project".into(),
            },
            Err(e) => format!("open-error:{e:?}"),
        }
    })
    .unwrap_or_else(|_| "panic".into());
    cx.rep.count("fixture:through-reader");
    if seen != imp {
        cx.rep.fail("impl_vs_model", "fixture-through-reader", &format!("fixture {name}"), &seen, &model, &imp);
    }
}

// ---------------------------------------------------------------------------------------------
// corpus (regressions first)

fn corpus() -> Vec<(&'static str, Vec<Chunk>)> {
    let lits = |s: &[u8]| s.iter().map(|b| Tok::Lit(*b)).collect::<Vec<_>>();
    let mut d16 = lits(b"abcdefg");
    d16.push(Tok::Copy(7, 4089));
    vec![
        // D16: the first (non-final) chunk has exactly 8 tokens, another chunk follows
        ("D16-minimal", vec![Chunk::Comp(d16.clone()), Chunk::Comp(lits(b"x"))]),
        ("D16-then-raw", vec![Chunk::Comp(d16.clone()), Chunk::Raw((0..4096).map(|i| (i * 7) as u8).collect()), Chunk::Comp(lits(b"tail"))]),
        ("one-literal", vec![Chunk::Comp(lits(b"a"))]),
        ("rle-max-len", vec![Chunk::Comp(vec![Tok::Lit(b'a'), Tok::Copy(1, 4095)])]),
        ("empty", vec![]),
        ("bit-split-boundaries", vec![Chunk::Comp({
            let mut t = lits(b"0123456789abcdef"); // d = 16
            t.push(Tok::Copy(16, 4098 - 3 - 1000)); // bc 4: long copy
            t.push(Tok::Copy(1, 3));
            t
        })]),
    ]
}

fn main() {
    let args = Args::parse();
    let mut rep = Report::new(
        "C18",
        "containers: a case is non-trivial when it has a copy token or more than one chunk; sources 0..5 chunks (low/high redundancy, runs, phrases, VBA text) x tokenisers {literal, greedy, random valid, raw, mixed}; non-final chunks are forced onto a flag-group boundary in >= 1/4 of all cases; every container is serialized by the Lean spec encoder. Restrictions: module/stream/reference names are unique, non-empty, <= 31 UTF-16 units, from code pages 1252/1251/932/65001 (characters from tables in the harness; names may begin with bytes that look like a byte-order mark, see the corpus); project layouts come from cfbw (a compound-file read-back mismatch is counted and left to C13).",
    );
    rep.notes.push("encoding_rs / codepage (text decoding by code page), zip (fixture extraction) and the compound-file reader (C13) are exercised, not modelled".into());
    let mut drv = Driver::spawn(&args.driver);
    let mut rng = Rng::new(args.seed);

    if let Some(r) = &args.replay {
        // replay: a driver request (`ser <chunks>`, `dec <hex>`, `dir <hex>`)
        let mut cx = Ctx { drv: &mut drv, rep: &mut rep };
        let w: Vec<&str> = r.splitn(2, ' ').collect();
        match w[0] {
            "dec" => run_malformed(&mut cx, &unhex(w[1]), "replay"),
            "dir" => run_dirwalk(&mut cx, &unhex(w[1]), "replay", None),
            "ser" => {
                let chex = cx.drv.ask(&format!("ser {}", w[1]));
                let exp = cx.drv.ask(&format!("exp {}", w[1]));
                let container = unhex(&chex);
                let want = format!("ok:{}", digest(&unhex(&exp)));
                let (imp, _) = impl_dec(&container);
                let model = cx.drv.ask(&format!("decd {chex}"));
                cx.rep.case(r, true);
                if imp != model {
                    cx.rep.fail("impl_vs_model", &format!("dec:{}:replay", wrong(&imp)), r, &imp, &model, &want);
                }
                if imp != want {
                    cx.rep.fail("impl_vs_spec", &format!("dec:{}:replay", wrong(&imp)), r, &imp, &model, &want);
                }
            }
            _ => {
                // a project / fixture case: the regression corpus and the fixtures are what can be re-run
                for (name, cs) in corpus() {
                    let src: Vec<u8> = cs.iter().flat_map(|c| match c { Chunk::Raw(b) => b.clone(), Chunk::Comp(t) => expand_tokens(t) }).collect();
                    let enc = Encoded { chunks: cs, source: src, boundary: false, standard: true, modes: vec![] };
                    run_container(&mut cx, &enc, &format!("corpus:{name}"));
                }
                for (name, bin) in fixture_projects() {
                    run_fixture(&mut cx, &name, &bin);
                }
                let mut crng = Rng::new(7);
                for (name, p) in corpus_projects() {
                    run_project_spec(&mut cx, &p, &format!("project-corpus:{name}"), None, &mut crng);
                }
            }
        }
        rep.write(&args.out);
        return;
    }

    #[cfg(not(feature = "hooks"))]
    rep.notes.push("built without verif-hooks: decompress_stream is reached through VbaProject::new (container under test = the module stream of a minimal project); skipped: the unit dir-walk comparison on valid dir streams (covered by the project stage; malformed dir streams go through VbaProject::new, outcome classes only), the compound-file read-back of every written stream, the per-stream fixture comparison (whole vbaProject.bin vs the composed model instead), the code-page and encoding-name sweeps; the model's bytes are decoded by the harness's own tables instead of XlsEncoding".into());
    // code pages: the model's table vs `XlsEncoding::from_codepage` on all 65536 values
    #[cfg(feature = "hooks")]
    {
        let reply = drv.ask("cps");
        let known: std::collections::HashSet<u32> = reply.split(',').filter_map(|s| s.parse().ok()).collect();
        let mut bad = vec![];
        for cp in 0..=65535u32 {
            let imp = XlsEncoding::from_codepage(cp as u16).is_ok();
            if imp != known.contains(&cp) {
                bad.push(cp);
            }
        }
        rep.bulk(65536, 53, "codepage sweep: XlsEncoding::from_codepage(cp).is_ok() == (cp in model table), all u16");
        if !bad.is_empty() {
            rep.fail("impl_vs_model", "codepage-table", &format!("{bad:?}"), "", &reply, "");
        }
        // and the encoding object selected for every id (`encodingOf`, theorem `get_module_text`)
        let encs = drv.ask("encs");
        let table: std::collections::HashMap<u32, String> =
            encs.split(',').filter_map(|kv| kv.split_once('=')).filter_map(|(k, v)| k.parse().ok().map(|k| (k, v.to_string()))).collect();
        let mut bad = vec![];
        for cp in 0..=65535u32 {
            let imp = XlsEncoding::from_codepage(cp as u16).ok().map(|e| calamine::verif_hooks::cfb::encoding_name(&e).to_string());
            if imp != table.get(&cp).cloned() {
                bad.push(format!("{cp}:{imp:?}:{:?}", table.get(&cp)));
            }
        }
        rep.bulk(65536, 53, "encoding selection sweep: name of XlsEncoding::from_codepage(cp) == model encodingOf cp, all u16");
        if !bad.is_empty() {
            rep.fail("impl_vs_model", "encoding-table", &bad.join(" "), "", &encs, "");
        }
    }

    let mut valid_pool: Vec<Vec<u8>> = vec![];
    {
        let mut cx = Ctx { drv: &mut drv, rep: &mut rep };
        for (name, cs) in corpus() {
            let src: Vec<u8> = cs.iter().flat_map(|c| match c { Chunk::Raw(b) => b.clone(), Chunk::Comp(t) => expand_tokens(t) }).collect();
            let boundary = cs.len() > 1 && cs[..cs.len() - 1].iter().any(|c| matches!(c, Chunk::Comp(t) if t.len() % 8 == 0));
            let enc = Encoded { chunks: cs, source: src, boundary, standard: true, modes: vec![] };
            if let Some(c) = run_container(&mut cx, &enc, &format!("corpus:{name}")) {
                valid_pool.push(c);
            }
        }
        for (name, bin) in fixture_projects() {
            run_fixture(&mut cx, &name, &bin);
        }
        // compressed chunks whose data takes exactly 4096 / 4095 bytes, final and non-final
        let mut xrng = Rng::new(14);
        for (payload, nonfinal) in [(4096usize, false), (4096, true), (4095, false), (4095, true)] {
            if let Some(t) = exact_payload_chunk(payload, if nonfinal { Some(4096) } else { None }, &mut xrng) {
                let mut chunks = vec![Chunk::Comp(t)];
                if nonfinal {
                    chunks.push(Chunk::Comp(vec![Tok::Lit(b'z'), Tok::Copy(1, 5)]));
                }
                let source: Vec<u8> = chunks.iter().flat_map(|c| match c { Chunk::Raw(b) => b.clone(), Chunk::Comp(t) => expand_tokens(t) }).collect();
                let enc = Encoded { chunks, source, boundary: false, standard: true, modes: vec![] };
                run_container(&mut cx, &enc, &format!("corpus:exact-payload-{payload}-{}", if nonfinal { "nonfinal" } else { "final" }));
            }
        }
        let mut crng = Rng::new(7);
        for (name, p) in corpus_projects() {
            run_project_spec(&mut cx, &p, &format!("project-corpus:{name}"), None, &mut crng);
        }
        // modules longer than 64 KiB / 128 KiB of multi-byte text, every alignment of the characters
        for cp in [932u16, 65001] {
            for blocks in [1usize, 2] {
                for shift in 0..4 {
                    let p = big_multibyte_project(cp, blocks, shift);
                    run_project_spec(&mut cx, &p, &format!("project-corpus:big-multibyte-{cp}-{blocks}x64K-shift{shift}"), None, &mut crng);
                    cx.rep.count("project:module-longer-than-64KiB-multibyte");
                }
            }
        }
        // two MODULE records sharing one stream
        {
            let mut r = Rng::new(17);
            for _ in 0..3 {
                run_shared_stream_project(&mut cx, &mut r);
            }
        }
        // a module called `Project` next to the root stream `PROJECT` (both directory orders), and a UTF-8 project
        // whose module stream name has 31 characters = 93 bytes
        for (k, n) in ["Project", "projectwm"].into_iter().enumerate() {
            let mut p = corpus_projects().remove(2).1;
            p.mods[0].name = (n.as_bytes().to_vec(), n.to_string());
            p.mods[0].stream = p.mods[0].name.clone();
            let mut r = Rng::new(150 + k as u64);
            for _ in 0..3 {
                run_project_spec(&mut cx, &p, &format!("project-corpus:case-variant-of-root-stream-{n}"), None, &mut r);
            }
        }
        {
            let mut p = corpus_projects().remove(2).1; // own-bom-65001
            let t: String = "漢".repeat(31);
            p.mods[0].name = (t.as_bytes().to_vec(), t.clone());
            p.mods[0].stream = p.mods[0].name.clone();
            run_project_spec(&mut cx, &p, "project-corpus:utf8-stream-name-31-units-93-bytes", None, &mut crng);
        }
        // version-3 containers with exactly 236 / 237 / 238 / 364 / 365 FAT sectors (15-24 MB), the tables first and
        // the project's streams in the last sectors: 237 and 364..365 need the link of the second / third DIFAT sector
        for n_fat in [236usize, 237, 238, 364, 365] {
            if !args.thorough() && ![237usize, 365].contains(&n_fat) {
                continue; // the quick tier keeps the two counts that need the last DIFAT link
            }
            let p = corpus_projects().remove(2).1;
            FAT_SECTORS.with(|c| c.set(n_fat));
            run_project_spec(&mut cx, &p, &format!("project-corpus:container-with-{n_fat}-FAT-sectors"), None, &mut crng);
        }
        // duplicate directory-entry names, the module stream first: a storage / a stream of the same name later
        for kind in [0u8, 1] {
            let p = corpus_projects().remove(2).1;
            run_project_spec(&mut cx, &p, &format!("project-corpus:dup-wanted-first-{}", if kind == 0 { "storage" } else { "stream" }), Some((kind, false)), &mut crng);
        }
        // fixed not-well-formed containers (outcome impl = model): output beyond 4096 bytes in one chunk (13-bit
        // offsets), a chunk of 8 tokens followed by one stray byte (was read as a flag byte before the D16 fix),
        // offset before the start, truncated copy token, bad chunk signature, short raw chunk
        for h in ["0105b00661ff0f1280", "0107b00e61ff0f17801780", "0108b00090253955f035eac38f", "0109b08061626364656667f66f01b00078",
                  "0103b0ed0100", "0101b0ffeb", "01010069", "0101300061", "0103b002", "0103", "02"] {
            run_malformed(&mut cx, &unhex(h), "corpus");
        }
        // fixed truncated / garbled dir streams (D34: panicked in vba.rs before /repo a92e839): stream shorter than a
        // fixed skip, missing code page field, record length beyond the end of the stream
        for h in ["010004000000010000004a0004000000030000000200040000", "0100040000000100000002000400000009040000140004000000090400000300",
                  "01000400000001000000020004000000090400001400040000000904000003000200000e4040400ffffff7f41", "-", "01"] {
            run_dirwalk(&mut cx, &unhex(h), "corpus", None);
        }
    }

    // the generated streams are spread over worker threads, each with its own driver and its own PRNG
    // (seeded from --seed and the thread index, so a seed replays exactly)
    let n = args.count(20_000, 1_000_000);
    let threads: u64 = if args.thorough() { std::thread::available_parallelism().map(|x| x.get() as u64).unwrap_or(4).clamp(2, 16) } else { 8 };
    let per = n.div_ceil(threads);
    {
        let mut cx = Ctx { drv: &mut drv, rep: &mut rep };
        run_malformed(&mut cx, &[], "empty-input");
    }
    let _ = &mut rng;
    let mut handles = vec![];
    for t in 0..threads {
        let path = args.driver.clone();
        let seed = args.seed.wrapping_mul(1000).wrapping_add(t + 1);
        let mut pool = valid_pool.clone();
        handles.push(std::thread::spawn(move || {
            let mut drv = Driver::spawn(&path);
            let mut rep = Report::new("C18", "");
            let mut rng = Rng::new(seed);
            let mut cx = Ctx { drv: &mut drv, rep: &mut rep };
            for i in 0..per {
                let (enc, label) = gen_container_case(&mut rng);
                if let Some(c) = run_container(&mut cx, &enc, &label) {
                    if c.len() < 600 && pool.len() < 2000 {
                        pool.push(c);
                    }
                }
                if i % 4 == 0 && !pool.is_empty() {
                    let base = pool[rng.below(pool.len() as u64) as usize].clone();
                    let (m, kind) = mutate(&base, &mut rng);
                    run_malformed(&mut cx, &m, kind);
                }
                if i % 40 == 0 {
                    run_project(&mut cx, &mut rng);
                }
                if i % 20 == 0 {
                    run_dir_malformed(&mut cx, &mut rng);
                }
            }
            rep
        }));
    }
    for h in handles {
        let r = h.join().expect("worker thread");
        let distinct = r.to_json()["distinct_nontrivial"].as_u64().unwrap_or(0);
        rep.evaluations += r.evaluations;
        for (k, v) in &r.counters {
            if k != "bulk_distinct" {
                rep.add(k, *v);
            }
        }
        for s in &r.samples {
            if rep.samples.len() < 10 {
                rep.samples.push(s.clone());
            }
        }
        let counts = r.failure_count.clone();
        let mut kept = std::collections::HashSet::new();
        for f in r.failures {
            kept.insert(format!("{}|{}", f.kind, f.sig));
            rep.fail(&f.kind, &f.sig, &f.input, &f.impl_out, &f.model_out, &f.expect);
        }
        // `fail` counted each kept failure once; replace by the thread's true counts
        for (k, v) in counts {
            let once = kept.contains(&k) as u64;
            let e = rep.failure_count.entry(k).or_insert(0);
            *e = *e + v - once;
        }
        rep.add("bulk_distinct", distinct);
    }
    rep.write(&args.out);
}
