//! C14 — formulas are reported with the A1 text the token stream encodes (xls / xlsb token decoders).
//!   impl   : the real `push_column` and both private `parse_formula`s through the `verif-hooks` wrappers,
//!   model  : the Lean model (`drv_c14`: Model/Ptg.lean, the definitions the theorems of Props/C14 are about),
//!   oracle : an independent A1 renderer of the generated expression tree (this file) and an independent
//!            bijective base-26 column-letter function.
//! The token streams are produced by the Lean encoders (`Spec/Formula.lean`, driver request `enc`), i.e. the
//! bytes fed to the real decoders are the bytes the theorems talk about.
//! Built without the `hooks` feature (the crate's `verif-hooks` are unavailable) the same stages run through the
//! public API only: every token stream is placed in the FORMULA / BrtFmla record of a one-cell workbook and read
//! back with `worksheet_formula` (module `nohooks`), the function table comes from the Lean driver (`ftab`, i.e. the
//! table translated from the source), columns 0..=16383 are read from one sheet of PtgRef formulas.
#[cfg(feature = "hooks")]
use calamine::verif_hooks::utils::{push_column, FTAB, FTAB_ARGC};
#[cfg(feature = "hooks")]
use calamine::verif_hooks::{xls as hx, xlsb as hb};
use calamine::{Data, HeaderRow, Ods, Reader, Xls, Xlsb, Xlsx};
use std::collections::BTreeMap;
use std::io::Cursor;
use verif_harness::xlsbw::{BVal, DefinedName, Fmla, Framing, XlsbBook, XlsbSheet};
use verif_harness::odsw::{OdsBook, OdsCell, OdsSheet, OdsVal, RowRun};
use verif_harness::xlsw::{formula_payload, formula_value, xl_unicode_string, Cached, CellV, XlsBook, XlsCell, XlsName, XlsSheet, FORMULA, STRING};
use verif_harness::xlsxw::{ev_wire, Layout, XCell, XVal, XlsxBook, XlsxSheet};
use verif_harness::{driver::Driver, fnv64, guarded, hex, report::Report, rng::Rng, unhex, Args};

// ------------------------------------------------------------------------------------------------
// oracle: column letters, A1 rendering
// ------------------------------------------------------------------------------------------------

/// independent bijective base-26 letters: 0 → A, 25 → Z, 26 → AA, 701 → ZZ, 702 → AAA
fn col_oracle(col: u32) -> String {
    // count how many letters, then plain base 26 inside that length class
    let mut len = 1u32;
    let mut first = 0u64; // first index of this length class
    let mut size = 26u64;
    let c = col as u64;
    while c >= first + size {
        first += size;
        size *= 26;
        len += 1;
    }
    let mut v = c - first;
    let mut out = vec![b'A'; len as usize];
    for i in (0..len as usize).rev() {
        out[i] = b'A' + (v % 26) as u8;
        v /= 26;
    }
    String::from_utf8(out).unwrap()
}

#[derive(Clone, Debug, PartialEq)]
struct CellRef {
    row: u32,
    col: u32,
    col_abs: bool,
    row_abs: bool,
}

#[derive(Clone, Debug, PartialEq)]
enum Expr {
    Ref(u8, CellRef),
    Area(u8, CellRef, CellRef),
    Ref3d(u8, u16, CellRef),
    Area3d(u8, u16, CellRef, CellRef),
    Name(u8, u32),
    Int(u16),
    Num(u64),
    Str(bool, Vec<char>),
    Bool(bool),
    Err(u8),
    Missing,
    UPlus(Box<Expr>),
    UMinus(Box<Expr>),
    Percent(Box<Expr>),
    Paren(Box<Expr>),
    Sum(Box<Expr>),
    Bin(u8, Box<Expr>, Box<Expr>),
    Func(u8, u16, Vec<Expr>),
    FuncVar(u8, u16, Vec<Expr>),
    /// the sub-expression followed by an inert PtgAttr token (PtgAttrIf / Goto / Semi …, PtgAttrChoose): no text
    Inert(InertTok, Box<Expr>),
}

#[derive(Clone, Debug, PartialEq)]
enum InertTok {
    /// etpg ∈ {1 semi, 2 if, 8 goto, 0x20, 0x21} with its 16-bit operand
    Skip(u8, u16),
    /// PtgAttrChoose: the jump table (cOffset + 1 entries)
    Choose(Vec<u16>),
}

#[derive(Clone, Debug)]
struct Ctx {
    sheets: Vec<String>,
    names: Vec<String>,
    xtis: Vec<i16>,
}

impl Ctx {
    fn wire(&self) -> String {
        let h = |v: &Vec<String>| v.iter().map(|s| hex(s.as_bytes())).collect::<Vec<_>>().join(",");
        format!(
            "S={} N={} X={}",
            h(&self.sheets),
            h(&self.names),
            self.xtis.iter().map(|x| x.to_string()).collect::<Vec<_>>().join(",")
        )
    }
    fn parse(s: &str) -> Ctx {
        let p: Vec<&str> = s.split_whitespace().collect();
        let l = |x: &str| -> Vec<String> {
            if x.is_empty() {
                vec![]
            } else {
                x.split(',').map(|h| String::from_utf8(unhex(h)).unwrap()).collect()
            }
        };
        Ctx {
            sheets: l(&p[0][2..]),
            names: l(&p[1][2..]),
            xtis: if p[2].len() == 2 { vec![] } else { p[2][2..].split(',').map(|x| x.parse().unwrap()).collect() },
        }
    }
    /// the extern-sheet table as the xlsb workbook reader resolves it (`Formula.resolveExtern`)
    #[cfg_attr(not(feature = "hooks"), allow(dead_code))]
    fn xlsb_sheets(&self) -> Vec<String> {
        self.xtis
            .iter()
            .map(|&it| match it {
                -2 => "#ThisWorkbook".to_string(),
                -1 => "#InvalidWorkSheet".to_string(),
                p if p >= 0 && (p as usize) < self.sheets.len() => self.sheets[p as usize].clone(),
                _ => "#Unknown".to_string(),
            })
            .collect()
    }
    /// some XTI entry does not designate a sheet of the workbook (outside the property's grammar)
    fn has_dangling(&self) -> bool {
        self.xtis.iter().any(|&i| i < 0 || i as usize >= self.sheets.len())
    }
    #[cfg_attr(not(feature = "hooks"), allow(dead_code))]
    fn names_pairs(&self) -> Vec<(String, String)> {
        self.names.iter().map(|n| (n.clone(), String::new())).collect()
    }
    fn xti_triples(&self) -> Vec<(u16, i16, i16)> {
        self.xtis.iter().map(|&i| (0u16, i, i)).collect()
    }
}

fn b(x: bool) -> &'static str {
    if x {
        "1"
    } else {
        "0"
    }
}

impl CellRef {
    fn wire(&self) -> String {
        format!("{} {} {} {}", self.row, self.col, b(self.col_abs), b(self.row_abs))
    }
    /// the property: `$` exactly on the absolute components, spreadsheet letters, 1-based row
    fn a1(&self) -> String {
        format!(
            "{}{}{}{}",
            if self.col_abs { "$" } else { "" },
            col_oracle(self.col),
            if self.row_abs { "$" } else { "" },
            self.row as u64 + 1
        )
    }
}

const BIN_OPS: [(u8, &str); 15] = [
    (0x03, "+"),
    (0x04, "-"),
    (0x05, "*"),
    (0x06, "/"),
    (0x07, "^"),
    (0x08, "&"),
    (0x09, "<"),
    (0x0A, "<="),
    (0x0B, "="),
    (0x0C, ">"),
    (0x0D, ">="),
    (0x0E, "<>"),
    (0x0F, " "),
    (0x10, ","),
    (0x11, ":"),
];
const ERRS: [(u8, &str); 8] = [
    (0x00, "#NULL!"),
    (0x07, "#DIV/0!"),
    (0x0F, "#VALUE!"),
    (0x17, "#REF!"),
    (0x1D, "#NAME?"),
    (0x24, "#NUM!"),
    (0x2A, "#N/A"),
    (0x2B, "#GETTING_DATA"),
];

impl Expr {
    fn wire(&self) -> String {
        match self {
            Expr::Ref(c, a) => format!("R {c} {}", a.wire()),
            Expr::Area(c, a, bb) => format!("A {c} {} {}", a.wire(), bb.wire()),
            Expr::Ref3d(c, i, a) => format!("R3 {c} {i} {}", a.wire()),
            Expr::Area3d(c, i, a, bb) => format!("A3 {c} {i} {} {}", a.wire(), bb.wire()),
            Expr::Name(c, i) => format!("N {c} {i}"),
            Expr::Int(n) => format!("I {n}"),
            Expr::Num(bits) => format!("F {:016x}", bits),
            Expr::Str(w, s) => format!(
                "S {} {}",
                b(*w),
                if s.is_empty() { "-".to_string() } else { s.iter().map(|c| (*c as u32).to_string()).collect::<Vec<_>>().join(",") }
            ),
            Expr::Bool(v) => format!("B {}", b(*v)),
            Expr::Err(c) => format!("E {c}"),
            Expr::Missing => "M".into(),
            Expr::UPlus(e) => format!("U+ {}", e.wire()),
            Expr::UMinus(e) => format!("U- {}", e.wire()),
            Expr::Percent(e) => format!("PCT {}", e.wire()),
            Expr::Paren(e) => format!("PAR {}", e.wire()),
            Expr::Sum(e) => format!("SUM {}", e.wire()),
            Expr::Bin(op, x, y) => format!("OP {op} {} {}", x.wire(), y.wire()),
            Expr::Func(c, f, args) => {
                let mut s = format!("FN {c} {f} {}", args.len());
                for a in args {
                    s.push(' ');
                    s.push_str(&a.wire());
                }
                s
            }
            Expr::FuncVar(c, f, args) => {
                let mut s = format!("FV {c} {f} {}", args.len());
                for a in args {
                    s.push(' ');
                    s.push_str(&a.wire());
                }
                s
            }
            Expr::Inert(InertTok::Skip(e, w), x) => format!("AT {e} {w} {}", x.wire()),
            Expr::Inert(InertTok::Choose(o), x) => {
                format!("AC {} {}", o.iter().map(|v| v.to_string()).collect::<Vec<_>>().join(","), x.wire())
            }
        }
    }

    fn parse(w: &mut std::slice::Iter<&str>) -> Expr {
        fn n<T: std::str::FromStr>(w: &mut std::slice::Iter<&str>) -> T
        where
            T::Err: std::fmt::Debug,
        {
            w.next().unwrap().parse::<T>().unwrap()
        }
        fn cr(w: &mut std::slice::Iter<&str>) -> CellRef {
            CellRef { row: n(w), col: n(w), col_abs: n::<u8>(w) == 1, row_abs: n::<u8>(w) == 1 }
        }
        match *w.next().unwrap() {
            "R" => Expr::Ref(n(w), cr(w)),
            "A" => Expr::Area(n(w), cr(w), cr(w)),
            "R3" => Expr::Ref3d(n(w), n(w), cr(w)),
            "A3" => Expr::Area3d(n(w), n(w), cr(w), cr(w)),
            "N" => Expr::Name(n(w), n(w)),
            "I" => Expr::Int(n(w)),
            "F" => Expr::Num(u64::from_str_radix(w.next().unwrap(), 16).unwrap()),
            "S" => {
                let wide = n::<u8>(w) == 1;
                let cs = *w.next().unwrap();
                let s = if cs == "-" { vec![] } else { cs.split(',').map(|x| char::from_u32(x.parse().unwrap()).unwrap()).collect() };
                Expr::Str(wide, s)
            }
            "B" => Expr::Bool(n::<u8>(w) == 1),
            "E" => Expr::Err(n(w)),
            "M" => Expr::Missing,
            "AT" => {
                let t = InertTok::Skip(n(w), n(w));
                Expr::Inert(t, Box::new(Expr::parse(w)))
            }
            "AC" => {
                let offs = w.next().unwrap().split(',').map(|x| x.parse().unwrap()).collect();
                Expr::Inert(InertTok::Choose(offs), Box::new(Expr::parse(w)))
            }
            "U+" => Expr::UPlus(Box::new(Expr::parse(w))),
            "U-" => Expr::UMinus(Box::new(Expr::parse(w))),
            "PCT" => Expr::Percent(Box::new(Expr::parse(w))),
            "PAR" => Expr::Paren(Box::new(Expr::parse(w))),
            "SUM" => Expr::Sum(Box::new(Expr::parse(w))),
            "OP" => {
                let op = n(w);
                let x = Expr::parse(w);
                let y = Expr::parse(w);
                Expr::Bin(op, Box::new(x), Box::new(y))
            }
            k @ ("FN" | "FV") => {
                let c = n(w);
                let f = n(w);
                let cnt: usize = n(w);
                let args = (0..cnt).map(|_| Expr::parse(w)).collect();
                if k == "FN" {
                    Expr::Func(c, f, args)
                } else {
                    Expr::FuncVar(c, f, args)
                }
            }
            x => panic!("bad expr word {x}"),
        }
    }

    /// the property oracle: A1 text of the expression
    fn render(&self, ctx: &Ctx, out: &mut String) {
        let sheet = |i: u16| -> String {
            ctx.xtis.get(i as usize).and_then(|&t| if t < 0 { None } else { ctx.sheets.get(t as usize) }).cloned().unwrap_or_else(|| "<no such sheet>".into())
        };
        match self {
            Expr::Ref(_, a) => out.push_str(&a.a1()),
            Expr::Area(_, a, bb) => {
                out.push_str(&a.a1());
                out.push(':');
                out.push_str(&bb.a1());
            }
            Expr::Ref3d(_, i, a) => {
                out.push_str(&sheet(*i));
                out.push('!');
                out.push_str(&a.a1());
            }
            Expr::Area3d(_, i, a, bb) => {
                out.push_str(&sheet(*i));
                out.push('!');
                out.push_str(&a.a1());
                out.push(':');
                out.push_str(&bb.a1());
            }
            Expr::Name(_, i) => out.push_str(&ctx.names[*i as usize]),
            Expr::Int(n) => out.push_str(&n.to_string()),
            Expr::Num(bits) => out.push_str(&format!("{}", f64::from_bits(*bits))),
            Expr::Str(_, s) => {
                out.push('"');
                out.extend(s.iter());
                out.push('"');
            }
            Expr::Bool(v) => out.push_str(if *v { "TRUE" } else { "FALSE" }),
            Expr::Err(c) => out.push_str(ERRS.iter().find(|e| e.0 == *c).unwrap().1),
            Expr::Missing => {}
            Expr::Inert(_, e) => e.render(ctx, out),
            Expr::UPlus(e) => {
                out.push('+');
                e.render(ctx, out);
            }
            Expr::UMinus(e) => {
                out.push('-');
                e.render(ctx, out);
            }
            Expr::Percent(e) => {
                e.render(ctx, out);
                out.push('%');
            }
            Expr::Paren(e) => {
                out.push('(');
                e.render(ctx, out);
                out.push(')');
            }
            Expr::Sum(e) => {
                out.push_str("SUM(");
                e.render(ctx, out);
                out.push(')');
            }
            Expr::Bin(op, x, y) => {
                x.render(ctx, out);
                out.push_str(BIN_OPS.iter().find(|o| o.0 == *op).unwrap().1);
                y.render(ctx, out);
            }
            Expr::Func(_, f, args) | Expr::FuncVar(_, f, args) => {
                out.push_str(&tab().names[*f as usize]);
                out.push('(');
                for (i, a) in args.iter().enumerate() {
                    if i > 0 {
                        out.push(',');
                    }
                    a.render(ctx, out);
                }
                out.push(')');
            }
        }
    }

    fn kind(&self) -> &'static str {
        match self {
            Expr::Ref(..) => "ref",
            Expr::Area(..) => "area",
            Expr::Ref3d(..) => "ref3d",
            Expr::Area3d(..) => "area3d",
            Expr::Name(..) => "name",
            Expr::Int(..) => "int",
            Expr::Num(..) => "num",
            Expr::Str(..) => "str",
            Expr::Bool(..) => "bool",
            Expr::Err(..) => "err",
            Expr::Missing => "missing",
            Expr::UPlus(..) => "uplus",
            Expr::UMinus(..) => "uminus",
            Expr::Percent(..) => "percent",
            Expr::Paren(..) => "paren",
            Expr::Sum(..) => "sum",
            Expr::Bin(..) => "bin",
            Expr::Func(..) => "func",
            Expr::FuncVar(..) => "funcvar",
            Expr::Inert(..) => "inert",
        }
    }

    fn children(&self) -> Vec<&Expr> {
        match self {
            Expr::UPlus(e) | Expr::UMinus(e) | Expr::Percent(e) | Expr::Paren(e) | Expr::Sum(e) | Expr::Inert(_, e) => vec![e],
            Expr::Bin(_, x, y) => vec![x, y],
            Expr::Func(_, _, a) | Expr::FuncVar(_, _, a) => a.iter().collect(),
            _ => vec![],
        }
    }

    fn depth(&self) -> usize {
        1 + self.children().iter().map(|c| c.depth()).max().unwrap_or(0)
    }

    fn count_kinds(&self, rep: &mut Report) {
        rep.count(&format!("node.{}", self.kind()));
        match self {
            Expr::Ref(_, a) | Expr::Ref3d(_, _, a) => count_ref(a, rep),
            Expr::Area(_, a, bb) | Expr::Area3d(_, _, a, bb) => {
                count_ref(a, rep);
                count_ref(bb, rep);
            }
            _ => {}
        }
        for c in self.children() {
            c.count_kinds(rep);
        }
    }

    /// widest row / column used (the xls encoding carries 16-bit rows, 14-bit columns ≤ 255 in practice)
    fn fits_xls(&self) -> bool {
        let ok = |a: &CellRef| a.row < 65536 && a.col < 16384;
        (match self {
            Expr::Ref(_, a) | Expr::Ref3d(_, _, a) => ok(a),
            Expr::Area(_, a, bb) | Expr::Area3d(_, _, a, bb) => ok(a) && ok(bb),
            Expr::Str(w, s) => {
                let units: usize = s.iter().map(|c| c.len_utf16()).sum();
                units < 256 && (*w || s.iter().all(|c| (*c as u32) < 256))
            }
            _ => true,
        }) && self.children().iter().all(|c| c.fits_xls())
    }
}

fn count_ref(a: &CellRef, rep: &mut Report) {
    rep.count(match (a.col_abs, a.row_abs) {
        (true, true) => "ref.abs_abs",
        (true, false) => "ref.colabs_rowrel",
        (false, true) => "ref.colrel_rowabs",
        (false, false) => "ref.rel_rel",
    });
    rep.count(if a.col < 26 {
        "col.1letter"
    } else if a.col < 702 {
        "col.2letters"
    } else {
        "col.3letters"
    });
}

// ------------------------------------------------------------------------------------------------
// generators
// ------------------------------------------------------------------------------------------------

const SHEET_POOL: [&str; 8] = ["S1", "Data", "Été", "Лист1", "Sheet 2", "表", "a", "Q4_2021"];
const NAME_POOL: [&str; 5] = ["MyName", "Nom_é", "_x", "Итог", "TAX2021"];
const NUM_POOL: [f64; 14] = [0.0, 1.5, 0.1, -2.25, 1e21, 1e-7, 123456.789, 1e15, 1e16, 0.30000000000000004, 65536.0, -0.0, 4.9e-324, 1.7976931348623157e308];

fn gen_ctx(rng: &mut Rng) -> Ctx {
    let ns = rng.range(1, 4) as usize;
    let mut pool: Vec<&str> = SHEET_POOL.to_vec();
    rng.shuffle(&mut pool);
    let sheets: Vec<String> = pool[..ns].iter().map(|s| s.to_string()).collect();
    let nn = rng.range(0, 3) as usize;
    let mut npool: Vec<&str> = NAME_POOL.to_vec();
    rng.shuffle(&mut npool);
    let mut names: Vec<String> = npool[..nn].iter().map(|s| s.to_string()).collect();
    match rng.below(6) {
        0 => {
            // sheet-scoped built-in names: the same text twice, next to each other (as Excel writes them)
            let at = rng.below(names.len() as u64 + 1) as usize;
            names.insert(at, "_xlnm.Print_Area".into());
            names.insert(at, "_xlnm.Print_Area".into());
        }
        1 => {
            // the same text twice, not adjacent
            names.insert(0, "_xlnm._FilterDatabase".into());
            names.push("_xlnm._FilterDatabase".into());
        }
        _ => {}
    }
    let nx = rng.range(1, 4) as usize;
    let xtis = (0..nx).map(|_| rng.below(ns as u64) as i16).collect();
    Ctx { sheets, names, xtis }
}

fn gen_cellref(rng: &mut Rng, wide: bool) -> CellRef {
    let cols: &[u32] = if wide {
        &[0, 1, 25, 26, 27, 51, 52, 255, 256, 701, 702, 703, 1000, 16383]
    } else {
        &[0, 1, 25, 26, 27, 51, 52, 100, 255, 255, 256, 701, 702, 16383]
    };
    let col = if rng.chance(1, 3) { rng.below(if wide { 16384 } else { 256 }) as u32 } else { *rng.pick(cols) };
    let rows: &[u32] = if wide { &[0, 1, 9, 99, 65535, 65536, 1048575] } else { &[0, 1, 9, 99, 1000, 65534, 65535] };
    let row = if rng.chance(1, 3) { rng.below(if wide { 1048576 } else { 65536 }) as u32 } else { *rng.pick(rows) };
    CellRef { row, col, col_abs: rng.chance(1, 2), row_abs: rng.chance(1, 2) }
}

fn gen_string(rng: &mut Rng) -> (bool, Vec<char>) {
    let alpha: &[&str] = &["abc XY,;!()+-'", "aé£ÿ", "Жыц", "中文", "a😀b𝒳", "\u{FEFF}\u{FFFE}\u{BBEF}¿A"];
    let a: Vec<char> = rng.pick(alpha).chars().collect();
    let len = *rng.pick(&[0usize, 1, 2, 3, 10, 40]);
    let mut s: Vec<char> = (0..len).map(|_| *rng.pick(&a)).collect();
    let latin = s.iter().all(|c| (*c as u32) < 256);
    (!latin || rng.chance(2, 5), s)
}

struct GenOpts {
    wide: bool,
}

fn gen_leaf(rng: &mut Rng, ctx: &Ctx, o: &GenOpts) -> Expr {
    let cls = rng.below(3) as u8;
    match rng.below(100) {
        0..=29 => Expr::Ref(cls, gen_cellref(rng, o.wide)),
        30..=41 => Expr::Area(cls, gen_cellref(rng, o.wide), gen_cellref(rng, o.wide)),
        42..=51 => Expr::Ref3d(cls, rng.below(ctx.xtis.len() as u64) as u16, gen_cellref(rng, o.wide)),
        52..=58 => Expr::Area3d(cls, rng.below(ctx.xtis.len() as u64) as u16, gen_cellref(rng, o.wide), gen_cellref(rng, o.wide)),
        59..=66 => Expr::Int(if rng.chance(1, 2) { rng.below(65536) as u16 } else { *rng.pick(&[0u16, 1, 9, 10, 42, 255, 256, 65535]) }),
        67..=72 => Expr::Num(if rng.chance(1, 2) {
            NUM_POOL[rng.below(NUM_POOL.len() as u64) as usize].to_bits()
        } else {
            // random finite double
            let mut v = rng.next();
            if (v >> 52) & 0x7FF == 0x7FF {
                v &= !(1u64 << 62);
            }
            v
        }),
        73..=82 => {
            let (w, s) = gen_string(rng);
            Expr::Str(w, s)
        }
        83..=86 => Expr::Bool(rng.chance(1, 2)),
        87..=91 => Expr::Err(ERRS[rng.below(8) as usize].0),
        92..=93 => Expr::Missing,
        _ => {
            if ctx.names.is_empty() {
                Expr::Int(7)
            } else {
                Expr::Name(cls, rng.below(ctx.names.len() as u64) as u32)
            }
        }
    }
}

/// a call with 100..255 arguments, one of which may itself be such a call or sit next to other pending operands:
/// more than 255 operands are pending at once (the decoders' operand stacks have no bound)
fn gen_wide_call(rng: &mut Rng, ctx: &Ctx, o: &GenOpts) -> Expr {
    let wide = |rng: &mut Rng, n: usize| -> Vec<Expr> {
        (0..n).map(|_| if rng.chance(1, 8) { gen_leaf(rng, ctx, o) } else { Expr::Int(rng.below(1000) as u16) }).collect()
    };
    let f = *rng.pick(&[4u16, 0, 5, 6, 7, 36, 37]); // SUM COUNT AVERAGE MIN MAX AND OR
    match rng.below(3) {
        0 => {
            // x + F(255 args): 256 pending
            let n = rng.range(250, 255) as usize;
            Expr::Bin(3, Box::new(gen_leaf(rng, ctx, o)), Box::new(Expr::FuncVar(rng.below(3) as u8, f, wide(rng, n))))
        }
        1 => {
            // F(200 args, G(100 args))
            let n = rng.range(150, 254) as usize;
            let m = rng.range(100, 255) as usize;
            let mut args = wide(rng, n);
            args.push(Expr::FuncVar(rng.below(3) as u8, f, wide(rng, m)));
            Expr::FuncVar(rng.below(3) as u8, *rng.pick(&[4u16, 6, 7]), args)
        }
        _ => {
            let n = rng.range(100, 255) as usize;
            Expr::FuncVar(rng.below(3) as u8, f, wide(rng, n))
        }
    }
}

fn gen_expr(rng: &mut Rng, depth: u32, ctx: &Ctx, o: &GenOpts) -> Expr {
    if depth >= 2 && rng.chance(1, 150) {
        return gen_wide_call(rng, ctx, o);
    }
    if depth == 0 || rng.chance(30, 100) {
        return gen_leaf(rng, ctx, o);
    }
    let sub = |rng: &mut Rng| Box::new(gen_expr(rng, depth - 1, ctx, o));
    match rng.below(100) {
        0..=34 => {
            let op = BIN_OPS[rng.below(15) as usize].0;
            let x = sub(rng);
            let y = sub(rng);
            Expr::Bin(op, x, y)
        }
        35..=40 => Expr::UPlus(sub(rng)),
        41..=47 => Expr::UMinus(sub(rng)),
        48..=53 => Expr::Percent(sub(rng)),
        54..=65 => Expr::Paren(sub(rng)),
        66..=69 => Expr::Sum(sub(rng)),
        70..=73 => {
            // CHOOSE(sel, v1 … vn) as Excel writes it: sel, PtgAttrChoose(cOffset = n, n + 1 offsets), v1, PtgAttrGoto, …
            let n = rng.range(1, 6) as usize;
            let offs: Vec<u16> = (0..=n).map(|_| rng.below(400) as u16).collect();
            let mut args = vec![Expr::Inert(InertTok::Choose(offs), sub(rng))];
            for _ in 0..n {
                args.push(Expr::Inert(InertTok::Skip(8, rng.below(300) as u16), sub(rng)));
            }
            Expr::FuncVar(rng.below(3) as u8, 100, args)
        }
        74..=77 => {
            // IF(c, t [, e]): c, PtgAttrIf, t, PtgAttrGoto [, e, PtgAttrGoto], PtgFuncVar IF; sometimes volatile (PtgAttrSemi)
            let mut args = vec![Expr::Inert(InertTok::Skip(2, rng.below(300) as u16), sub(rng))];
            for _ in 0..rng.range(1, 2) {
                args.push(Expr::Inert(InertTok::Skip(8, rng.below(300) as u16), sub(rng)));
            }
            let e = Expr::FuncVar(rng.below(3) as u8, 1, args);
            if rng.chance(1, 4) {
                Expr::Inert(InertTok::Skip(*rng.pick(&[1u8, 0x20, 0x21]), 0), Box::new(e))
            } else {
                e
            }
        }
        78..=87 => {
            // fixed arity: indices whose table arity is small
            let cls = rng.below(3) as u8;
            let idx = loop {
                let i = rng.below(tab().names.len() as u64) as usize;
                if tab().argc[i] <= 4 {
                    break i;
                }
            };
            let args = (0..tab().argc[idx]).map(|_| gen_expr(rng, depth - 1, ctx, o)).collect();
            Expr::Func(cls, idx as u16, args)
        }
        _ => {
            let cls = rng.below(3) as u8;
            let idx = rng.below(tab().names.len() as u64) as u16;
            let n = rng.range(0, 5);
            let args = (0..n).map(|_| gen_expr(rng, depth - 1, ctx, o)).collect();
            Expr::FuncVar(cls, idx, args)
        }
    }
}

// ------------------------------------------------------------------------------------------------
// running one case
// ------------------------------------------------------------------------------------------------

#[cfg_attr(not(feature = "hooks"), allow(dead_code))]
fn canon(r: Result<Result<String, String>, String>) -> String {
    match r {
        Ok(Ok(s)) => format!("ok:{s}"),
        Ok(Err(e)) => format!("err:{e}"),
        Err(p) => format!("panic:{p}"),
    }
}

/// class of a panic message (for the signature of robustness findings)
fn panic_class(msg: &str) -> &'static str {
    if msg.contains("len is 485") {
        "ftab_index"
    } else if msg.contains("out of range for slice") || msg.contains("index out of bounds") || msg.contains("range start index") || msg.contains("range end index") {
        "rgce_slice"
    } else if msg.contains("overflow") {
        "overflow"
    } else {
        "other"
    }
}

/// the function table the oracle and the generators use: with hooks the crate's own `FTAB` / `FTAB_ARGC`, without
/// them the table the translator read from `src/utils.rs` (driver request `ftab`); either way the golden stage
/// compares it with the names written down from MS-XLS
struct Tab {
    names: Vec<String>,
    argc: Vec<u8>,
}

static TAB: std::sync::OnceLock<Tab> = std::sync::OnceLock::new();

fn tab() -> &'static Tab {
    TAB.get().expect("function table not initialised")
}

#[cfg(feature = "hooks")]
fn init_tab(_drv: &mut Driver) {
    let _ = TAB.set(Tab { names: FTAB.iter().map(|s| s.to_string()).collect(), argc: FTAB_ARGC.to_vec() });
}

#[cfg(not(feature = "hooks"))]
fn init_tab(drv: &mut Driver) {
    let reply = drv.ask("ftab");
    let mut t = Tab { names: vec![], argc: vec![] };
    for w in reply.split_whitespace() {
        let (h, a) = w.split_once(':').unwrap_or_else(|| panic!("driver request ftab: bad word {w}"));
        t.names.push(if h == "-" { String::new() } else { String::from_utf8(unhex(h)).unwrap() });
        t.argc.push(a.parse().unwrap());
    }
    assert!(!t.names.is_empty(), "driver request ftab: {reply}");
    let _ = TAB.set(t);
}

/// cases the build without hooks cannot present to the decoder through a file (counted in the report)
#[cfg(not(feature = "hooks"))]
static UNREACHABLE: std::sync::atomic::AtomicU64 = std::sync::atomic::AtomicU64::new(0);

/// `parse_formula` (xls) on `rgce` = cce + tokens; None: not presentable in this build
#[cfg(feature = "hooks")]
fn impl_xls(rgce: &[u8], ctx: &Ctx) -> Option<String> {
    let names = ctx.names_pairs();
    let xt = ctx.xti_triples();
    Some(canon(guarded(|| hx::c14_formula_text(rgce, &ctx.sheets, &names, &xt, 1200))))
}

#[cfg(feature = "hooks")]
fn impl_xlsb(rgce: &[u8], ctx: &Ctx) -> Option<String> {
    let names = ctx.names_pairs();
    let sh = ctx.xlsb_sheets();
    Some(canon(guarded(|| hb::c14_formula_text(rgce, &sh, &names))))
}

#[cfg(not(feature = "hooks"))]
fn impl_xls(rgce: &[u8], ctx: &Ctx) -> Option<String> {
    let r = nohooks::xls_text(rgce, ctx);
    if r.is_none() {
        UNREACHABLE.fetch_add(1, std::sync::atomic::Ordering::Relaxed);
    }
    r
}

#[cfg(not(feature = "hooks"))]
fn impl_xlsb(rgce: &[u8], ctx: &Ctx) -> Option<String> {
    let r = nohooks::xlsb_text(rgce, ctx);
    if r.is_none() {
        UNREACHABLE.fetch_add(1, std::sync::atomic::Ordering::Relaxed);
    }
    r
}

/// the decoders reached through the public API only: the token stream is the formula of the one formula cell of a
/// generated workbook whose sheets / defined names / XTI table are the context
#[cfg(not(feature = "hooks"))]
mod nohooks {
    use super::*;

    const HOST: &str = "__host";

    /// the sheet that carries the cell: the first sheet of the context, an extra one when the context has none
    /// (then an XTI entry 0 would name the extra sheet: not presentable)
    fn host(ctx: &Ctx) -> Option<String> {
        match ctx.sheets.first() {
            Some(s) if ctx.sheets.iter().filter(|x| *x == s).count() == 1 => Some(s.clone()),
            Some(_) => None,
            None if ctx.xtis.contains(&0) => None,
            None => Some(HOST.to_string()),
        }
    }

    fn sheet_names(ctx: &Ctx) -> Vec<String> {
        if ctx.sheets.is_empty() {
            vec![HOST.to_string()]
        } else {
            ctx.sheets.clone()
        }
    }

    /// `rgce` (cce + tokens) = the bytes of a FORMULA record from offset 20 on, exactly what the reader hands to
    /// `parse_formula`; its error is reported inside the documented fallback text
    pub fn xls_text(rgce: &[u8], ctx: &Ctx) -> Option<String> {
        let host = host(ctx)?;
        if rgce.len() + 20 > 0xFFFF {
            return None;
        }
        let mut rng = Rng::new(1);
        let mut book = XlsBook::new();
        book.xtis = ctx.xti_triples();
        for n in &ctx.names {
            book.names.push(XlsName { name: n.clone(), rgce: vec![0x3a, 0, 0, 0, 0, 0, 0], name_wide: None, itab: 0 });
        }
        for name in sheet_names(ctx) {
            let mut sh = XlsSheet::new(&name);
            if name == host {
                let mut d = vec![0u8; 6];
                d.extend_from_slice(&1.0f64.to_le_bytes());
                d.extend_from_slice(&[0u8; 6]);
                d.extend_from_slice(rgce);
                sh.cells.push(XlsCell::raw(0x0006, d));
            }
            book.sheets.push(sh);
        }
        let bytes = book.to_bytes(&mut rng);
        let r = guarded(|| match Xls::new(Cursor::new(bytes)) {
            Ok(mut wb) => match wb.worksheet_formula(&host) {
                Ok(rg) => {
                    let t = rg.get_value((0, 0)).cloned().unwrap_or_default();
                    match t.strip_prefix("Unrecognised formula for cell (0, 0): ") {
                        Some(e) => format!("err:{e}"),
                        None => format!("ok:{t}"),
                    }
                }
                Err(e) => format!("formula-range-err:{e:?}"),
            },
            Err(e) => format!("open-err:{e:?}"),
        });
        Some(r.unwrap_or_else(|p| format!("panic:{p}")))
    }

    /// `rgce` = the token bytes of a BrtFmla record; a decoder error is the error of `worksheet_formula`
    pub fn xlsb_text(rgce: &[u8], ctx: &Ctx) -> Option<String> {
        let host = host(ctx)?;
        let mut book = XlsbBook::new();
        book.framing = Framing::Minimal;
        book.extern_sheets = ctx.xtis.iter().map(|&i| (i as i32, i as i32)).collect();
        for n in &ctx.names {
            book.names.push(DefinedName { name: n.clone(), rgce: vec![0x3a, 0, 0, 0, 0, 0, 0, 0, 0], itab: 0xFFFF_FFFF });
        }
        for name in sheet_names(ctx) {
            let mut sh = XlsbSheet::new(&name);
            if name == host {
                sh.set(0, 0, BVal::real(1.0)).fmla = Some(Fmla { flags: 0, rgce: rgce.to_vec(), rgcb: vec![] });
            }
            book.sheets.push(sh);
        }
        let bytes = book.to_bytes();
        let r = guarded(|| match Xlsb::new(Cursor::new(bytes)) {
            Ok(mut wb) => match wb.worksheet_formula(&host) {
                Ok(rg) => format!("ok:{}", rg.get_value((0, 0)).cloned().unwrap_or_default()),
                Err(e) => format!("err:{e:?}"),
            },
            Err(e) => format!("open-err:{e:?}"),
        });
        Some(r.unwrap_or_else(|p| format!("panic:{p}")))
    }

    /// column letters 0..=16383 (the 14-bit column field): one xlsb sheet, cell n holds the formula PtgRef(row 0,
    /// column n, both relative), text = letters + "1"
    pub fn col_table() -> &'static Vec<String> {
        static T: std::sync::OnceLock<Vec<String>> = std::sync::OnceLock::new();
        T.get_or_init(|| {
            let mut book = XlsbBook::new();
            book.framing = Framing::Minimal;
            let mut sh = XlsbSheet::new("S1");
            for n in 0..16384u32 {
                let mut rgce = vec![0x24u8, 0, 0, 0, 0];
                rgce.extend_from_slice(&(n as u16 | 0xC000).to_le_bytes());
                sh.set(n / 128, n % 128, BVal::real(1.0)).fmla = Some(Fmla { flags: 0, rgce, rgcb: vec![] });
            }
            book.sheets.push(sh);
            let bytes = book.to_bytes();
            let r = guarded(|| -> Result<Vec<String>, String> {
                let mut wb = Xlsb::new(Cursor::new(bytes)).map_err(|e| format!("{e:?}"))?;
                let rg = wb.worksheet_formula("S1").map_err(|e| format!("{e:?}"))?;
                Ok((0..16384u32)
                    .map(|n| {
                        let t = rg.get_value((n / 128, n % 128)).cloned().unwrap_or_default();
                        t.strip_suffix('1').map(|x| x.to_string()).unwrap_or(format!("<{t}>"))
                    })
                    .collect())
            });
            match r {
                Ok(Ok(v)) => v,
                Ok(Err(e)) => vec![format!("file-err:{e}"); 16384],
                Err(p) => vec![format!("panic:{p}"); 16384],
            }
        })
    }

    /// `parse_defined_names` through the Lbl record of a workbook with one sheet `S1` and four XTI entries naming
    /// it: the reported formula is `<sheet>!<text>` with the sheet the ixti resolves to
    pub fn defined_name(rgce: &[u8]) -> String {
        let mut rng = Rng::new(1);
        let mut book = XlsBook::new();
        book.xtis = vec![(0, 0, 0); 4];
        book.names.push(XlsName { name: "N".into(), rgce: rgce.to_vec(), name_wide: None, itab: 0 });
        book.sheets.push(XlsSheet::new("S1"));
        let bytes = book.to_bytes(&mut rng);
        match guarded(|| Xls::new(Cursor::new(bytes))) {
            Ok(Ok(wb)) => match wb.defined_names().iter().find(|(n, _)| n == "N") {
                Some((_, f)) => format!("ok:{f}"),
                None => "name-missing".into(),
            },
            Ok(Err(e)) => format!("err:{e:?}"),
            Err(_) => "panic".into(),
        }
    }
}

/// `ok:<hex>` / `err:<hex>` / `panic` from the driver → comparable text; `<num:bits>` → Rust's Display
fn decode_model(s: &str) -> String {
    if let Some(h) = s.strip_prefix("ok:") {
        format!("ok:{}", subst_num(&String::from_utf8(unhex(h)).unwrap()))
    } else if let Some(h) = s.strip_prefix("err:") {
        format!("err:{}", String::from_utf8(unhex(h)).unwrap())
    } else {
        s.to_string()
    }
}

fn subst_num(s: &str) -> String {
    let mut out = String::with_capacity(s.len());
    let mut rest = s;
    while let Some(i) = rest.find("<num:") {
        let tail = &rest[i + 5..];
        if tail.len() >= 17 && tail.as_bytes()[16] == b'>' && tail[..16].bytes().all(|c| c.is_ascii_hexdigit()) {
            out.push_str(&rest[..i]);
            let bits = u64::from_str_radix(&tail[..16], 16).unwrap();
            out.push_str(&format!("{}", f64::from_bits(bits)));
            rest = &tail[17..];
        } else {
            out.push_str(&rest[..i + 5]);
            rest = tail;
        }
    }
    out.push_str(rest);
    out
}

/// impl result without the panic message (the model only says `panic`)
fn strip_panic(s: &str) -> String {
    if s.starts_with("panic:") {
        "panic".into()
    } else {
        s.to_string()
    }
}

struct Fail {
    kind: &'static str,
    sig: String,
    imp: String,
    model: String,
    expect: String,
}

fn field<'a>(reply: &'a str, key: &str) -> &'a str {
    for w in reply.split(' ') {
        if let Some(v) = w.strip_prefix(key) {
            return v;
        }
    }
    panic!("driver reply lacks {key}: {}", &reply[..reply.len().min(300)])
}

/// one expression through both formats; returns the failures (format, …)
fn run_expr(e: &Expr, ctx: &Ctx, drv: &mut Driver) -> Vec<Fail> {
    let mut fails = vec![];
    let reply = drv.ask(&format!("enc {} | {}", ctx.wire(), e.wire()));
    if reply == "bad-request" {
        fails.push(Fail { kind: "model_vs_spec", sig: "driver_rejects_expr".into(), imp: String::new(), model: reply, expect: String::new() });
        return fails;
    }
    let mut oracle = String::new();
    e.render(ctx, &mut oracle);
    let expect = format!("ok:{oracle}");
    let lean_text = subst_num(&String::from_utf8(unhex(field(&reply, "text="))).unwrap());
    if lean_text != oracle {
        fails.push(Fail { kind: "model_vs_spec", sig: "renderA1_vs_oracle".into(), imp: String::new(), model: lean_text, expect: oracle.clone() });
    }
    let fmts: &[(&str, &str, &str)] = &[("xls", "xls=", "mx="), ("xlsb", "xlsb=", "mb=")];
    for (fmt, bk, mk) in fmts {
        if *fmt == "xls" && !e.fits_xls() {
            continue;
        }
        let bytes = unhex(field(&reply, bk));
        if *fmt == "xls" && bytes.len() > 65535 + 2 {
            continue;
        }
        let model = decode_model(field(&reply, mk));
        let Some(imp_full) = (if *fmt == "xls" { impl_xls(&bytes, ctx) } else { impl_xlsb(&bytes, ctx) }) else {
            if model != expect {
                fails.push(Fail { kind: "model_vs_spec", sig: format!("{fmt}_{}", e.kind()), imp: String::new(), model, expect: expect.clone() });
            }
            continue;
        };
        let imp = strip_panic(&imp_full);
        if imp != expect {
            fails.push(Fail { kind: "impl_vs_spec", sig: format!("{fmt}_{}", e.kind()), imp: imp_full.clone(), model: model.clone(), expect: expect.clone() });
        }
        if imp != model {
            fails.push(Fail { kind: "impl_vs_model", sig: format!("{fmt}_{}", e.kind()), imp: imp_full.clone(), model: model.clone(), expect: expect.clone() });
        }
        if model != expect {
            fails.push(Fail { kind: "model_vs_spec", sig: format!("{fmt}_{}", e.kind()), imp: imp_full, model, expect: expect.clone() });
        }
    }
    fails
}

/// smallest sub-expression that still fails in the same way (kind, format)
fn shrink_expr(e: &Expr, ctx: &Ctx, kind: &str, fmt: &str, drv: &mut Driver) -> Expr {
    let mut cur = e.clone();
    loop {
        let mut next = None;
        for c in cur.children() {
            let f = run_expr(c, ctx, drv);
            if f.iter().any(|x| x.kind == kind && x.sig.starts_with(fmt)) {
                next = Some(c.clone());
                break;
            }
        }
        match next {
            Some(n) => cur = n,
            None => return cur,
        }
    }
}

/// raw token bytes (possibly malformed): impl vs model; a panic of the implementation is reported
/// against the property side as a robustness finding (C06 matter), classed by its message
fn run_raw(fmt: &str, bytes: &[u8], ctx: &Ctx, drv: &mut Driver, sig_override: Option<&str>) -> Vec<Fail> {
    let mut fails = vec![];
    let model = decode_model(&drv.ask(&format!("{fmt} {} {}", hex(bytes), ctx.wire())));
    let Some(imp_full) = (if fmt == "xls" { impl_xls(bytes, ctx) } else { impl_xlsb(bytes, ctx) }) else {
        return fails;
    };
    let imp = strip_panic(&imp_full);
    if let Some(msg) = imp_full.strip_prefix("panic:") {
        let sig = sig_override.map(|s| s.to_string()).unwrap_or(format!("{fmt}_panic_{}", panic_class(msg)));
        fails.push(Fail { kind: "impl_vs_spec", sig, imp: imp_full.clone(), model: model.clone(), expect: "no panic (Ok or Err)".into() });
    }
    if imp != model {
        let sig = sig_override.map(|s| s.to_string()).unwrap_or(format!("{fmt}_raw"));
        fails.push(Fail { kind: "impl_vs_model", sig, imp: imp_full, model, expect: String::new() });
    }
    fails
}

fn le16(v: u16) -> [u8; 2] {
    v.to_le_bytes()
}

fn frame_xls(body: &[u8]) -> Vec<u8> {
    let mut v = le16(body.len() as u16).to_vec();
    v.extend_from_slice(body);
    v
}

/// random mutation of a valid body / random opcode soup
fn gen_raw(rng: &mut Rng, fmt: &str, valid: &[u8]) -> Vec<u8> {
    let mut body: Vec<u8> = if fmt == "xls" { valid[2.min(valid.len())..].to_vec() } else { valid.to_vec() };
    match rng.below(6) {
        0 => {
            // truncate
            let k = rng.below(body.len() as u64 + 1) as usize;
            body.truncate(k);
        }
        1 => {
            if !body.is_empty() {
                let i = rng.below(body.len() as u64) as usize;
                body[i] = rng.next() as u8;
            }
        }
        2 => {
            let i = rng.below(body.len() as u64 + 1) as usize;
            body.insert(i, *rng.pick(&[0x03u8, 0x12, 0x15, 0x16, 0x17, 0x19, 0x1c, 0x1e, 0x21, 0x22, 0x23, 0x24, 0x25, 0x29, 0x3a, 0x3b, 0x41, 0x42]));
        }
        3 => {
            if !body.is_empty() {
                let i = rng.below(body.len() as u64) as usize;
                body.remove(i);
            }
        }
        4 => {
            // opcode soup
            let n = rng.range(1, 8);
            body = (0..n)
                .flat_map(|_| {
                    let op = if rng.chance(4, 5) { rng.below(0x80) as u8 } else { rng.next() as u8 };
                    let k = rng.below(6) as usize;
                    let mut v = vec![op];
                    v.extend(rng.bytes(k).iter().map(|b| if rng.chance(1, 2) { *b } else { b % 4 }));
                    v
                })
                .collect();
        }
        _ => {
            // PtgStr with arbitrary code units (lone surrogates and byte-order marks included)
            let n = rng.range(0, 6) as usize;
            let units: Vec<u16> = (0..n)
                .map(|_| match rng.below(4) {
                    0 => rng.range(0xD800, 0xDFFF) as u16,
                    1 => *rng.pick(&[0x41u16, 0xFEFF, 0xFFFE, 0xBBEF, 0xBF]),
                    _ => rng.next() as u16,
                })
                .collect();
            body = vec![0x17];
            if fmt == "xls" {
                body.push(n as u8);
                body.push(1);
            } else {
                body.extend_from_slice(&le16(n as u16));
            }
            for u in units {
                body.extend_from_slice(&le16(u));
            }
        }
    }
    if fmt == "xlsb" && rng.chance(1, 12) {
        // PtgMemFunc wrappers around the body, around the nesting limit
        let k = *rng.pick(&[1usize, 2, 3, 62, 63, 64, 65, 66, 70]);
        for _ in 0..k {
            if body.len() > 60000 {
                break;
            }
            let mut w = vec![*rng.pick(&[0x29u8, 0x49, 0x69])];
            w.extend_from_slice(&le16(body.len() as u16));
            w.extend_from_slice(&body);
            body = w;
        }
    }
    if fmt == "xls" {
        if rng.chance(1, 20) {
            // inconsistent cce
            let mut v = le16(rng.below(body.len() as u64 + 3) as u16).to_vec();
            v.extend_from_slice(&body);
            v
        } else {
            frame_xls(&body)
        }
    } else {
        body
    }
}

// ------------------------------------------------------------------------------------------------
// corpus: every defect ever found, minimal (input syntax = replay syntax)
// ------------------------------------------------------------------------------------------------

fn corpus() -> Vec<&'static str> {
    vec![
        // D06 push_column dropped the most significant letter for col >= 26
        "col 26",
        "col 255",
        "col 702",
        "col 16383",
        // D07 PtgRef `$` taken from the other component's flag (row relative only → `$B1`)
        "enc S=5331 N= X=0 | R 0 0 1 1 0",
        "enc S=5331 N= X=0 | R 1 0 1 0 1",
        // D08 PtgArea flags ignored, column not masked (relative A1:B2)
        "enc S=5331 N= X=0 | A 0 0 0 0 0 1 1 0 0",
        // D08 xlsb Ref3d / Area3d
        "enc S=5331,5332 N= X=1 | R3 0 0 0 1 0 0",
        "enc S=5331,5332 N= X=1 | A3 0 0 0 0 0 0 1 1 0 0",
        // D09 xls PtgRef3d `colu << 2`, `$` from column bits
        "enc S=5330,5331,5332 N= X=2 | R3 0 0 0 1 0 1",
        // D10 xls PtgArea3d / RefErr3d / AreaErr3d index sheets by ixti, not through XTI
        "enc S=5330,5331,5332 N= X=2 | A3 0 0 0 0 1 1 1 1 1 1",
        "toks S=5330,5331,5332 N= X=2 | refErr3d,0,0",
        "toks S=5330,5331,5332 N= X=2 | areaErr3d,0,0",
        // D35 16-bit PtgStr read as 1 byte per character: "Жы"&7
        "enc S=5331 N= X=0 | OP 8 S 1 1046,1099 I 7",
        // D33 iftab == FTAB_LEN (485) must be rejected, not panic
        "raw D33_iftab_eq_len xls 030021e501 S=5331 N= X=0",
        "raw D33_iftab_eq_len xlsb 21e501 S=5331 N= X=0",
        // row 65535 in xls references (u16 `row + 1` overflowed before the D07 rewrite)
        "enc S=5331 N= X=0 | R 0 65535 0 0 0",
        "enc S=5331 N= X=0 | R3 0 0 65535 0 0 0",
        // truncated tokens: unchecked rgce slices panicked (fixed b768c99: XlsError::Len / short_record)
        "raw - xls 010024 S=5331 N= X=0",
        "raw - xlsb 2400 S=5331 N= X=0",
        "raw - xls 03002401ff S=5331 N= X=0",
        "raw - xlsb 170500410042 S=5331 N= X=0",
        "raw - xlsb 2905001e01 S=5331 N= X=0",
        // PtgFuncVar with iftab >= 485 indexed FTAB unchecked (cparams = 0 in xls, always in xlsb) (fixed b768c99)
        "raw - xls 04004200ff01 S=5331 N= X=0",
        "raw - xlsb 4200ff01 S=5331 N= X=0",
        "raw - xlsb 1e01002201ff7f S=5331 N= X=0",
        // PtgName with name index 0: `as usize - 1` underflow (fixed b768c99: #REF! / empty)
        "raw - xls 05002300000000 S=5331 N= X=0",
        "raw - xlsb 2300000000 S=5331 N=4d794e616d65 X=0",
        // xlsb 3-D reference with an extern-sheet index outside the table: `&sheets[ixti]` (fixed b768c99: #REF)
        "raw - xlsb 3a05000000000000c0 S=5331 N= X=",
        "raw - xlsb 3b0500000000000100000000c001c0 S=5331 N= X=0",
        "raw - xlsb 3c05000000000000c0 S=5331 N= X=0",
        // new-C14-a FTAB_ARGC listed MMULT (165) with 1 argument: =MMULT(A1:B2,C1:D2) written as PtgFunc could not be decoded
        "enc S=5331 N= X=0 | FN 1 165 2 A 0 0 0 0 0 1 1 0 0 A 0 0 2 0 0 1 3 0 0",
        // new-C14-b xlsb PtgStr sniffed a byte-order mark in a string literal (U+FEFF dropped, U+FFFE / U+BBEF U+xxBF re-decoded)
        "enc S=5331 N= X=0 | S 1 65279,65",
        "enc S=5331 N= X=0 | S 1 65534,65",
        "enc S=5331 N= X=0 | S 1 48111,191,65",
        // P4 xlsb PtgAttrChoose skipped 10 bytes whatever cOffset: CHOOSE with other than 4 arguments failed (Ptg(0) …)
        "enc S=5331 N= X=0 | FV 0 100 3 AC 6,10,14 I 1 AT 8 3 I 2 AT 8 0 I 3",
        "enc S=5331 N= X=0 | FV 0 100 4 AC 8,12,16,20 I 1 AT 8 3 I 2 AT 8 3 I 3 AT 8 0 I 4",
        "enc S=5331 N= X=0 | FV 0 100 5 AC 10,14,18,22,26 I 1 AT 8 3 I 2 AT 8 3 I 3 AT 8 3 I 4 AT 8 0 I 5",
        "enc S=5331 N= X=0 | FV 0 1 3 AT 2 5 B 1 AT 8 9 I 2 AT 8 3 I 3",
        // P5 xlsb PtgMemFunc nested without bound: stack overflow (abort); run in a child process with a 256 KiB stack
        // more than 255 operands pending at once: 7+SUM(255 args), SUM(200 args, SUM(100 args))
        "enc S=5331 N= X=0 | OP 3 I 7 FV 0 4 255 I 0 I 1 I 2 I 3 I 4 I 5 I 6 I 7 I 8 I 9 I 10 I 11 I 12 I 13 I 14 I 15 I 16 I 17 I 18 I 19 I 20 I 21 I 22 I 23 I 24 I 25 I 26 I 27 I 28 I 29 I 30 I 31 I 32 I 33 I 34 I 35 I 36 I 37 I 38 I 39 I 40 I 41 I 42 I 43 I 44 I 45 I 46 I 47 I 48 I 49 I 50 I 51 I 52 I 53 I 54 I 55 I 56 I 57 I 58 I 59 I 60 I 61 I 62 I 63 I 64 I 65 I 66 I 67 I 68 I 69 I 70 I 71 I 72 I 73 I 74 I 75 I 76 I 77 I 78 I 79 I 80 I 81 I 82 I 83 I 84 I 85 I 86 I 87 I 88 I 89 I 90 I 91 I 92 I 93 I 94 I 95 I 96 I 97 I 98 I 99 I 100 I 101 I 102 I 103 I 104 I 105 I 106 I 107 I 108 I 109 I 110 I 111 I 112 I 113 I 114 I 115 I 116 I 117 I 118 I 119 I 120 I 121 I 122 I 123 I 124 I 125 I 126 I 127 I 128 I 129 I 130 I 131 I 132 I 133 I 134 I 135 I 136 I 137 I 138 I 139 I 140 I 141 I 142 I 143 I 144 I 145 I 146 I 147 I 148 I 149 I 150 I 151 I 152 I 153 I 154 I 155 I 156 I 157 I 158 I 159 I 160 I 161 I 162 I 163 I 164 I 165 I 166 I 167 I 168 I 169 I 170 I 171 I 172 I 173 I 174 I 175 I 176 I 177 I 178 I 179 I 180 I 181 I 182 I 183 I 184 I 185 I 186 I 187 I 188 I 189 I 190 I 191 I 192 I 193 I 194 I 195 I 196 I 197 I 198 I 199 I 200 I 201 I 202 I 203 I 204 I 205 I 206 I 207 I 208 I 209 I 210 I 211 I 212 I 213 I 214 I 215 I 216 I 217 I 218 I 219 I 220 I 221 I 222 I 223 I 224 I 225 I 226 I 227 I 228 I 229 I 230 I 231 I 232 I 233 I 234 I 235 I 236 I 237 I 238 I 239 I 240 I 241 I 242 I 243 I 244 I 245 I 246 I 247 I 248 I 249 I 250 I 251 I 252 I 253 I 254",
        "enc S=5331 N= X=0 | FV 0 4 201 I 0 I 1 I 2 I 3 I 4 I 5 I 6 I 7 I 8 I 9 I 10 I 11 I 12 I 13 I 14 I 15 I 16 I 17 I 18 I 19 I 20 I 21 I 22 I 23 I 24 I 25 I 26 I 27 I 28 I 29 I 30 I 31 I 32 I 33 I 34 I 35 I 36 I 37 I 38 I 39 I 40 I 41 I 42 I 43 I 44 I 45 I 46 I 47 I 48 I 49 I 50 I 51 I 52 I 53 I 54 I 55 I 56 I 57 I 58 I 59 I 60 I 61 I 62 I 63 I 64 I 65 I 66 I 67 I 68 I 69 I 70 I 71 I 72 I 73 I 74 I 75 I 76 I 77 I 78 I 79 I 80 I 81 I 82 I 83 I 84 I 85 I 86 I 87 I 88 I 89 I 90 I 91 I 92 I 93 I 94 I 95 I 96 I 97 I 98 I 99 I 100 I 101 I 102 I 103 I 104 I 105 I 106 I 107 I 108 I 109 I 110 I 111 I 112 I 113 I 114 I 115 I 116 I 117 I 118 I 119 I 120 I 121 I 122 I 123 I 124 I 125 I 126 I 127 I 128 I 129 I 130 I 131 I 132 I 133 I 134 I 135 I 136 I 137 I 138 I 139 I 140 I 141 I 142 I 143 I 144 I 145 I 146 I 147 I 148 I 149 I 150 I 151 I 152 I 153 I 154 I 155 I 156 I 157 I 158 I 159 I 160 I 161 I 162 I 163 I 164 I 165 I 166 I 167 I 168 I 169 I 170 I 171 I 172 I 173 I 174 I 175 I 176 I 177 I 178 I 179 I 180 I 181 I 182 I 183 I 184 I 185 I 186 I 187 I 188 I 189 I 190 I 191 I 192 I 193 I 194 I 195 I 196 I 197 I 198 I 199 FV 0 4 100 I 0 I 1 I 2 I 3 I 4 I 5 I 6 I 7 I 8 I 9 I 10 I 11 I 12 I 13 I 14 I 15 I 16 I 17 I 18 I 19 I 20 I 21 I 22 I 23 I 24 I 25 I 26 I 27 I 28 I 29 I 30 I 31 I 32 I 33 I 34 I 35 I 36 I 37 I 38 I 39 I 40 I 41 I 42 I 43 I 44 I 45 I 46 I 47 I 48 I 49 I 50 I 51 I 52 I 53 I 54 I 55 I 56 I 57 I 58 I 59 I 60 I 61 I 62 I 63 I 64 I 65 I 66 I 67 I 68 I 69 I 70 I 71 I 72 I 73 I 74 I 75 I 76 I 77 I 78 I 79 I 80 I 81 I 82 I 83 I 84 I 85 I 86 I 87 I 88 I 89 I 90 I 91 I 92 I 93 I 94 I 95 I 96 I 97 I 98 I 99",
        // more than 1024 shared-formula groups alive at once (a wide filled-down table)
        "xlsxshared 1500 7",
        "deep xlsb 10000",
        "deep xlsb 63",
        "deep xlsb 64",
        "deep xlsb 65",
        // the last row / last column of every format carry formulas like any other (a formula just above keeps the dense
        // range small): xls 65535 / 255 (the same file is also written as xlsb), xlsb and xlsx 1048575 / 16383, ods row
        // 1048575; and the first row / column next to the last column / row
        "file S=5331 N= X=0 | 0 65534 0 I 1 ; 0 65535 1 I 2 #",
        "file S=5331 N= X=0 | 0 65534 254 I 1 ; 0 65535 255 R 0 65535 255 1 1 #",
        "file S=5331 N= X=0 | 0 0 0 I 1 ; 0 1 255 I 2 #",
        "file S=5331 N= X=0 | 0 0 0 I 1 ; 0 65535 1 I 2 #",
        "file S=5331 N= X=0 | 0 1048574 0 I 1 ; 0 1048575 1 I 2 #",
        "file S=5331 N= X=0 | 0 1048574 16382 I 1 ; 0 1048575 16383 R 0 1048575 16383 1 1 #",
        "file S=5331 N= X=0 | 0 0 0 I 1 ; 0 1 16383 I 2 #",
        "file S=5331,5332 N= X=0,1 | 0 1048575 0 I 1 ; 1 1048575 16383 I 2 #",
        "xlsxf 7 | 0 1048574 0 1 41312b31 ; 0 1048575 1 0 53554d2841313a413329 # 1",
        "xlsxf 11 | 0 1048574 16382 1 41312b31 ; 0 1048575 16383 1 584644313034383537352a32 # 1",
        "xlsxf 13 | 0 0 0 1 312b31 ; 0 1 16383 0 4131 # 1",
        "xlsxf 17 | 0 1048575 16383 1 58464431303438353736 # 1",
        "odsf 1048574:_1 1:g6f663a3d5b2e41315d2b31 1:_1,f6f663a3d53554d285b2e41313a2e41335d29",
        "odsf 1:g6f663a3d31,_1020,f6f663a3d32",
        // well-formed odds and ends
        "enc S=5331 N=4d794e616d65 X=0 | FV 0 4 3 OP 3 R 0 0 27 1 0 I 2 U- PAR N 1 0 M",
        "enc S=5331 N= X=0 | FN 1 19 0",
        "enc S=5331 N= X=0 | SUM A 0 0 0 1 1 9 0 1 1",
        "toks S=5331 N= X=0 | int,1;attrSkip,1,0;int,2;binop,3",
        "dn 3a0100040002c0",
        "dn 3b000000000100030004c0",
        "dn -",
        "dn 99",
    ]
}

fn ftab_golden() -> Vec<(usize, &'static str, Option<u8>)> {
    // [MS-XLS] 2.5.198.17 Ftab: names (and fixed parameter counts) written down independently of the source table
    vec![
        (0, "COUNT", None),
        (1, "IF", None),
        (2, "ISNA", Some(1)),
        (3, "ISERROR", Some(1)),
        (4, "SUM", None),
        (5, "AVERAGE", None),
        (6, "MIN", None),
        (7, "MAX", None),
        (10, "NA", Some(0)),
        (15, "SIN", Some(1)),
        (16, "COS", Some(1)),
        (17, "TAN", Some(1)),
        (18, "ATAN", Some(1)),
        (19, "PI", Some(0)),
        (20, "SQRT", Some(1)),
        (21, "EXP", Some(1)),
        (22, "LN", Some(1)),
        (23, "LOG10", Some(1)),
        (24, "ABS", Some(1)),
        (25, "INT", Some(1)),
        (26, "SIGN", Some(1)),
        (27, "ROUND", Some(2)),
        (30, "REPT", Some(2)),
        (31, "MID", Some(3)),
        (32, "LEN", Some(1)),
        (33, "VALUE", Some(1)),
        (34, "TRUE", Some(0)),
        (35, "FALSE", Some(0)),
        (36, "AND", None),
        (37, "OR", None),
        (38, "NOT", Some(1)),
        (39, "MOD", Some(2)),
        (48, "TEXT", Some(2)),
        (63, "RAND", Some(0)),
        (65, "DATE", Some(3)),
        (66, "TIME", Some(3)),
        (67, "DAY", Some(1)),
        (68, "MONTH", Some(1)),
        (69, "YEAR", Some(1)),
        (71, "HOUR", Some(1)),
        (72, "MINUTE", Some(1)),
        (73, "SECOND", Some(1)),
        (74, "NOW", Some(0)),
        (76, "ROWS", Some(1)),
        (77, "COLUMNS", Some(1)),
        (83, "TRANSPOSE", Some(1)),
        (97, "ATAN2", Some(2)),
        (98, "ASIN", Some(1)),
        (99, "ACOS", Some(1)),
        (100, "CHOOSE", None),
        (101, "HLOOKUP", None),
        (102, "VLOOKUP", None),
        (111, "CHAR", Some(1)),
        (112, "LOWER", Some(1)),
        (113, "UPPER", Some(1)),
        (114, "PROPER", Some(1)),
        (117, "EXACT", Some(2)),
        (118, "TRIM", Some(1)),
        (119, "REPLACE", Some(4)),
        (121, "CODE", Some(1)),
        (126, "ISERR", Some(1)),
        (127, "ISTEXT", Some(1)),
        (128, "ISNUMBER", Some(1)),
        (129, "ISBLANK", Some(1)),
        (130, "T", Some(1)),
        (131, "N", Some(1)),
        (140, "DATEVALUE", Some(1)),
        (141, "TIMEVALUE", Some(1)),
        (142, "SLN", Some(3)),
        (143, "SYD", Some(4)),
        (162, "CLEAN", Some(1)),
        (163, "MDETERM", Some(1)),
        (164, "MINVERSE", Some(1)),
        (165, "MMULT", Some(2)),
        (169, "COUNTA", None),
        (183, "PRODUCT", None),
        (184, "FACT", Some(1)),
        (190, "ISNONTEXT", Some(1)),
        (198, "ISLOGICAL", Some(1)),
        (212, "ROUNDUP", Some(2)),
        (213, "ROUNDDOWN", Some(2)),
        (221, "TODAY", Some(0)),
        (227, "MEDIAN", None),
        (228, "SUMPRODUCT", None),
        (229, "SINH", Some(1)),
        (230, "COSH", Some(1)),
        (231, "TANH", Some(1)),
        (336, "CONCATENATE", None),
        (337, "POWER", Some(2)),
        (342, "RADIANS", Some(1)),
        (343, "DEGREES", Some(1)),
        (345, "SUMIF", None),
        (346, "COUNTIF", Some(2)),
        (347, "COUNTBLANK", Some(1)),
    ]
}

// ------------------------------------------------------------------------------------------------

/// largest column the build can present to `push_column`: any `u32` through the hook (the sweep covers the u16
/// domain), the 14-bit column field of a PtgRef through a file
#[cfg(feature = "hooks")]
const COL_MAX: u32 = 65535;
#[cfg(not(feature = "hooks"))]
const COL_MAX: u32 = 16383;

#[cfg(feature = "hooks")]
fn impl_col(n: u32) -> Option<String> {
    Some(match guarded(|| {
        let mut s = String::new();
        push_column(n, &mut s);
        s
    }) {
        Ok(s) => s,
        Err(p) => format!("panic:{p}"),
    })
}

#[cfg(not(feature = "hooks"))]
fn impl_col(n: u32) -> Option<String> {
    nohooks::col_table().get(n as usize).cloned()
}

fn run_col(n: u32, drv: &mut Driver, rep: &mut Report) {
    let model = drv.ask(&format!("col {n}"));
    let expect = col_oracle(n);
    let input = format!("col {n}");
    rep.case(&input, n >= 26);
    let imp = impl_col(n);
    match &imp {
        Some(imp) => {
            if *imp != expect {
                rep.fail("impl_vs_spec", "push_column", &input, imp, &model, &expect);
            }
            if *imp != model {
                rep.fail("impl_vs_model", "push_column", &input, imp, &model, &expect);
            }
        }
        None => rep.count("skipped.hooks_unavailable.col_above_16383"),
    }
    if model != expect {
        rep.fail("model_vs_spec", "push_column", &input, &imp.unwrap_or_default(), &model, &expect);
    }
}

/// complete sweep of the column domain (0..=COL_MAX): per value impl vs oracle, per block impl vs model (checksum)
fn sweep_cols(drv: &mut Driver, rep: &mut Report) {
    let block = 4096u32;
    let mut lo = 0u32;
    let mut first_bad: Option<u32> = None;
    let imp_col = |n: u32| impl_col(n).unwrap_or_default();
    while lo <= COL_MAX {
        let hi = (lo + block - 1).min(COL_MAX);
        let mut buf = Vec::with_capacity(block as usize * 4);
        for n in lo..=hi {
            let s = imp_col(n);
            if s != col_oracle(n) && first_bad.is_none() {
                first_bad = Some(n);
            }
            buf.extend_from_slice(s.as_bytes());
            buf.push(b'\n');
        }
        let imp_sum = fnv64(&buf).to_string();
        let model_sum = drv.ask(&format!("sweep col {lo} {hi}"));
        if imp_sum != model_sum {
            // locate the first disagreeing column of the block
            let mut found = false;
            for n in lo..=hi {
                let m = drv.ask(&format!("col {n}"));
                let i = imp_col(n);
                if m != i {
                    rep.fail("impl_vs_model", "push_column", &format!("col {n}"), &i, &m, &col_oracle(n));
                    found = true;
                    break;
                }
            }
            if !found {
                rep.fail("impl_vs_model", "push_column_checksum", &format!("sweep col {lo} {hi}"), &imp_sum, &model_sum, "");
            }
        }
        rep.bulk((hi - lo + 1) as u64, (hi - lo + 1) as u64, &format!("sweep col {lo} {hi} -> fnv {imp_sum}"));
        lo = hi + 1;
    }
    if let Some(n) = first_bad {
        rep.fail("impl_vs_spec", "push_column", &format!("col {n}"), &imp_col(n), "", &col_oracle(n));
    }
    rep.count(&format!("col_sweep_complete_0_{COL_MAX}"));
}

fn report_expr_case(e: &Expr, ctx: &Ctx, drv: &mut Driver, rep: &mut Report, shrunk: &mut u32) {
    let input = format!("enc {} | {}", ctx.wire(), e.wire());
    rep.case(&input, e.depth() >= 2);
    e.count_kinds(rep);
    rep.count(&format!("depth.{}", e.depth().min(7)));
    if !e.fits_xls() {
        rep.count("xlsb_only(wide rows/cols or long string)");
    }
    let fails = run_expr(e, ctx, drv);
    for f in fails {
        if f.kind != "model_vs_spec" && *shrunk < 40 && !e.children().is_empty() {
            *shrunk += 1;
            let fmt = f.sig.split('_').next().unwrap().to_string();
            let small = shrink_expr(e, ctx, f.kind, &fmt, drv);
            let f2 = run_expr(&small, ctx, drv);
            if let Some(g) = f2.iter().find(|g| g.kind == f.kind && g.sig.starts_with(&fmt)) {
                rep.fail(g.kind, &g.sig, &format!("enc {} | {}", ctx.wire(), small.wire()), &g.imp, &g.model, &g.expect);
                continue;
            }
        }
        rep.fail(f.kind, &f.sig, &input, &f.imp, &f.model, &f.expect);
    }
}


// ------------------------------------------------------------------------------------------------
// stage 2: formulas at their cells, through generated files and `worksheet_formula`
// ------------------------------------------------------------------------------------------------

/// one generated workbook: context + formula cells `(sheet, row, col, expr)`
struct FileCase {
    ctx: Ctx,
    cells: Vec<(usize, u32, u32, Expr)>,
    /// xls only: formula cells whose rgce (hex, without cce) the decoder gives up on after some operands
    bad: Vec<(usize, u32, u32, String)>,
}

impl FileCase {
    fn wire(&self) -> String {
        let mut s = format!("file {} |", self.ctx.wire());
        for (i, (sh, r, c, e)) in self.cells.iter().enumerate() {
            if i > 0 {
                s.push_str(" ;");
            }
            s.push_str(&format!(" {sh} {r} {c} {}", e.wire()));
        }
        s.push_str(" #");
        for (sh, r, c, h) in &self.bad {
            s.push_str(&format!(" {sh} {r} {c} {h}"));
        }
        s
    }
    fn parse(words: &[&str]) -> FileCase {
        let bar = words.iter().position(|w| *w == "|").unwrap();
        let hash = words.iter().position(|w| *w == "#").unwrap_or(words.len());
        let ctx = Ctx::parse(&words[1..bar].join(" "));
        let mut cells = vec![];
        for chunk in words[bar + 1..hash].split(|w| *w == ";") {
            if chunk.is_empty() {
                continue;
            }
            let mut it = chunk[3..].iter();
            cells.push((chunk[0].parse().unwrap(), chunk[1].parse().unwrap(), chunk[2].parse().unwrap(), Expr::parse(&mut it)));
        }
        let mut bad = vec![];
        if hash < words.len() {
            for q in words[hash + 1..].chunks(4) {
                bad.push((q[0].parse().unwrap(), q[1].parse().unwrap(), q[2].parse().unwrap(), q[3].to_string()));
            }
        }
        FileCase { ctx, cells, bad }
    }
}

fn rep_dangling(ctx: &mut Ctx, rng: &mut Rng) {
    if rng.chance(1, 2) {
        ctx.xtis.push(-3);
    }
}

fn gen_file_case(rng: &mut Rng, wide: bool) -> FileCase {
    let mut ctx = gen_ctx(rng);
    let o = GenOpts { wide };
    let mut cells = vec![];
    let mut bad = vec![];
    if rng.chance(1, 8) {
        // dangling XTI entries (deleted / external sheets): impl vs model only
        ctx.xtis.push(*rng.pick(&[-1i16, -2, 9, 300]));
        rep_dangling(&mut ctx, rng);
    }
    // sometimes the first tabs carry no cells (they may then be written as chart / module / macro sheets)
    let empty_tabs = if ctx.sheets.len() >= 2 && rng.chance(1, 3) { rng.range(1, ctx.sheets.len() as u64 - 1) as usize } else { 0 };
    for sh in 0..ctx.sheets.len() {
        if sh < empty_tabs {
            continue;
        }
        // a window of at most 64 x 32 cells anywhere in the sheet (dense Range: bounding box stays small)
        let max_row: u32 = if wide { 1_048_575 } else { 65_535 };
        let max_col: u32 = if wide { 16_383 } else { 255 };
        let r0 = match rng.below(4) {
            0 => 0,
            1 => max_row - 63,
            _ => rng.below(max_row as u64 - 62) as u32,
        };
        let c0 = match rng.below(4) {
            0 => 0,
            1 => max_col - 31,
            _ => rng.below(max_col as u64 - 30) as u32,
        };
        let k = rng.range(0, 5);
        let mut used = std::collections::BTreeSet::new();
        for j in 0..k {
            let mut r = r0 + rng.below(64) as u32;
            let mut c = c0 + rng.below(32) as u32;
            // a window that touches an edge of the grid has its first two formula cells ON the edge half of the time:
            // first / last row and first / last column of the format
            if j < 2 && rng.chance(1, 2) {
                if r0 == 0 {
                    r = 0;
                } else if r0 == max_row - 63 {
                    r = max_row;
                }
                if c0 == 0 {
                    c = 0;
                } else if c0 == max_col - 31 {
                    c = max_col;
                }
            }
            if !used.insert((r, c)) {
                continue;
            }
            let e = loop {
                let d = rng.range(0, 3) as u32;
                let e = gen_expr(rng, d, &ctx, &o);
                let mut t = String::new();
                e.render(&ctx, &mut t);
                // a formula whose text is empty cannot be told from "no formula" (xlsb drops it)
                if !t.is_empty() && (wide || e.fits_xls()) {
                    break e;
                }
            };
            cells.push((sh, r, c, e));
        }
        // formulas outside the grammar that the xls decoder gives up on AFTER k >= 1 operands (PtgMemFunc / PtgMemArea /
        // PtgRefN / an unknown function index …): each formula's text depends on its own bytes only, so their
        // neighbours — in the same sheet and in the following sheets — must read exactly as without them
        if !wide && rng.chance(1, 3) {
            for _ in 0..rng.range(1, 2) {
                let r = r0 + rng.below(64) as u32;
                let c = c0 + rng.below(32) as u32;
                if !used.insert((r, c)) {
                    continue;
                }
                let mut rg: Vec<u8> = vec![];
                for _ in 0..rng.range(1, 3) {
                    rg.extend_from_slice(&[0x1e, rng.below(200) as u8, 0]);
                }
                rg.extend_from_slice(match rng.below(5) {
                    0 => &[0x29, 0x03, 0x00, 0x1e, 0x01, 0x00][..],
                    1 => &[0x26, 0, 0, 0, 0, 0, 0][..],
                    2 => &[0x2c, 0, 0, 0, 0][..],
                    3 => &[0x21, 0xf4, 0x01][..],
                    _ => &[0x19, 0x7f, 0, 0][..],
                });
                if rng.chance(1, 2) {
                    rg.extend_from_slice(&[0x1e, 9, 0, 0x03]);
                }
                bad.push((sh, r, c, hex(&rg)));
            }
        }
    }
    FileCase { ctx, cells, bad }
}

/// canonical dump of a formula range: `start end` + every cell of the rectangle (empty strings included)
fn dump_range(start: Option<(u32, u32)>, end: Option<(u32, u32)>, get: &dyn Fn(u32, u32) -> String) -> String {
    match (start, end) {
        (Some(s), Some(e)) => {
            let mut out = format!("{},{}..{},{}", s.0, s.1, e.0, e.1);
            for r in s.0..=e.0 {
                for c in s.1..=e.1 {
                    let t = get(r, c);
                    if !t.is_empty() {
                        out.push_str(&format!(" [{r},{c}]={t}"));
                    }
                }
            }
            out
        }
        _ => "empty".into(),
    }
}

fn expected_dump(cells: &BTreeMap<(u32, u32), String>) -> String {
    if cells.is_empty() {
        return "empty".into();
    }
    let r0 = cells.keys().map(|k| k.0).min().unwrap();
    let r1 = cells.keys().map(|k| k.0).max().unwrap();
    let c0 = cells.keys().map(|k| k.1).min().unwrap();
    let c1 = cells.keys().map(|k| k.1).max().unwrap();
    // same text as `dump_range` over the rectangle, without visiting the (possibly astronomically many) empty
    // positions: the map iterates in row-major order
    let mut out = format!("{r0},{c0}..{r1},{c1}");
    for ((r, c), t) in cells {
        if !t.is_empty() {
            out.push_str(&format!(" [{r},{c}]={t}"));
        }
    }
    out
}

/// `history`: what is done with the workbook object before the formulas are read. The formulas of a sheet do not
/// depend on the header-row option nor on earlier reads (pinned behaviour of all four readers):
/// 0 = nothing, 1 = `worksheet_range` first, n >= 2 = `with_header_row(Row(n - 2))`
fn impl_dump<R: Reader<Cursor<Vec<u8>>>>(wb: &mut R, sheet: &str, history: u32) -> String
where
    R::Error: std::fmt::Debug,
{
    match history {
        0 => {}
        1 => {
            let _ = wb.worksheet_range(sheet);
        }
        n => {
            // (no `worksheet_range` here: a header row far above the data makes the dense value range huge, D37)
            wb.with_header_row(HeaderRow::Row(n - 2));
        }
    }
    let out = impl_dump0(wb, sheet);
    if history >= 2 {
        wb.with_header_row(HeaderRow::FirstNonEmptyRow);
    }
    out
}

/// header-row histories around the rows that hold formulas
fn pick_history(rng: &mut Rng, rows: &[u32]) -> u32 {
    match rng.below(8) {
        0..=2 => 0,
        3 => 1,
        4 => 2 + rng.below(4) as u32,
        5 => 2 + rows.iter().min().copied().unwrap_or(0) + rng.below(3) as u32,
        6 => 2 + rows.iter().max().copied().unwrap_or(0) + rng.below(3) as u32,
        _ => 2 + *rng.pick(&[7u32, 100, 70_000, 2_000_000]),
    }
}

fn impl_dump0<R: Reader<Cursor<Vec<u8>>>>(wb: &mut R, sheet: &str) -> String
where
    R::Error: std::fmt::Debug,
{
    match wb.worksheet_formula(sheet) {
        Ok(rg) => {
            // every cell of the returned rectangle, addressed absolutely
            let (s, e) = (rg.start(), rg.end());
            let mut extra = String::new();
            if let (Some(s), Some(e)) = (s, e) {
                if (e.0 - s.0 + 1) as usize * (e.1 - s.1 + 1) as usize != rg.cells().count() {
                    extra = " SIZE-MISMATCH".into();
                }
            }
            dump_range(s, e, &|r, c| rg.get_value((r, c)).cloned().unwrap_or_else(|| "<none>".into())) + &extra
        }
        Err(e) => format!("err:{e:?}"),
    }
}

/// error class of a reader error: the variant name of its `Debug` text (the Lean models of the record layer name
/// classes, the decoder model gives the full text)
fn err_class(e: &str) -> String {
    let v: String = e.chars().take_while(|c| c.is_ascii_alphanumeric()).collect();
    match v.as_str() {
        "io" => "Io".into(),
        _ => v,
    }
}

/// `XlsbFormula.sheetFormulas` (Lean) on the bytes of a worksheet part, as a range dump / `err:<class>`
fn model_sheet_formulas(part: &[u8], ctx: &Ctx, drv: &mut Driver) -> String {
    let reply = drv.ask(&format!("bsf {} {}", hex(part), ctx.wire()));
    if let Some(rest) = reply.strip_prefix("ok") {
        let mut cells = BTreeMap::new();
        for w in rest.split_whitespace() {
            let p: Vec<&str> = w.split(',').collect();
            // later records at the same position win, as in `from_sparse`
            cells.insert((p[0].parse().unwrap(), p[1].parse().unwrap()), subst_num(&String::from_utf8(unhex(p[2])).unwrap()));
        }
        expected_dump(&cells)
    } else if let Some(h) = reply.strip_prefix("err:") {
        format!("err:{}", err_class(&String::from_utf8(unhex(h)).unwrap()))
    } else {
        reply
    }
}

fn canon_err_dump(s: &str) -> String {
    match s.strip_prefix("err:") {
        Some(e) => format!("err:{}", err_class(e)),
        None => s.to_string(),
    }
}

/// a structural fault in a worksheet part: truncation, a flipped byte, a dropped byte
fn mutate_part(rng: &mut Rng, part: &[u8]) -> Vec<u8> {
    let mut v = part.to_vec();
    if v.is_empty() {
        return v;
    }
    match rng.below(4) {
        0 => v.truncate(rng.below(v.len() as u64 + 1) as usize),
        1 => {
            let i = rng.below(v.len() as u64) as usize;
            v[i] = rng.next() as u8;
        }
        2 => {
            let i = rng.below(v.len() as u64) as usize;
            v.remove(i);
        }
        _ => {
            // cut inside the tail half, where the cell records are
            let lo = v.len() / 2;
            v.truncate(lo + rng.below((v.len() - lo) as u64 + 1) as usize);
        }
    }
    v
}

/// every formula cell also is a value cell (its cached result): the value range of the sheet has a non-empty cell at
/// each position a formula is reported for — the two cursors of a reader walk the same rows and columns
fn values_missing<R: Reader<Cursor<Vec<u8>>>>(wb: &mut R, sheet: &str, at: &[(u32, u32)]) -> String
where
    R::Error: std::fmt::Debug,
{
    match guarded(|| wb.worksheet_range(sheet)) {
        Ok(Ok(rg)) => at
            .iter()
            .filter(|p| rg.get_value(**p).map_or(true, |v| *v == Data::Empty))
            .map(|p| format!("[{},{}]", p.0, p.1))
            .collect::<Vec<_>>()
            .join(" "),
        Ok(Err(e)) => format!("err:{e:?}"),
        Err(p) => format!("panic:{p}"),
    }
}

fn run_file_case(fc: &FileCase, drv: &mut Driver, rep: &mut Report) {
    let input = fc.wire();
    rep.case(&input, !fc.cells.is_empty());
    rep.count("file_case");
    if fc.ctx.has_dangling() {
        rep.count("file_case_dangling_xti");
    }
    rep.add("file_formula_cells", fc.cells.len() as u64);
    // encodings + model / oracle texts per cell
    struct C {
        sh: usize,
        r: u32,
        c: u32,
        xls: Option<Vec<u8>>,
        xlsb: Vec<u8>,
        oracle: String,
        mx: String,
        mb: String,
    }
    let mut cs = vec![];
    for (sh, r, c, e) in &fc.cells {
        let reply = drv.ask(&format!("enc {} | {}", fc.ctx.wire(), e.wire()));
        let mut oracle = String::new();
        e.render(&fc.ctx, &mut oracle);
        let xls_ok = e.fits_xls() && *r < 65536 && *c < 65536;
        cs.push(C {
            sh: *sh,
            r: *r,
            c: *c,
            xls: if xls_ok { Some(unhex(field(&reply, "xls="))[2..].to_vec()) } else { None },
            xlsb: unhex(field(&reply, "xlsb=")),
            oracle,
            mx: decode_model(field(&reply, "mx=")),
            mb: decode_model(field(&reply, "mb=")),
        });
    }
    let mut lrng = Rng::new(fnv64(input.as_bytes()));
    let strip = |m: &String| m.strip_prefix("ok:").map(|s| s.to_string()).unwrap_or(format!("<{m}>"));
    // ---- xls
    if cs.iter().all(|c| c.xls.is_some()) {
        let mut book = XlsBook::new();
        book.xtis = fc.ctx.xti_triples();
        for (k, n) in fc.ctx.names.iter().enumerate() {
            // built-in names are sheet-scoped (itab = 1-based sheet), the others workbook-scoped
            let itab = if n.starts_with("_xlnm") { (k % fc.ctx.sheets.len()) as u16 + 1 } else { 0 };
            // some names have no formula at all (cce = 0: the placeholder of a macro / add-in function); they still
            // count in the list PtgName indexes
            let rgce = if lrng.chance(1, 4) { vec![] } else { vec![0x3a, 0, 0, 0, 0, 0, 0] };
            if rgce.is_empty() {
                rep.count("file_xls_name_without_formula");
            }
            book.names.push(XlsName { name: n.clone(), rgce, name_wide: None, itab });
        }
        // undecodable formulas: expected text = the reader's documented fallback around the decoder's error
        let mut bad_txt: Vec<(usize, u32, u32, String)> = vec![];
        for (sh, r, c, h) in &fc.bad {
            let rg = unhex(h);
            let m = decode_model(&drv.ask(&format!("xls {} {}", hex(&frame_xls(&rg)), fc.ctx.wire())));
            match m.strip_prefix("err:") {
                Some(e) => bad_txt.push((*sh, *r, *c, format!("Unrecognised formula for cell ({r}, {c}): {e}"))),
                None => rep.fail("model_vs_spec", "file_bad_formula_decodes", &input, "", &m, "an error"),
            }
        }
        if fc.ctx.sheets.len() >= 2 && lrng.chance(1, 2) {
            // sheet substreams stored in another order than the tabs (BOUNDSHEET8 carries each offset)
            let mut order: Vec<usize> = (0..fc.ctx.sheets.len()).collect();
            lrng.shuffle(&mut order);
            rep.count("file_xls_substreams_permuted");
            book.substream_order = Some(order);
        }
        // cells of shared-formula groups that hold the lone PtgExp: (sheet, row, col, model text)
        let mut members: Vec<(usize, u32, u32, String)> = vec![];
        for (i, name) in fc.ctx.sheets.iter().enumerate() {
            let mut sh = XlsSheet::new(name);
            let mine: Vec<&C> = cs.iter().filter(|c| c.sh == i).collect();
            // a shared-formula group: a ShrFmla record (its RefU range has one-byte columns) behind the FORMULA
            // record of its first cell; the range is the bounding box of some of the sheet's formula cells, so
            // formula cells of the sheet lie inside and outside of it, before and after the record
            let narrow: Vec<&C> = mine.iter().filter(|c| c.c < 256).cloned().collect();
            let group: Option<(u32, u32, u32, u32, (u32, u32))> = if !narrow.is_empty() && lrng.chance(1, 2) {
                let mut sub: Vec<&C> = vec![];
                for c in &narrow {
                    if lrng.chance(2, 3) {
                        sub.push(c);
                    }
                }
                if sub.is_empty() {
                    sub.push(narrow[0]);
                }
                let master = sub.iter().map(|c| (c.r, c.c)).min().unwrap();
                rep.count("file_xls_shrfmla_record");
                Some((
                    sub.iter().map(|c| c.r).min().unwrap(),
                    sub.iter().map(|c| c.r).max().unwrap() + lrng.below(2) as u32,
                    sub.iter().map(|c| c.c).min().unwrap(),
                    (sub.iter().map(|c| c.c).max().unwrap() + lrng.below(2) as u32).min(255),
                    master,
                ))
            } else {
                None
            };
            let inside = |r: u32, c: u32| group.map_or(false, |g| g.0 <= r && r <= g.1.min(65535) && g.2 <= c && c <= g.3);
            for c in &mine {
                let cached = match lrng.below(4) {
                    0 => Cached::Num(1.5),
                    1 => Cached::Bool(true),
                    2 => Cached::Err(0x07),
                    _ => Cached::Str("x".into()),
                };
                // grbit: the reader reports the tokens whatever the option bits say; fShrFmla (0x0008) stays set on
                // a cell that was edited out of a shared group and holds its own expression again
                let mut grbit = 0u16;
                if lrng.chance(1, 2) {
                    grbit |= 0x0008;
                }
                for bit in [0x0001u16, 0x0002, 0x0020] {
                    if lrng.chance(1, 5) {
                        grbit |= bit;
                    }
                }
                rep.count(&format!(
                    "file_xls_formula.own_expression.{}.{}",
                    if grbit & 8 != 0 { "fShrFmla" } else { "unflagged" },
                    if group.is_none() { "no_group" } else if inside(c.r, c.c) { "inside_range" } else { "outside_range" }
                ));
                let mut d = formula_payload(c.r as u16, c.c as u16, 0, formula_value(&cached), c.xls.as_ref().unwrap());
                d[14..16].copy_from_slice(&grbit.to_le_bytes());
                sh.cells.push(XlsCell { row: c.r as u16, col: c.c as u16, xf: 0, v: CellV::Raw(FORMULA, d) });
                if let Some(g) = group {
                    if g.4 == (c.r, c.c) {
                        // ShrFmla: RefU, reserved, cUse, cce, rgce (here: PtgRefN to the cell above + 1)
                        let mut d = vec![];
                        d.extend_from_slice(&(g.0 as u16).to_le_bytes());
                        d.extend_from_slice(&(g.1.min(65535) as u16).to_le_bytes());
                        d.extend_from_slice(&[g.2 as u8, g.3 as u8, 0, 2]);
                        let rg = [0x4Cu8, 0xFF, 0xFF, 0x00, 0xC0, 0x1E, 1, 0, 0x03];
                        d.extend_from_slice(&(rg.len() as u16).to_le_bytes());
                        d.extend_from_slice(&rg);
                        sh.cells.push(XlsCell { row: c.r as u16, col: c.c as u16, xf: 0, v: CellV::Raw(0x04BC, d) });
                    }
                }
                if let Cached::Str(t) = &cached {
                    let d = xl_unicode_string(t, None, &mut lrng);
                    sh.cells.push(XlsCell { row: c.r as u16, col: c.c as u16, xf: 0, v: CellV::Raw(STRING, d) });
                }
            }
            // members of a group: FORMULA records whose rgce is the lone PtgExp naming the first cell (flag set, or
            // cleared by a careless writer), at free positions in and next to the range; their text is empty
            if let Some(first) = mine.first() {
                let (r0, r1, c0, c1, master) = group.unwrap_or((first.r, first.r, first.c.min(255), first.c.min(255), (first.r, first.c)));
                for _ in 0..lrng.below(3) {
                    let r = (r0 + lrng.below((r1 - r0 + 2) as u64) as u32).min(65535);
                    let c = (c0 + lrng.below((c1 - c0 + 2) as u64) as u32).min(255);
                    let taken = mine.iter().any(|m| (m.r == r && (m.c == c || m.c + 40 == c)))
                        || fc.bad.iter().any(|b| b.0 == i && b.1 == r && b.2 == c)
                        || members.iter().any(|m| m.0 == i && m.1 == r && m.2 == c);
                    if taken {
                        continue;
                    }
                    let mut rg = vec![0x01u8];
                    rg.extend_from_slice(&(master.0 as u16).to_le_bytes());
                    rg.extend_from_slice(&(master.1 as u16).to_le_bytes());
                    let m = decode_model(&drv.ask(&format!("xls {} {}", hex(&frame_xls(&rg)), fc.ctx.wire())));
                    let grbit = if lrng.chance(3, 4) { 0x0008u16 } else { 0 };
                    rep.count(&format!(
                        "file_xls_formula.ptgexp.{}.{}",
                        if grbit != 0 { "fShrFmla" } else { "unflagged" },
                        if group.is_none() { "no_group" } else if inside(r, c) { "inside_range" } else { "outside_range" }
                    ));
                    let mut d = formula_payload(r as u16, c as u16, 0, formula_value(&Cached::Num(3.0)), &rg);
                    d[14..16].copy_from_slice(&grbit.to_le_bytes());
                    sh.cells.push(XlsCell { row: r as u16, col: c as u16, xf: 0, v: CellV::Raw(FORMULA, d) });
                    members.push((i, r, c, strip(&m)));
                }
            }
            for (bsh, r, c, h) in &fc.bad {
                if *bsh == i {
                    rep.count("file_xls_undecodable_formula_cell");
                    sh.cells.push(XlsCell::new(*r as u16, *c as u16, CellV::Formula { rgce: unhex(h), cached: Cached::Num(2.0) }));
                }
            }
            // a value cell in the same row, outside the window: must not show up as a formula
            if let Some(c) = cs.iter().find(|c| c.sh == i) {
                sh.cells.push(XlsCell::new(c.r as u16, c.c as u16 + 40, CellV::Number(7.0)));
            }
            // records in row-major order, as Excel writes them (`Range::from_sparse` expects sorted rows)
            sh.cells.sort_by_key(|c| (c.row, c.col));
            // a sheet without cells may be a chart sheet, a VB module or a macro sheet: it still has its tab index,
            // which is what the XTI entries of 3-D references count
            if sh.cells.is_empty() && lrng.chance(2, 3) {
                sh.kind = *lrng.pick(&[2u8, 6, 1]);
                rep.count("file_xls_non_worksheet_tab");
            }
            book.sheets.push(sh);
        }
        let bytes = book.to_bytes(&mut lrng);
        match guarded(|| Xls::new(Cursor::new(bytes))) {
            Ok(Ok(mut wb)) => {
                for (i, name) in fc.ctx.sheets.iter().enumerate() {
                    let mut exp: BTreeMap<(u32, u32), String> = cs.iter().filter(|c| c.sh == i).map(|c| ((c.r, c.c), c.oracle.clone())).collect();
                    let mut model: BTreeMap<(u32, u32), String> = cs.iter().filter(|c| c.sh == i).map(|c| ((c.r, c.c), strip(&c.mx))).collect();
                    for (bsh, r, c, t) in &bad_txt {
                        if *bsh == i {
                            exp.insert((*r, *c), t.clone());
                            model.insert((*r, *c), t.clone());
                        }
                    }
                    // a lone PtgExp renders as no text; the cell still belongs to the formula range
                    for (msh, r, c, t) in &members {
                        if *msh == i {
                            exp.insert((*r, *c), String::new());
                            model.insert((*r, *c), t.clone());
                        }
                    }
                    let rows: Vec<u32> = exp.keys().map(|k| k.0).collect();
                    let hist = pick_history(&mut lrng, &rows);
                    rep.count(if hist >= 2 { "history.header_row_before_formula" } else { "history.plain" });
                    let imp = guarded(|| impl_dump(&mut wb, name, hist)).unwrap_or_else(|p| format!("panic:{p}"));
                    let m = expected_dump(&model);
                    let e = if fc.ctx.has_dangling() { m.clone() } else { expected_dump(&exp) };
                    if imp != e {
                        rep.fail("impl_vs_spec", "file_xls_worksheet_formula", &input, &imp, &m, &e);
                    }
                    if imp != m {
                        rep.fail("impl_vs_model", "file_xls_worksheet_formula", &input, &imp, &m, &e);
                    }
                    let at: Vec<(u32, u32)> = exp.keys().copied().collect();
                    let miss = values_missing(&mut wb, name, &at);
                    rep.count("file_xls_cached_values_at_formula_cells");
                    if !miss.is_empty() {
                        rep.fail("impl_vs_spec", "file_xls_formula_cell_without_value", &input, &miss, "", "a value at every formula cell");
                    }
                }
                rep.count("file_xls_opened");
            }
            Ok(Err(e)) => rep.fail("impl_vs_spec", "file_xls_open", &input, &format!("err:{e:?}"), "", "opens"),
            Err(p) => rep.fail("impl_vs_spec", "file_xls_open", &input, &format!("panic:{p}"), "", "opens"),
        }
    } else {
        rep.count("file_xlsb_only");
    }
    // ---- xlsb
    {
        let mut book = XlsbBook::new();
        book.framing = match lrng.below(3) {
            0 => Framing::Minimal,
            1 => Framing::Widest,
            _ => Framing::Random(lrng.next()),
        };
        book.extern_sheets = fc.ctx.xtis.iter().map(|&i| (i as i32, i as i32)).collect();
        for (k, n) in fc.ctx.names.iter().enumerate() {
            let itab = if n.starts_with("_xlnm") { (k % fc.ctx.sheets.len()) as u32 } else { 0xFFFF_FFFF };
            let rgce = if lrng.chance(1, 4) { vec![] } else { vec![0x3a, 0, 0, 0, 0, 0, 0, 0, 0] };
            book.names.push(DefinedName { name: n.clone(), rgce, itab });
        }
        for (i, name) in fc.ctx.sheets.iter().enumerate() {
            let mut sh = XlsbSheet::new(name);
            for c in cs.iter().filter(|c| c.sh == i) {
                let val = match lrng.below(3) {
                    0 => BVal::real(1.5),
                    1 => BVal::Bool(1),
                    _ => BVal::str("x"),
                };
                let cell = sh.set(c.r, c.c, val);
                let k = lrng.below(9) as usize;
                let rgcb = if lrng.chance(1, 4) { lrng.bytes(k) } else { vec![] };
                cell.fmla = Some(Fmla { flags: lrng.below(4) as u16 * 2, rgce: c.xlsb.clone(), rgcb });
            }
            if lrng.chance(1, 3) {
                sh.noise = Some(lrng.next());
            }
            if let Some(c) = cs.iter().find(|c| c.sh == i) {
                sh.set(c.r, c.c + 40, BVal::real(7.0));
            }
            book.sheets.push(sh);
        }
        let bytes = book.to_bytes();
        match guarded(|| Xlsb::new(Cursor::new(bytes))) {
            Ok(Ok(mut wb)) => {
                for (i, name) in fc.ctx.sheets.iter().enumerate() {
                    let exp: BTreeMap<(u32, u32), String> = cs.iter().filter(|c| c.sh == i).map(|c| ((c.r, c.c), c.oracle.clone())).collect();
                    let model: BTreeMap<(u32, u32), String> = cs.iter().filter(|c| c.sh == i).map(|c| ((c.r, c.c), strip(&c.mb))).collect();
                    let rows: Vec<u32> = exp.keys().map(|k| k.0).collect();
                    let hist = pick_history(&mut lrng, &rows);
                    rep.count(if hist >= 2 { "history.header_row_before_formula" } else { "history.plain" });
                    let imp = guarded(|| impl_dump(&mut wb, name, hist)).unwrap_or_else(|p| format!("panic:{p}"));
                    // the Lean model of next_formula / formula_rgce / worksheet_formula on the very bytes of the part
                    let m_cells = model_sheet_formulas(&book.sheet_part(i), &fc.ctx, drv);
                    rep.count("file_xlsb_sheet_part_model");
                    if m_cells != expected_dump(&model) {
                        rep.fail("model_vs_spec", "file_xlsb_sheet_model_vs_token_model", &input, &imp, &m_cells, &expected_dump(&model));
                    }
                    let m = m_cells;
                    let e = if fc.ctx.has_dangling() { m.clone() } else { expected_dump(&exp) };
                    if imp != e {
                        rep.fail("impl_vs_spec", "file_xlsb_worksheet_formula", &input, &imp, &m, &e);
                    }
                    if imp != m {
                        rep.fail("impl_vs_model", "file_xlsb_worksheet_formula", &input, &imp, &m, &e);
                    }
                    let at: Vec<(u32, u32)> = exp.keys().copied().collect();
                    let miss = values_missing(&mut wb, name, &at);
                    rep.count("file_xlsb_cached_values_at_formula_cells");
                    if !miss.is_empty() {
                        rep.fail("impl_vs_spec", "file_xlsb_formula_cell_without_value", &input, &miss, "", "a value at every formula cell");
                    }
                }
                rep.count("file_xlsb_opened");
                // structural faults in the worksheet part: impl (through the public API) vs the Lean model, result or
                // error class; a panic is a violation
                if !fc.ctx.sheets.is_empty() && lrng.chance(1, 2) {
                    let i = lrng.below(fc.ctx.sheets.len() as u64) as usize;
                    let bad_part = mutate_part(&mut lrng, &book.sheet_part(i));
                    let mut b2 = book.clone();
                    b2.sheets[i].raw = Some(bad_part.clone());
                    let inp2 = format!("{input} @badpart {i} {}", hex(&bad_part));
                    rep.count("file_xlsb_malformed_part");
                    let m = model_sheet_formulas(&bad_part, &fc.ctx, drv);
                    // a damaged coordinate can make the bounding box astronomically large: `from_sparse` then asks for
                    // rows x cols cells and the process aborts (dense Range, ledger D37, C06 known finding) — such a
                    // part is not handed to the implementation
                    let area = m.split(' ').next().and_then(|h| {
                        let (a, b) = h.split_once("..")?;
                        let (r0, c0) = a.split_once(',')?;
                        let (r1, c1) = b.split_once(',')?;
                        Some((r1.parse::<u64>().ok()? - r0.parse::<u64>().ok()? + 1) * (c1.parse::<u64>().ok()? - c0.parse::<u64>().ok()? + 1))
                    });
                    if area.map_or(false, |a| a > (1 << 21)) {
                        rep.count("file_xlsb_malformed_part_skipped_huge_bbox(D37)");
                        return;
                    }
                    let imp = match guarded(|| Xlsb::new(Cursor::new(b2.to_bytes()))) {
                        Ok(Ok(mut wb2)) => canon_err_dump(&guarded(|| impl_dump0(&mut wb2, &fc.ctx.sheets[i])).unwrap_or_else(|p| format!("panic:{p}"))),
                        Ok(Err(e)) => format!("open-err:{e:?}"),
                        Err(p) => format!("panic:{p}"),
                    };
                    if imp.starts_with("panic") {
                        rep.fail("impl_vs_spec", "file_xlsb_malformed_part_panic", &inp2, &imp, &m, "Ok or Err");
                    }
                    // hostile coordinates make from_sparse itself fail (C05/C06 finding): the model stops before it
                    if imp != m && !imp.starts_with("panic") {
                        rep.fail("impl_vs_model", "file_xlsb_malformed_part", &inp2, &imp, &m, "");
                    }
                }
            }
            Ok(Err(e)) => rep.fail("impl_vs_spec", "file_xlsb_open", &input, &format!("err:{e:?}"), "", "opens"),
            Err(p) => rep.fail("impl_vs_spec", "file_xlsb_open", &input, &format!("panic:{p}"), "", "opens"),
        }
    }
}


/// `parse_defined_names` (the Lbl formula reader): impl vs model on a raw rgce
fn run_dn(bytes: &[u8], drv: &mut Driver, rep: &mut Report) {
    let input = format!("dn {}", hex(bytes));
    rep.case(&input, bytes.len() > 1);
    rep.count("defined_name_rgce");
    let model = {
        let r = drv.ask(&input);
        match r.split_once(' ') {
            Some(_) if r.starts_with("err:") => r,
            Some((ix, h)) => format!("ok:{ix} {}", String::from_utf8(unhex(h)).unwrap()),
            None => r,
        }
    };
    #[cfg(feature = "hooks")]
    let imp = match guarded(|| hx::c14_defined_name(bytes)) {
        Ok(Ok((ix, t))) => format!("ok:{} {t}", ix.map(|i| i.to_string()).unwrap_or("-".into())),
        Ok(Err(e)) => format!("err:{e}"),
        Err(_) => "panic".to_string(),
    };
    // without hooks: the Lbl record of a one-sheet workbook whose four XTI entries name the sheet; the reader joins
    // the sheet the ixti resolves to and the text, the model's answer is joined the same way
    #[cfg(not(feature = "hooks"))]
    let (imp, model) = {
        let joined = match model.strip_prefix("ok:").and_then(|r| r.split_once(' ')) {
            Some(("-", t)) => format!("ok:{t}"),
            Some((ix, t)) => format!("ok:{}!{t}", if ix.parse::<usize>().map_or(false, |i| i < 4) { "S1" } else { "#REF" }),
            None => model.clone(),
        };
        (nohooks::defined_name(bytes), joined)
    };
    if imp != model {
        rep.fail("impl_vs_model", "defined_name", &input, &imp, &model, "");
    }
}

fn gen_dn(rng: &mut Rng) -> Vec<u8> {
    let ptg = match rng.below(10) {
        0..=2 => *rng.pick(&[0x3au8, 0x5a, 0x7a]),
        3..=5 => *rng.pick(&[0x3bu8, 0x5b, 0x7b]),
        6 => *rng.pick(&[0x3cu8, 0x5c, 0x7c, 0x3d, 0x5d, 0x7d]),
        _ => rng.next() as u8,
    };
    let n = *rng.pick(&[0usize, 2, 6, 6, 10, 10, 10, 12]);
    let mut v = vec![ptg];
    for i in 0..n {
        // absolute references (flags clear) most of the time: the code prints the column field unmasked
        let b = rng.next() as u8;
        v.push(if (i == 5 || i == 9 || i == 7) && rng.chance(3, 4) { b & 0x3F } else { b });
    }
    if rng.chance(1, 10) {
        v.clear();
    }
    v
}


// ------------------------------------------------------------------------------------------------
// stage 3: xlsx / ods — the formula is the stored text, reported at the cell's absolute position
// ------------------------------------------------------------------------------------------------

/// formula texts: A1 renderings of random expressions plus texts that need XML escaping / are not ASCII
fn gen_formula_text(rng: &mut Rng) -> String {
    const SPECIAL: [&str; 12] = [
        "A1&\"<x>\"",
        "IF(A1<=B2,\"a&b\",'Sheet 2'!C3)",
        "1<2",
        "\"é\"&\"中\"&\"😀\"",
        " A1 + B1 ",
        "A1>B1",
        "SUM(A1:A3)+\"'\"",
        "x",
        "$A$1",
        "T(\"]]>\")",
        "\"café\"&\"£5\"&\"€\"",
        "'Données'!A1+\"Ã©\"",
    ];
    if rng.chance(1, 4) {
        return rng.pick(&SPECIAL).to_string();
    }
    let ctx = Ctx { sheets: vec!["S1".into(), "Data".into()], names: vec!["MyName".into()], xtis: vec![0, 1] };
    loop {
        let d = rng.range(0, 2) as u32;
        let e = gen_expr(rng, d, &ctx, &GenOpts { wide: true });
        let mut t = String::new();
        e.render(&ctx, &mut t);
        // stored text goes through XML: no control characters (CR would be normalised), not empty
        if !t.is_empty() && !t.chars().any(|c| (c as u32) < 0x20 || c == '\u{FFFE}' || c == '\u{FFFF}') {
            return t;
        }
    }
}

/// one logical xlsx sheet: `(row, col) -> (value kind 0..6, formula)`
type XGrid = BTreeMap<(u32, u32), (u8, Option<String>)>;

struct XlsxCase {
    layout_seed: u64,
    sheets: Vec<XGrid>,
}

const XNAMES: [&str; 3] = ["Sheet1", "Données", "S 3"];

impl XlsxCase {
    fn wire(&self) -> String {
        let mut s = format!("xlsxf {} |", self.layout_seed);
        let mut first = true;
        for (i, g) in self.sheets.iter().enumerate() {
            for ((r, c), (k, f)) in g {
                if !first {
                    s.push_str(" ;");
                }
                first = false;
                s.push_str(&format!(" {i} {r} {c} {k} {}", f.as_ref().map(|f| hex(f.as_bytes())).unwrap_or("~".into())));
            }
        }
        s.push_str(&format!(" # {}", self.sheets.len()));
        s
    }
    fn parse(words: &[&str]) -> XlsxCase {
        let bar = words.iter().position(|w| *w == "|").unwrap();
        let hash = words.iter().position(|w| *w == "#").unwrap();
        let n: usize = words[hash + 1].parse().unwrap();
        let mut sheets = vec![XGrid::new(); n];
        for chunk in words[bar + 1..hash].split(|w| *w == ";") {
            if chunk.is_empty() {
                continue;
            }
            let f = if chunk[4] == "~" { None } else { Some(String::from_utf8(unhex(chunk[4])).unwrap()) };
            sheets[chunk[0].parse::<usize>().unwrap()].insert((chunk[1].parse().unwrap(), chunk[2].parse().unwrap()), (chunk[3].parse().unwrap(), f));
        }
        XlsxCase { layout_seed: words[1].parse().unwrap(), sheets }
    }
    fn book(&self) -> XlsxBook {
        let mut book = XlsxBook::new();
        for (i, g) in self.sheets.iter().enumerate() {
            let mut sh = XlsxSheet::new(XNAMES[i]);
            for ((r, c), (k, f)) in g {
                let v = match k {
                    0 => XVal::Empty,
                    1 => XVal::Num("1.5".into()),
                    2 => XVal::SharedStr("shared".into()),
                    3 => XVal::InlineStr("inline".into()),
                    4 => XVal::Bool(true),
                    5 => XVal::FormulaStr("txt".into()),
                    _ => XVal::Err("#DIV/0!".into()),
                };
                let mut cell = XCell::new(v);
                if let Some(f) = f {
                    cell = cell.with_formula(f);
                }
                sh.set(*r, *c, cell);
            }
            book.sheets.push(sh);
        }
        book
    }
}

fn gen_xlsx_case(rng: &mut Rng) -> XlsxCase {
    let ns = rng.range(1, 2) as usize;
    let mut sheets = vec![];
    for _ in 0..ns {
        let mut g = XGrid::new();
        // windows of consecutive rows; often anchored at A1 so that rows and cells may omit `r`
        let (r0, c0) = match rng.below(4) {
            0 | 1 => (0u32, 0u32),
            2 => (rng.below(20) as u32, rng.below(5) as u32),
            _ => (rng.below(1_048_576 - 16) as u32, rng.below(16_384 - 16) as u32),
        };
        let nrows = rng.range(0, 6) as u32;
        let mut r = r0;
        for _ in 0..nrows {
            let ncells = rng.range(1, 6);
            let mut c = if rng.chance(3, 4) { c0 } else { c0 + rng.below(4) as u32 };
            for _ in 0..ncells {
                let with_f = rng.chance(3, 5);
                let kind = if with_f && rng.chance(1, 3) { 0 } else { rng.below(7) as u8 };
                g.insert((r, c), (kind, if with_f { Some(gen_formula_text(rng)) } else { None }));
                c += if rng.chance(3, 4) { 1 } else { rng.range(2, 5) as u32 };
            }
            r += if rng.chance(3, 4) { 1 } else { rng.range(2, 4) as u32 };
        }
        sheets.push(g);
    }
    XlsxCase { layout_seed: rng.next(), sheets }
}

fn xlsx_case_fails(xc: &XlsxCase, drv: &mut Driver) -> Vec<Fail> {
    let mut fails = vec![];
    let layout = Layout::random(&mut Rng::new(xc.layout_seed));
    let mut hrng = Rng::new(xc.layout_seed ^ 0x4ead_e7);
    let built = xc.book().build(&layout);
    let events = built.sheet_events.clone();
    match guarded(|| Xlsx::new(Cursor::new(built.bytes))) {
        Ok(Ok(mut wb)) => {
            for (i, g) in xc.sheets.iter().enumerate() {
                let exp: BTreeMap<(u32, u32), String> =
                    g.iter().filter_map(|(p, (_, f))| f.as_ref().filter(|f| !f.is_empty()).map(|f| (*p, f.clone()))).collect();
                let e = expected_dump(&exp);
                let rows: Vec<u32> = exp.keys().map(|k| k.0).collect();
                let hist = pick_history(&mut hrng, &rows);
                let imp = guarded(|| impl_dump(&mut wb, XNAMES[i], hist)).unwrap_or_else(|p| format!("panic:{p}"));
                // model: the `next_formula` cursor machine on exactly the events that were written
                let reply = drv.ask(&format!("xf {}", ev_wire(&events[i])));
                let m = match reply.strip_prefix("ok") {
                    Some(rest) => {
                        let mut cells = BTreeMap::new();
                        for w in rest.split_whitespace() {
                            let p: Vec<&str> = w.split(',').collect();
                            let t = String::from_utf8(unhex(p[2])).unwrap();
                            if !t.is_empty() {
                                cells.insert((p[0].parse().unwrap(), p[1].parse().unwrap()), t);
                            }
                        }
                        expected_dump(&cells)
                    }
                    None => reply.clone(),
                };
                if imp != e {
                    fails.push(Fail { kind: "impl_vs_spec", sig: "file_xlsx_worksheet_formula".into(), imp: imp.clone(), model: m.clone(), expect: e.clone() });
                }
                if imp != m {
                    fails.push(Fail { kind: "impl_vs_model", sig: "file_xlsx_worksheet_formula".into(), imp: imp.clone(), model: m.clone(), expect: e.clone() });
                }
                if m != e {
                    fails.push(Fail { kind: "model_vs_spec", sig: "file_xlsx_worksheet_formula".into(), imp, model: m, expect: e });
                }
            }
        }
        Ok(Err(e)) => fails.push(Fail { kind: "impl_vs_spec", sig: "file_xlsx_open".into(), imp: format!("err:{e:?}"), model: String::new(), expect: "opens".into() }),
        Err(p) => fails.push(Fail { kind: "impl_vs_spec", sig: "file_xlsx_open".into(), imp: format!("panic:{p}"), model: String::new(), expect: "opens".into() }),
    }
    fails
}

/// one wide sheet with `n` shared-formula groups alive at once (one fill-down group per column, 3 rows; Excel writes
/// such sheets for a filled-down table): every cell of every group must carry the group's text. The master texts
/// are absolute (`$A$1+<col>`), so the text is the same in every cell of a group whatever the translation.
fn run_xlsx_shared_wide(n: u32, seed: u64, drv: &mut Driver, rep: &mut Report) {
    let input = format!("xlsxshared {n} {seed}");
    rep.case(&input, true);
    rep.count("xlsx_wide_shared_groups_case");
    let mut book = XlsxBook::new();
    let mut sh = XlsxSheet::new("Wide");
    let mut exp: BTreeMap<(u32, u32), String> = BTreeMap::new();
    for c in 0..n {
        let text = format!("$A$1+{c}");
        let rng_ref = format!("{}1:{}3", verif_harness::xlsxw::col_name(c), verif_harness::xlsxw::col_name(c));
        for r in 0..3u32 {
            let mut cell = XCell::num("1");
            cell.formula = Some(verif_harness::xlsxw::XFormula {
                text: if r == 0 { text.clone() } else { String::new() },
                shared: Some((c, if r == 0 { Some(rng_ref.clone()) } else { None })),
            });
            sh.set(r, c, cell);
            exp.insert((r, c), text.clone());
        }
    }
    book.sheets.push(sh);
    let mut layout = Layout::random(&mut Rng::new(seed));
    layout.pct_whitespace = 0;
    let built = book.build(&layout);
    let e = expected_dump(&exp);
    let m = {
        let reply = drv.ask(&format!("xf {}", ev_wire(&built.sheet_events[0])));
        match reply.strip_prefix("ok") {
            Some(rest) => {
                let mut cells = BTreeMap::new();
                for w in rest.split_whitespace() {
                    let p: Vec<&str> = w.split(',').collect();
                    let t = String::from_utf8(unhex(p[2])).unwrap();
                    if !t.is_empty() {
                        cells.insert((p[0].parse().unwrap(), p[1].parse().unwrap()), t);
                    }
                }
                expected_dump(&cells)
            }
            None => reply,
        }
    };
    let imp = match guarded(|| Xlsx::new(Cursor::new(built.bytes))) {
        Ok(Ok(mut wb)) => guarded(|| impl_dump0(&mut wb, "Wide")).unwrap_or_else(|p| format!("panic:{p}")),
        Ok(Err(e)) => format!("err:{e:?}"),
        Err(p) => format!("panic:{p}"),
    };
    // report the first differing cell only (the dumps are long)
    let first_diff = |a: &str, b: &str| -> String {
        let (x, y): (Vec<&str>, Vec<&str>) = (a.split(' ').collect(), b.split(' ').collect());
        match x.iter().zip(y.iter()).position(|(p, q)| p != q) {
            Some(i) => format!("{} cells; first difference at item {i}: {} vs {}", x.len() - 1, x[i], y[i]),
            None => format!("{} vs {} items", x.len(), y.len()),
        }
    };
    if imp != e {
        rep.fail("impl_vs_spec", "file_xlsx_shared_groups", &input, &first_diff(&imp, &e), &first_diff(&m, &e), "every cell of every shared group holds the group's formula text");
    }
    if imp != m {
        rep.fail("impl_vs_model", "file_xlsx_shared_groups", &input, &first_diff(&imp, &m), "", "");
    }
    if m != e {
        rep.fail("model_vs_spec", "file_xlsx_shared_groups", &input, "", &first_diff(&m, &e), "");
    }
}

fn run_xlsx_case(xc: &XlsxCase, drv: &mut Driver, rep: &mut Report, shrunk: &mut u32) {
    let input = xc.wire();
    let ncells: usize = xc.sheets.iter().map(|g| g.len()).sum();
    rep.case(&input, ncells >= 2);
    rep.count("xlsx_file_case");
    rep.add("xlsx_formula_cells", xc.sheets.iter().map(|g| g.values().filter(|v| v.1.is_some()).count() as u64).sum());
    rep.add("xlsx_formula_only_cells", xc.sheets.iter().map(|g| g.values().filter(|v| v.1.is_some() && v.0 == 0).count() as u64).sum());
    let fails = xlsx_case_fails(xc, drv);
    if fails.is_empty() {
        return;
    }
    // shrink: drop cells while the first failure persists (same kind and signature)
    let (k0, s0) = (fails[0].kind, fails[0].sig.clone());
    let mut cur = XlsxCase { layout_seed: xc.layout_seed, sheets: xc.sheets.clone() };
    if *shrunk < 40 {
        *shrunk += 1;
        let mut progress = true;
        while progress {
            progress = false;
            for si in 0..cur.sheets.len() {
                let keys: Vec<(u32, u32)> = cur.sheets[si].keys().cloned().collect();
                for k in keys {
                    let mut t = XlsxCase { layout_seed: cur.layout_seed, sheets: cur.sheets.clone() };
                    t.sheets[si].remove(&k);
                    if xlsx_case_fails(&t, drv).iter().any(|f| f.kind == k0 && f.sig == s0) {
                        cur = t;
                        progress = true;
                    }
                }
            }
        }
    }
    let small = cur.wire();
    let f2 = xlsx_case_fails(&cur, drv);
    for f in if f2.is_empty() { &fails } else { &f2 } {
        rep.fail(f.kind, &f.sig, if f2.is_empty() { &input } else { &small }, &f.imp, &f.model, &f.expect);
    }
}

/// ods: rows of cell runs. cell word: `_k` blank run, `v` float, `s` string, `f<hex>[*k]` formula without a cached
/// value, `g<hex>[*k]` float with formula, `h<hex>[*k]` / `c<hex>[*k]` the same as a covered cell (hidden under a
/// merged cell but keeping its content); row word: `<repeat>:<cell>,<cell>…`
struct OdsCase {
    /// encoding content.xml declares and is written in (None = UTF-8); the formula texts are the same characters
    enc: Option<&'static str>,
    rows: Vec<(usize, Vec<String>)>,
}

fn ods_enc(label: &str) -> Option<&'static str> {
    match label {
        "ISO-8859-1" => Some("ISO-8859-1"),
        "windows-1252" => Some("windows-1252"),
        "-" => None,
        x => panic!("unknown encoding {x}"),
    }
}

impl OdsCase {
    fn wire(&self) -> String {
        let mut s = String::from("odsf");
        if let Some(e) = self.enc {
            s.push_str(&format!(" enc={e}"));
        }
        for (k, cells) in &self.rows {
            s.push_str(&format!(" {k}:{}", cells.join(",")));
        }
        s
    }
    fn parse(words: &[&str]) -> OdsCase {
        let (enc, from) = match words.get(1).and_then(|w| w.strip_prefix("enc=")) {
            Some(l) => (ods_enc(l), 2),
            None => (None, 1),
        };
        OdsCase {
            enc,
            rows: words[from..]
                .iter()
                .map(|w| {
                    let (k, cells) = w.split_once(':').unwrap();
                    (k.parse().unwrap(), cells.split(',').filter(|c| !c.is_empty()).map(|c| c.to_string()).collect())
                })
                .collect(),
        }
    }
    fn sheet(&self) -> OdsSheet {
        let rows = self
            .rows
            .iter()
            .map(|(k, cells)| {
                let cs: Vec<OdsCell> = cells
                    .iter()
                    .map(|w| {
                        let (body, rep) = match w.split_once('*') {
                            Some((b, k)) => (b, Some(k.parse::<usize>().unwrap())),
                            None => (w.as_str(), None),
                        };
                        let mut c = match &body[..1] {
                            "_" => OdsCell::empty_run(body[1..].parse().unwrap()),
                            "v" => OdsCell::float(2.5),
                            "s" => OdsCell::string("txt"),
                            "f" => OdsCell::new(OdsVal::Empty).with_formula(&String::from_utf8(unhex(&body[1..])).unwrap()),
                            // cells hidden under a merged one that keep their content: table:covered-table-cell
                            "h" => OdsCell::new(OdsVal::Empty).with_formula(&String::from_utf8(unhex(&body[1..])).unwrap()).covered(),
                            "c" => OdsCell::float(3.0).with_formula(&String::from_utf8(unhex(&body[1..])).unwrap()).covered(),
                            _ => OdsCell::float(1.0).with_formula(&String::from_utf8(unhex(&body[1..])).unwrap()),
                        };
                        if let Some(k) = rep {
                            c = c.times(k);
                        }
                        c
                    })
                    .collect();
                let r = RowRun::new(cs);
                if *k == 1 {
                    r
                } else {
                    r.times(*k)
                }
            })
            .collect();
        OdsSheet::new("Sheet1", rows)
    }
}

fn gen_ods_case(rng: &mut Rng) -> OdsCase {
    let nrows = rng.range(0, 6);
    let mut rows = vec![];
    for _ in 0..nrows {
        let repeat = match rng.below(6) {
            0 => rng.range(2, 4) as usize,
            _ => 1,
        };
        if rng.chance(1, 5) {
            // blank rows (possibly a long run)
            rows.push((*rng.pick(&[1usize, 2, 7, 300]), vec![format!("_{}", rng.pick(&[1usize, 3, 1000]))]));
            continue;
        }
        let n = rng.range(1, 5);
        let mut cells = vec![];
        for _ in 0..n {
            let f = || -> String { String::new() };
            let _ = f;
            let w = match rng.below(10) {
                0 | 1 => format!("_{}", rng.pick(&[1usize, 2, 5, 40])),
                2 => "v".to_string(),
                3 => "s".to_string(),
                4..=5 => format!("f{}", hex(format!("of:={}", gen_formula_text(rng)).as_bytes())),
                6 => format!("{}{}", rng.pick(&["h", "c"]), hex(format!("of:={}", gen_formula_text(rng)).as_bytes())),
                _ => format!("g{}", hex(format!("of:={}", gen_formula_text(rng)).as_bytes())),
            };
            let w = if !w.starts_with('_') && rng.chance(1, 6) { format!("{w}*{}", rng.range(2, 4)) } else { w };
            cells.push(w);
        }
        rows.push((repeat, cells));
    }
    // one case in three is written in a single-byte encoding named by the XML declaration
    let enc = match rng.below(6) {
        0 => Some("ISO-8859-1"),
        1 => Some("windows-1252"),
        _ => None,
    };
    OdsCase { enc, rows }
}

fn ods_case_fails(oc: &OdsCase) -> Vec<Fail> {
    let sheet = oc.sheet();
    let exp: BTreeMap<(u32, u32), String> =
        sheet.grid().iter().filter(|(_, v)| !v.1.is_empty()).map(|(p, v)| ((p.0 as u32, p.1 as u32), v.1.clone())).collect();
    let e = expected_dump(&exp);
    let mut book = OdsBook::new(vec![sheet]);
    book.encoding = oc.enc;
    let bytes = book.to_bytes();
    let mut fails = vec![];
    match guarded(|| Ods::new(Cursor::new(bytes))) {
        Ok(Ok(mut wb)) => {
            let rows: Vec<u32> = exp.keys().map(|k| k.0).collect();
            let hist = pick_history(&mut Rng::new(fnv64(oc.wire().as_bytes())), &rows);
            let imp = guarded(|| impl_dump(&mut wb, "Sheet1", hist)).unwrap_or_else(|p| format!("panic:{p}"));
            if imp != e {
                fails.push(Fail { kind: "impl_vs_spec", sig: "file_ods_worksheet_formula".into(), imp, model: String::new(), expect: e });
            }
        }
        Ok(Err(e)) => fails.push(Fail { kind: "impl_vs_spec", sig: "file_ods_open".into(), imp: format!("err:{e:?}"), model: String::new(), expect: "opens".into() }),
        Err(p) => fails.push(Fail { kind: "impl_vs_spec", sig: "file_ods_open".into(), imp: format!("panic:{p}"), model: String::new(), expect: "opens".into() }),
    }
    fails
}

fn run_ods_case(oc: &OdsCase, rep: &mut Report) {
    let input = oc.wire();
    rep.case(&input, oc.rows.len() >= 2);
    rep.count("ods_file_case");
    if let Some(e) = oc.enc {
        rep.count(&format!("ods_declared_encoding.{e}"));
        if oc.rows.iter().any(|(_, cs)| cs.iter().any(|w| w.len() > 1 && !w.starts_with('_') && unhex(w[1..].split('*').next().unwrap()).iter().any(|b| *b >= 0x80))) {
            rep.count("ods_declared_encoding.non_ascii_formula");
        }
    }
    let fails = ods_case_fails(oc);
    if fails.is_empty() {
        return;
    }
    // shrink: drop rows, then cells
    let mut cur = OdsCase { enc: oc.enc, rows: oc.rows.clone() };
    let sig = fails[0].sig.clone();
    let mut progress = true;
    while progress {
        progress = false;
        for i in 0..cur.rows.len() {
            let mut t = OdsCase { enc: cur.enc, rows: cur.rows.clone() };
            t.rows.remove(i);
            if ods_case_fails(&t).iter().any(|f| f.sig == sig) {
                cur = t;
                progress = true;
                break;
            }
            for j in 0..cur.rows[i].1.len() {
                let mut t = OdsCase { enc: cur.enc, rows: cur.rows.clone() };
                t.rows[i].1.remove(j);
                if ods_case_fails(&t).iter().any(|f| f.sig == sig) {
                    cur = t;
                    progress = true;
                    break;
                }
            }
            if progress {
                break;
            }
        }
    }
    let f2 = ods_case_fails(&cur);
    let small = cur.wire();
    for f in if f2.is_empty() { &fails } else { &f2 } {
        rep.fail(f.kind, &f.sig, if f2.is_empty() { &input } else { &small }, &f.imp, &f.model, &f.expect);
    }
}

/// `n` nested PtgMemFunc wrappers around `=1`
fn deep_rgce(n: usize) -> Vec<u8> {
    let mut v = vec![0x1e, 1, 0];
    for _ in 0..n {
        let mut w = vec![0x29];
        w.extend_from_slice(&le16(v.len() as u16));
        w.extend_from_slice(&v);
        v = w;
    }
    v
}

/// child side of a `deep` case: decode on a thread with a small stack, print the result
fn deep_child(n: usize) {
    let rgce = deep_rgce(n);
    let h = std::thread::Builder::new()
        .stack_size(256 * 1024)
        .spawn(move || impl_xlsb(&rgce, &Ctx { sheets: vec![], names: vec![], xtis: vec![] }).unwrap_or("unreachable".into()))
        .expect("spawn");
    let r = h.join().unwrap_or_else(|_| "panic:thread".into());
    println!("RESULT {r}");
}

/// a stack overflow aborts the process: the case runs in a child process and its death is the violation
fn run_deep(n: usize, drv: &mut Driver, rep: &mut Report) {
    let input = format!("deep xlsb {n}");
    rep.case(&input, true);
    rep.count("deep_memfunc_child_process");
    let exe = std::env::current_exe().expect("current_exe");
    let out = std::process::Command::new(exe)
        .args(["--replay", &format!("deepchild {n}"), "--driver", "-", "--out", "-"])
        .output()
        .expect("child");
    let model = decode_model(&drv.ask(&format!("xlsb {} S= N= X=", hex(&deep_rgce(n)))));
    let stdout = String::from_utf8_lossy(&out.stdout).to_string();
    let imp = match stdout.lines().find_map(|l| l.strip_prefix("RESULT ")) {
        Some(r) if out.status.success() => strip_panic(r),
        _ => format!("process died: {:?}", out.status),
    };
    if imp.starts_with("process died") || imp == "panic" {
        rep.fail("impl_vs_spec", "xlsb_memfunc_stack_overflow", &input, &imp, &model, "Ok or Err (no abort, no panic)");
    }
    if imp != model {
        rep.fail("impl_vs_model", "xlsb_memfunc_nesting", &input, &imp, &model, "");
    }
}

fn run_input(input: &str, drv: &mut Driver, rep: &mut Report, shrunk: &mut u32) {
    let words: Vec<&str> = input.split_whitespace().collect();
    match words[0] {
        "col" => run_col(words[1].parse().unwrap(), drv, rep),
        "enc" => {
            let bar = words.iter().position(|w| *w == "|").unwrap();
            let ctx = Ctx::parse(&words[1..bar].join(" "));
            let mut it = words[bar + 1..].iter();
            let e = Expr::parse(&mut it);
            report_expr_case(&e, &ctx, drv, rep, shrunk);
        }
        "dn" => run_dn(&unhex(words[1]), drv, rep),
        "deep" => run_deep(words[2].parse().unwrap(), drv, rep),
        "xlsxshared" => run_xlsx_shared_wide(words[1].parse().unwrap(), words[2].parse().unwrap(), drv, rep),
        "xlsxf" => run_xlsx_case(&XlsxCase::parse(&words), drv, rep, shrunk),
        "odsf" => run_ods_case(&OdsCase::parse(&words), rep),
        "file" => run_file_case(&FileCase::parse(&words), drv, rep),
        "toks" => {
            // raw token list through the Lean encoders: impl vs model on both encodings
            let reply = drv.ask(input);
            let bar = words.iter().position(|w| *w == "|").unwrap();
            let ctx = Ctx::parse(&words[1..bar].join(" "));
            rep.case(input, true);
            for (fmt, bk) in [("xls", "xls="), ("xlsb", "xlsb=")] {
                let bytes = unhex(field(&reply, bk));
                for f in run_raw(fmt, &bytes, &ctx, drv, None) {
                    rep.fail(f.kind, &f.sig, input, &f.imp, &f.model, &f.expect);
                }
            }
        }
        "raw" => {
            // raw <sig|-> <fmt> <hex> <ctx…>
            let ctx = Ctx::parse(&words[4..].join(" "));
            let sig = if words[1] == "-" { None } else { Some(words[1]) };
            rep.case(input, true);
            rep.count(&format!("raw.{}", words[2]));
            for f in run_raw(words[2], &unhex(words[3]), &ctx, drv, sig) {
                rep.fail(f.kind, &f.sig, input, &f.imp, &f.model, &f.expect);
            }
        }
        x => panic!("bad input kind {x}"),
    }
}

fn main() {
    let args = Args::parse();
    if let Some(r) = &args.replay {
        if let Some(n) = r.strip_prefix("deepchild ") {
            deep_child(n.parse().unwrap());
            return;
        }
    }
    let mut drv = Driver::spawn(&args.driver);
    init_tab(&mut drv);
    let mut rep = Report::new(
        "C14",
        "(1) push_column: every column 0..=65535, real function vs independent bijective base-26 oracle (per value) and vs \
         the Lean model (checksummed blocks). (2) every function index 0..484 as PtgFunc with its table arity and as \
         PtgFuncVar with 1..5 arguments. (3) random expression trees (depth <= 5; relative/absolute/mixed cell and area \
         references, 3-D references through a random XTI table, defined names, int/num/string/bool/error literals, \
         missing arguments, unary/binary operators, parentheses, SUM attribute, fixed- and variable-arity functions, \
         all three operand classes) encoded by the Lean encoders for BIFF8 and for xlsb and decoded by the real \
         parse_formula through the hooks, by the Lean model, and rendered by an independent A1 oracle. (4) raw / \
         mutated token streams (truncation, byte flips, opcode soup, arbitrary UTF-16 units): real decoder vs model \
         (result, error class, panic). (5) file level: generated .xls/.xlsb workbooks (formula records at random cells, \
         3-D references and names through the workbook's own tables) and generated .xlsx (random layouts: `r` written or \
         omitted on rows and cells, prefixes, self-closing, whitespace, dimension present/absent/wrong; formulas on value \
         cells and formula-only cells; texts needing XML escapes) and .ods (repeated rows/cells, blank runs, formula-only \
         cells) read through worksheet_formula: the exact rectangle (bounding box of the formula cells) and the text at \
         every position vs the logical sheet; for xlsx also vs the Lean model of next_formula run on the very XML events \
         that were written. Stated restrictions: plain (non-shared) xlsx formulas only (shared groups are C15); string literals contain no '\"' (decoders copy characters \
         verbatim), sheet names are rendered without quoting, numbers as Rust Display prints them (the model prints a \
         placeholder which the harness substitutes), code page 1200 (BIFF8), xls rows < 65536; function names \
         are compared against the crate's own FTAB (golden) plus 96 names/arities hard-coded from MS-XLS. non-trivial = \
         expression of depth >= 2 (or column >= 26, or a raw stream); distinct by the input text",
    );
    let mut shrunk = 0u32;
    if let Some(inp) = &args.replay {
        run_input(inp, &mut drv, &mut rep, &mut shrunk);
    } else {
        for c in corpus() {
            run_input(c, &mut drv, &mut rep, &mut shrunk);
        }
        // (1) columns
        sweep_cols(&mut drv, &mut rep);
        rep.exhaustive = false;
        // golden function names / arities
        for (i, name, argc) in ftab_golden() {
            rep.count("ftab_golden");
            let input = format!("ftab {i}");
            let t = tab();
            if t.names[i] != name || argc.map_or(false, |a| t.argc[i] != a) {
                rep.fail("impl_vs_spec", "ftab_golden", &input, &format!("{} {}", t.names[i], t.argc[i]), "", &format!("{name} {argc:?}"));
            }
        }
        // (2) every function index
        let mut rng = Rng::new(args.seed);
        let ctx0 = Ctx { sheets: vec!["S1".into()], names: vec![], xtis: vec![0] };
        let o = GenOpts { wide: false };
        for idx in 0..tab().names.len() {
            let argc = tab().argc[idx] as usize;
            if argc <= 30 {
                let args = (0..argc).map(|_| gen_leaf(&mut rng, &ctx0, &o)).collect();
                report_expr_case(&Expr::Func(rng.below(3) as u8, idx as u16, args), &ctx0, &mut drv, &mut rep, &mut shrunk);
                rep.count("func_fixed_index");
            }
            for n in 1..=5 {
                let args = (0..n).map(|_| gen_leaf(&mut rng, &ctx0, &o)).collect();
                report_expr_case(&Expr::FuncVar(rng.below(3) as u8, idx as u16, args), &ctx0, &mut drv, &mut rep, &mut shrunk);
                rep.count("func_var_index");
            }
        }
        // (3) random trees
        let n = args.count(5000, 1_000_000);
        for i in 0..n {
            let ctx = gen_ctx(&mut rng);
            let o = GenOpts { wide: i % 2 == 1 };
            let depth = rng.range(0, 5) as u32;
            let e = gen_expr(&mut rng, depth, &ctx, &o);
            report_expr_case(&e, &ctx, &mut drv, &mut rep, &mut shrunk);
            // (4) raw streams derived from this expression
            if i % 2 == 0 {
                let reply = drv.ask(&format!("enc {} | {}", ctx.wire(), e.wire()));
                let mut ctx2 = ctx.clone();
                if rng.chance(1, 4) {
                    // dangling XTI entries / sheet indices
                    ctx2.xtis.push(*rng.pick(&[-1i16, -2, 7, 300]));
                }
                for (fmt, bk) in [("xls", "xls="), ("xlsb", "xlsb=")] {
                    let valid = unhex(field(&reply, bk));
                    if fmt == "xls" && valid.len() > 60000 {
                        continue;
                    }
                    let raw = gen_raw(&mut rng, fmt, &valid);
                    let input = format!("raw - {fmt} {} {}", hex(&raw), ctx2.wire());
                    rep.case(&input, true);
                    rep.count(&format!("raw.{fmt}"));
                    for f in run_raw(fmt, &raw, &ctx2, &mut drv, None) {
                        rep.fail(f.kind, &f.sig, &input, &f.imp, &f.model, &f.expect);
                    }
                }
            }
        }
    }
    if args.replay.is_none() {
        // defined-name formulas (Lbl rgce)
        let mut rng = Rng::new(args.seed ^ 0xd0d0);
        for _ in 0..args.count(2000, 200_000) {
            let b = gen_dn(&mut rng);
            run_dn(&b, &mut drv, &mut rep);
        }
        // stage 2: formulas at their cells through generated files
        let mut rng = Rng::new(args.seed ^ 0x5eed_f11e);
        let nf = args.count(400, 40_000) / if args.n.is_some() { 10 } else { 1 };
        for i in 0..nf.max(1) {
            let fc = gen_file_case(&mut rng, i % 3 == 2);
            let t0 = std::time::Instant::now();
            if let Ok(p) = std::env::var("VERIF_TRACE_CASES") {
                let _ = std::fs::write(p, fc.wire());
            }
            run_file_case(&fc, &mut drv, &mut rep);
            if t0.elapsed().as_secs() >= 5 {
                rep.count("file_case_slower_than_5s");
                eprintln!("slow file case ({} s): {}", t0.elapsed().as_secs(), fc.wire());
            }
        }
    }
    if args.replay.is_none() {
        // stage 3: xlsx / ods stored-text formulas at their cells
        let mut rng = Rng::new(args.seed ^ 0x57_0e_ed);
        // one wide sheet with more shared-formula groups alive than any fixed-size cache would hold
        let ng = 1100 + rng.below(700) as u32;
        let ls = rng.next();
        run_xlsx_shared_wide(ng, ls, &mut drv, &mut rep);
        let nx = args.count(1500, 150_000) / if args.n.is_some() { 4 } else { 1 };
        for _ in 0..nx.max(1) {
            let xc = gen_xlsx_case(&mut rng);
            run_xlsx_case(&xc, &mut drv, &mut rep, &mut shrunk);
        }
        for _ in 0..nx.max(1) {
            let oc = gen_ods_case(&mut rng);
            run_ods_case(&oc, &mut rep);
        }
    }
    rep.add("driver_requests", drv.requests);
    #[cfg(not(feature = "hooks"))]
    {
        rep.add("skipped.hooks_unavailable.stream_not_presentable_in_a_file", UNREACHABLE.load(std::sync::atomic::Ordering::Relaxed));
        rep.notes.push(
            "built without verif-hooks: no stage skipped, the unit-level stages ran through the public API instead — every token \
             stream (expression trees, every function index, raw / mutated streams, deep nesting) as the formula of a one-cell \
             xls / xlsb workbook read with worksheet_formula; defined-name formulas through the Lbl record and defined_names(); \
             the column sweep covers 0..=16383 (the PtgRef column field) instead of 0..=65535 and `col` cases above 16383 are \
             skipped; function names / arities come from the table the translator read from the source (driver request ftab) \
             instead of the crate's constants; streams longer than a FORMULA record and contexts without sheets whose XTI \
             table names sheet 0 are skipped (counter skipped.hooks_unavailable.*)"
                .into(),
        );
    }
    rep.notes.push("function names/arity: golden snapshot of FTAB/FTAB_ARGC (translated into Gen/Ftab.lean on every run) + 96 entries checked against names written down from MS-XLS".into());
    rep.write(&args.out);
}
