//! C16 — workbook metadata is reported faithfully and in workbook order.
//! A logical workbook (ordered sheets with name / visibility / kind, ordered defined names, date system) is written
//! in each of the four formats under a random layout and read three ways:
//!   impl   : the real calamine readers through the public API (`sheet_names`, `sheets_metadata`, `defined_names`,
//!            and the `ExcelDateTime` of a date-styled cell of every sheet),
//!   model  : the Lean model (`drv_c16`) on the workbook-level bytes / XML events of the same file,
//!   oracle : the logical workbook itself (the property as stated).
//! Unit level (hook `xls::verif::c16_sheet_metadata`): all 65 536 (hsState, dt) byte pairs of BoundSheet8, random
//! and truncated payloads; the harness also checks that the BoundSheet8 / BrtBundleSh payloads in the files are
//! exactly the bytes of the Lean encoders the theorems are about (`encbs`, `encbundle`).
use calamine::{Data, ExcelDateTime, ExcelDateTimeType, HeaderRow, Ods, Reader, SheetType, SheetVisible, Xls, XlsOptions, Xlsb, Xlsx};
use std::io::Cursor;
use verif_harness::cfbw::{write_cfb, CfbOpts};
use verif_harness::xlsxw::{self, Ev};
use verif_harness::{driver::Driver, guarded, hex, odsw, report::Report, rng::Rng, unhex, xlsbw, xlsw, Args};

// ------------------------------------------------------------------------------------------------
// logical workbook
// ------------------------------------------------------------------------------------------------

#[derive(Clone, Copy, PartialEq, Eq, Debug)]
enum Fmt {
    Xls,
    Xlsb,
    Xlsx,
    Ods,
}

impl Fmt {
    fn tag(self) -> &'static str {
        match self {
            Fmt::Xls => "xls",
            Fmt::Xlsb => "xlsb",
            Fmt::Xlsx => "xlsx",
            Fmt::Ods => "ods",
        }
    }
    fn parse(s: &str) -> Fmt {
        match s {
            "xls" => Fmt::Xls,
            "xlsb" => Fmt::Xlsb,
            "xlsx" => Fmt::Xlsx,
            "ods" => Fmt::Ods,
            x => panic!("bad format {x}"),
        }
    }
}

#[derive(Clone, Copy, PartialEq, Eq, Debug)]
enum Kind {
    Work,
    Dialog,
    Macro,
    Chart,
    Vba,
}

impl Kind {
    fn tag(self) -> &'static str {
        match self {
            Kind::Work => "WorkSheet",
            Kind::Dialog => "DialogSheet",
            Kind::Macro => "MacroSheet",
            Kind::Chart => "ChartSheet",
            Kind::Vba => "Vba",
        }
    }
    fn code(self) -> char {
        match self {
            Kind::Work => 'w',
            Kind::Dialog => 'd',
            Kind::Macro => 'm',
            Kind::Chart => 'c',
            Kind::Vba => 'v',
        }
    }
    fn from_code(c: &str) -> Kind {
        match c {
            "w" => Kind::Work,
            "d" => Kind::Dialog,
            "m" => Kind::Macro,
            "c" => Kind::Chart,
            "v" => Kind::Vba,
            x => panic!("bad kind {x}"),
        }
    }
    /// BoundSheet8 dt
    fn xls_dt(self) -> u8 {
        match self {
            Kind::Work | Kind::Dialog => 0,
            Kind::Macro => 1,
            Kind::Chart => 2,
            Kind::Vba => 6,
        }
    }
    fn folder(self) -> &'static str {
        match self {
            Kind::Work | Kind::Vba => "worksheets",
            Kind::Chart => "chartsheets",
            Kind::Dialog => "dialogsheets",
            Kind::Macro => "macrosheets",
        }
    }
}

const VIS_TAG: [&str; 3] = ["Visible", "Hidden", "VeryHidden"];

#[derive(Clone, Debug, PartialEq)]
struct LSheet {
    name: String,
    /// 0 visible, 1 hidden, 2 very hidden
    vis: u8,
    kind: Kind,
}

#[derive(Clone, Debug, PartialEq)]
enum Target {
    /// xlsx / ods: the text of the definition
    Text(String),
    /// xls / xlsb: absolute 3-D cell reference (sheet index, row, col)
    Ref(usize, u32, u32),
    /// absolute 3-D area (sheet, r0, c0, r1, c1)
    Area(usize, u32, u32, u32, u32),
    /// 3-D reference error on a sheet
    RefErr(usize),
    /// 3-D cell reference with relative parts (sheet, row, col, flags: 1 = column relative, 2 = row relative); legal in a
    /// defined name (`=Sheet1!A1` typed without `$`); row/col are rendered as coordinates (the name used from A1)
    RefRel(usize, u32, u32, u8),
    /// 3-D area with relative parts (sheet, r0, c0, r1, c1, flags of the first corner, flags of the second corner)
    AreaRel(usize, u32, u32, u32, u32, u8, u8),
    /// xlsb: a formula that refers to an EARLIER defined name: `<name j> * k` (PtgName, PtgInt, PtgMul)
    NameMul(usize, u16),
}

/// one corner in A1 notation: `$` before an absolute column / row
fn corner(row: u32, col: u32, flags: u8) -> String {
    format!("{}{}{}{}", if flags & 1 == 0 { "$" } else { "" }, col_name(col), if flags & 2 == 0 { "$" } else { "" }, row + 1)
}

/// the 16-bit column field of a BIFF8 / XLSB reference: column, bit 14 = column relative, bit 15 = row relative
fn col_field(col: u32, flags: u8) -> u16 {
    (col as u16) | (((flags & 1) as u16) << 14) | ((((flags >> 1) & 1) as u16) << 15)
}

#[derive(Clone, Debug, PartialEq)]
struct LName {
    name: String,
    target: Target,
}

#[derive(Clone, Debug, PartialEq)]
struct Case {
    fmt: Fmt,
    /// seed of every layout choice
    seed: u64,
    date1904: bool,
    /// xlsx: namespace prefix of the SpreadsheetML elements ("" = default namespace)
    prefix: String,
    /// no layout randomisation (minimal regression inputs)
    plain: bool,
    /// xlsb: extra records between BrtWbProp and BrtBeginBundleShs
    pre: Vec<(u16, Vec<u8>)>,
    /// input outside the specifications, on which the property is silent: only implementation vs model is compared.
    /// 1 = xls DATEMODE record with the value 2; 2 = ods table style name defined twice (hidden first, visible last)
    quirk: u8,
    /// xlsx: an `<extLst>` as last child of `<workbook>` holding foreign-namespace elements whose local names collide
    /// with elements the reader interprets (legal, inert content). Bits: 1 = `x15:workbookPr chartTrackingRefBase="1"`
    /// (what Excel 2013+ writes), 2 = `x14:definedNames/x14:definedName name=…` with argument descriptions (Excel 2010+),
    /// 4 = a future-extension `x15:sheets/x15:sheet` list
    ext: u8,
    /// xlsx: part of every defined-name text is written as a CDATA section
    cdata: bool,
    /// xlsx / ods: elements, comments and processing instructions the metadata readers must skip (fileVersion, bookViews,
    /// calcPr, mc:AlternateContent, externalReferences, pivotCaches / office:scripts, font-face-decls, calculation-settings,
    /// database-ranges …) at random positions between the interpreted elements
    inert: bool,
    /// layout / usage knobs that also apply to `plain` cases (bits):
    /// 1 = xls: the sheet substreams are stored in another order than the BoundSheet8 records (reversed when plain)
    /// 2 = xlsb / xlsx: relationship ids with Latin-1 letters, other BMP and astral characters instead of rIdN
    /// 4 = `with_header_row(..)` is called on the opened reader before anything is read (all formats)
    /// 8 = ods: every table style name is reused by styles of other families (table-column before, table-cell after)
    /// 16 = xls: opened with `XlsOptions::force_codepage = Some(1251)` while the CodePage record says 1252 and every sheet /
    ///      defined name is stored 8-bit in windows-1251 bytes (only when all names are ASCII + А..я; impl vs spec only)
    /// 32 = xlsx: the sheet parts are stored in the archive in reverse tab order
    /// 64 = xls: dual-format file — a decoy `Book` stream (other sheets, other date system) in front of `Workbook`
    /// 128 = xlsx: the relationships namespace is bound to a prefix literally named `id`, declared on every `<sheet>`
    ///       element itself: `<sheet … xmlns:id="…/relationships" id:id="rId1"/>`
    /// 256 = xlsx / xlsb: relationship ids that are equal up to ASCII case (relA0 / RELA0 / RelA0 …)
    /// 512 = xlsb: supporting-link records (BrtSupAddin, BrtSupSame) before BrtSupSelf, BrtSupBookSrc after it; the XTIs
    ///       name the self link by its index
    /// 1024 = ods: the style name is spelled with a character reference where it is used (`table:style-name="t&#97;1"`)
    knobs: u16,
    sheets: Vec<LSheet>,
    names: Vec<LName>,
}

fn col_name(mut c: u32) -> String {
    let mut v = vec![];
    c += 1;
    while c > 0 {
        v.push(b'A' + ((c - 1) % 26) as u8);
        c = (c - 1) / 26;
    }
    v.reverse();
    String::from_utf8(v).unwrap()
}

impl Case {
    fn wire(&self) -> String {
        let sh: Vec<String> = self.sheets.iter().map(|s| format!("{}:{}:{}", hex(s.name.as_bytes()), s.vis, s.kind.code())).collect();
        let nm: Vec<String> = self
            .names
            .iter()
            .map(|n| {
                let t = match &n.target {
                    Target::Text(t) => format!("T:{}", hex(t.as_bytes())),
                    Target::Ref(s, r, c) => format!("R:{s}:{r}:{c}"),
                    Target::Area(s, a, b, c, d) => format!("A:{s}:{a}:{b}:{c}:{d}"),
                    Target::RefErr(s) => format!("E:{s}"),
                    Target::RefRel(s, r, c, f) => format!("r:{s}:{r}:{c}:{f}"),
                    Target::AreaRel(s, a, b, c, d, f0, f1) => format!("a:{s}:{a}:{b}:{c}:{d}:{f0}:{f1}"),
                    Target::NameMul(j, k) => format!("m:{j}:{k}"),
                };
                format!("{}:{}", hex(n.name.as_bytes()), t)
            })
            .collect();
        let pre: Vec<String> = self.pre.iter().map(|(i, p)| format!("{}:{}", i, hex(p))).collect();
        format!(
            "{};{};{};{};{};P={};S={};N={};Q={};X={};C={};I={};K={}",
            self.fmt.tag(),
            self.seed,
            self.date1904 as u8,
            if self.prefix.is_empty() { "-" } else { &self.prefix },
            self.plain as u8,
            pre.join(","),
            sh.join(","),
            nm.join(","),
            self.quirk,
            self.ext,
            self.cdata as u8,
            self.inert as u8,
            self.knobs
        )
    }
    fn parse(s: &str) -> Case {
        let p: Vec<&str> = s.split(';').collect();
        assert!((8..=13).contains(&p.len()), "bad case {s}");
        let utf = |h: &str| String::from_utf8(unhex(h)).expect("utf8");
        let list = |x: &str, pre: &str| -> Vec<String> {
            let b = x.strip_prefix(pre).expect("prefix");
            if b.is_empty() {
                vec![]
            } else {
                b.split(',').map(|s| s.to_string()).collect()
            }
        };
        let sheets = list(p[6], "S=")
            .iter()
            .map(|e| {
                let f: Vec<&str> = e.split(':').collect();
                LSheet { name: utf(f[0]), vis: f[1].parse().unwrap(), kind: Kind::from_code(f[2]) }
            })
            .collect();
        let names = list(p[7], "N=")
            .iter()
            .map(|e| {
                let f: Vec<&str> = e.split(':').collect();
                let n = |i: usize| f[i].parse::<u32>().unwrap();
                let target = match f[1] {
                    "T" => Target::Text(utf(f[2])),
                    "R" => Target::Ref(n(2) as usize, n(3), n(4)),
                    "A" => Target::Area(n(2) as usize, n(3), n(4), n(5), n(6)),
                    "E" => Target::RefErr(n(2) as usize),
                    "r" => Target::RefRel(n(2) as usize, n(3), n(4), n(5) as u8),
                    "a" => Target::AreaRel(n(2) as usize, n(3), n(4), n(5), n(6), n(7) as u8, n(8) as u8),
                    "m" => Target::NameMul(n(2) as usize, n(3) as u16),
                    x => panic!("bad target {x}"),
                };
                LName { name: utf(f[0]), target }
            })
            .collect();
        let pre = list(p[5], "P=")
            .iter()
            .map(|e| {
                let f: Vec<&str> = e.split(':').collect();
                (f[0].parse().unwrap(), unhex(f[1]))
            })
            .collect();
        Case {
            fmt: Fmt::parse(p[0]),
            seed: p[1].parse().unwrap(),
            date1904: p[2] == "1",
            prefix: if p[3] == "-" { String::new() } else { p[3].to_string() },
            plain: p[4] == "1",
            pre,
            quirk: if p.len() >= 9 { p[8].strip_prefix("Q=").expect("Q=").parse().unwrap() } else { 0 },
            ext: if p.len() >= 10 { p[9].strip_prefix("X=").expect("X=").parse().unwrap() } else { 0 },
            cdata: p.len() >= 11 && p[10] == "C=1",
            inert: p.len() >= 12 && p[11] == "I=1",
            knobs: if p.len() >= 13 { p[12].strip_prefix("K=").expect("K=").parse().unwrap() } else { 0 },
            sheets,
            names,
        }
    }

    /// the text `defined_names()` is expected to give for a target
    fn target_text(&self, t: &Target) -> String {
        let sh = |i: &usize| self.sheets[*i].name.clone();
        match t {
            Target::Text(s) => s.clone(),
            Target::Ref(s, r, c) => format!("{}!${}${}", sh(s), col_name(*c), r + 1),
            Target::Area(s, r0, c0, r1, c1) => format!("{}!${}${}:${}${}", sh(s), col_name(*c0), r0 + 1, col_name(*c1), r1 + 1),
            Target::RefErr(s) => format!("{}!#REF!", sh(s)),
            Target::RefRel(s, r, c, f) => format!("{}!{}", sh(s), corner(*r, *c, *f)),
            Target::AreaRel(s, r0, c0, r1, c1, f0, f1) => format!("{}!{}:{}", sh(s), corner(*r0, *c0, *f0), corner(*r1, *c1, *f1)),
            Target::NameMul(j, k) => format!("{}*{}", self.names[*j].name, k),
        }
    }

    /// the property's expectation, in the canonical form shared with the driver and the implementation dump
    fn expect(&self) -> String {
        let sh: Vec<String> = self
            .sheets
            .iter()
            .map(|s| {
                let (kind, vis) = match self.fmt {
                    // ods expresses neither kinds nor "very hidden"
                    Fmt::Ods => (Kind::Work, s.vis.min(1)),
                    _ => (s.kind, s.vis),
                };
                format!("{}:{}:{}", hex(s.name.as_bytes()), kind.tag(), VIS_TAG[vis as usize])
            })
            .collect();
        let nm: Vec<String> = self.names.iter().map(|n| format!("{}={}", hex(n.name.as_bytes()), hex(self.target_text(&n.target).as_bytes()))).collect();
        let d = if self.fmt == Fmt::Ods || self.sheets.is_empty() { "-".to_string() } else { (self.date1904 as u8).to_string().repeat(date_kinds(self.fmt)) };
        format!("ok d={} S={} N={}", d, sh.join(","), nm.join(","))
    }
}

// ------------------------------------------------------------------------------------------------
// generation
// ------------------------------------------------------------------------------------------------

const POOL_ASCII: &str = "abcdefghijklmnopqrstuvwxyzABCDEFGHIJKLMNOPQRSTUVWXYZ0123456789 _-.,;()+=!#$%@^{}~";
const POOL_XML: &str = "&<>\"'";
const POOL_LATIN1: &str = "éüñßÿÀ¡±µ";
const POOL_BMP: &str = "ЖыяΩλ中文字シート한€ŁşİĂ";
const POOL_ASTRAL: &str = "😀𝒳🂡𐍈";

fn pick_char(rng: &mut Rng, pool: &str) -> char {
    let v: Vec<char> = pool.chars().collect();
    *rng.pick(&v)
}

/// a sheet name of 1..=31 UTF-16 units; the mix of character classes is chosen per name
fn gen_sheet_name(rng: &mut Rng, i: usize) -> String {
    let style = rng.below(8);
    let max_units = match rng.below(6) {
        0 => 1,
        1 => 31,
        2 => rng.range(28, 31),
        _ => rng.range(1, 12),
    } as usize;
    let mut s = String::new();
    let mut units = 0;
    if style == 0 {
        s = format!("Sheet{}", i + 1);
        return s;
    }
    while units < max_units {
        let coin = rng.chance(1, 2);
        let any = *rng.pick(&[POOL_ASCII, POOL_XML, POOL_LATIN1, POOL_BMP, POOL_ASTRAL]);
        let pool = match style {
            1 => POOL_ASCII,
            2 => if coin { POOL_XML } else { POOL_ASCII },
            3 => if coin { POOL_LATIN1 } else { POOL_ASCII },
            4 => POOL_BMP,
            5 => if coin { POOL_ASTRAL } else { POOL_BMP },
            _ => any,
        };
        let c = pick_char(rng, pool);
        if units + c.len_utf16() > max_units {
            if c.len_utf16() == 2 && units + 1 == max_units {
                s.push('z');
                units += 1;
            }
            break;
        }
        s.push(c);
        units += c.len_utf16();
    }
    if s.is_empty() {
        s.push('q');
    }
    // a name may start with U+FEFF (the readers must not take it for a byte-order mark)
    if rng.chance(1, 40) && s.encode_utf16().count() < 31 {
        s.insert(0, '\u{FEFF}');
    }
    s
}

/// a defined-name identifier (letters, digits, `_`, `.`; first character a letter or `_`), 1..=24 units
fn gen_def_name(rng: &mut Rng) -> String {
    let n = match rng.below(5) {
        0 => 1,
        1 => 2,
        _ => rng.range(1, 24),
    } as usize;
    let style = rng.below(4);
    let mut s = String::new();
    let first: Vec<char> = "abcXYZ_ЖыÉλ".chars().collect();
    let rest: Vec<char> = "abcdefXYZ_0123456789.ЖыяÉñλ中".chars().collect();
    let ascii_first: Vec<char> = "abcXYZ_".chars().collect();
    let ascii_rest: Vec<char> = "abcdefXYZ_0123456789.".chars().collect();
    for i in 0..n {
        let c = match (style, i) {
            (0, 0) => *rng.pick(&ascii_first),
            (0, _) => *rng.pick(&ascii_rest),
            (_, 0) => *rng.pick(&first),
            _ => *rng.pick(&rest),
        };
        s.push(c);
    }
    s
}

fn gen_text_definition(rng: &mut Rng, sheets: &[LSheet]) -> String {
    match rng.below(7) {
        0 => String::new(),
        1 => "Sheet1!$A$1".into(),
        2 => "'My Sheet'!$B$2:$C$10".into(),
        3 => "\"a\"&\"<b>\"".into(),
        4 => "IF(1<2,\"x & y\",'S 1'!$A$1>3)".into(),
        5 if !sheets.is_empty() => format!("'{}'!$A${}", sheets[rng.below(sheets.len() as u64) as usize].name.replace('\'', "''"), rng.range(1, 99)),
        _ => format!("$Sheet.$A${}:.$C${} é😀", rng.range(1, 9), rng.range(10, 99)),
    }
}

/// a name of ASCII letters and the letters А..я (all of windows-1251's 0xC0..0xFF), 1..=12 characters
fn gen_cp1251_name(rng: &mut Rng, first_letter: bool) -> String {
    let n = rng.range(1, 12) as usize;
    let mut s = String::new();
    for i in 0..n {
        let c = match rng.below(3) {
            0 if !(first_letter && i == 0) => char::from_u32(0x30 + rng.below(10) as u32).unwrap(),
            0 | 1 => char::from_u32(0x0410 + rng.below(64) as u32).unwrap(),
            _ => char::from_u32(0x61 + rng.below(26) as u32).unwrap(),
        };
        s.push(c);
    }
    s
}

fn gen_case(fmt: Fmt, rng: &mut Rng) -> Case {
    // xls: a sixth of the cases are read under a forced code page; their names are windows-1251 text
    let force16 = fmt == Fmt::Xls && rng.chance(1, 6);
    let n_sheets = match rng.below(10) {
        0 => 0,
        1 => 1,
        2 => 12,
        _ => rng.range(1, 12),
    } as usize;
    let mut sheets: Vec<LSheet> = vec![];
    while sheets.len() < n_sheets {
        let name = if force16 { gen_cp1251_name(rng, false) } else { gen_sheet_name(rng, sheets.len()) };
        if sheets.iter().any(|s| s.name == name) {
            continue;
        }
        let vis = match fmt {
            Fmt::Ods => *rng.pick(&[0u8, 0, 1]),
            _ => *rng.pick(&[0u8, 0, 1, 2]),
        };
        let kind = match fmt {
            Fmt::Ods => Kind::Work,
            Fmt::Xls => *rng.pick(&[Kind::Work, Kind::Work, Kind::Macro, Kind::Chart, Kind::Vba]),
            _ => *rng.pick(&[Kind::Work, Kind::Work, Kind::Chart, Kind::Dialog, Kind::Macro]),
        };
        sheets.push(LSheet { name, vis, kind });
    }
    let n_names = if rng.chance(1, 3) { 0 } else { rng.range(0, 10) } as usize;
    let mut names: Vec<LName> = vec![];
    while names.len() < n_names {
        let name = if force16 { gen_cp1251_name(rng, true) } else { gen_def_name(rng) };
        if names.iter().any(|n| n.name == name) {
            continue;
        }
        let target = match fmt {
            Fmt::Xlsx | Fmt::Ods => Target::Text(gen_text_definition(rng, &sheets)),
            _ => {
                if sheets.is_empty() {
                    break;
                }
                let s = rng.below(sheets.len() as u64) as usize;
                let (maxr, maxc) = if fmt == Fmt::Xls { (65535u64, 255u64) } else { (1_048_575u64, 16_383u64) };
                let coord = |rng: &mut Rng, m: u64| -> u32 {
                    (match rng.below(5) {
                        0 => 0,
                        1 => m,
                        2 => rng.range(0, m),
                        _ => rng.range(0, 40.min(m)),
                    }) as u32
                };
                // relative parts: the fields hold coordinates (small ones: a 14-bit column field in either format)
                let maxc_rel = maxc.min(16_383);
                match if fmt == Fmt::Xlsb && !names.is_empty() && rng.chance(1, 4) { 99 } else { rng.below(7) } {
                    99 => Target::NameMul(rng.below(names.len() as u64) as usize, rng.range(2, 999) as u16),
                    0 => Target::RefErr(s),
                    1 | 2 => Target::Ref(s, coord(rng, maxr), coord(rng, maxc)),
                    5 => Target::RefRel(s, coord(rng, maxr), coord(rng, maxc_rel), rng.range(1, 3) as u8),
                    6 => {
                        let (r0, r1) = (coord(rng, maxr), coord(rng, maxr));
                        let (c0, c1) = (coord(rng, maxc_rel), coord(rng, maxc_rel));
                        Target::AreaRel(s, r0.min(r1), c0.min(c1), r0.max(r1), c0.max(c1), rng.below(4) as u8, rng.below(4) as u8)
                    }
                    _ => {
                        let (r0, r1) = (coord(rng, maxr), coord(rng, maxr));
                        let (c0, c1) = (coord(rng, maxc), coord(rng, maxc));
                        Target::Area(s, r0.min(r1), c0.min(c1), r0.max(r1), c0.max(c1))
                    }
                }
            }
        };
        names.push(LName { name, target });
        // the same name defined again right behind, with the same definition but another (sheet-local) scope:
        // two defined names of the workbook, both must be listed
        if matches!(fmt, Fmt::Xls | Fmt::Xlsb) && sheets.len() >= 2 && names.len() < n_names && rng.chance(1, 6) {
            let twin = names[names.len() - 1].clone();
            if !matches!(twin.target, Target::NameMul(..)) {
                names.push(twin);
            }
        }
    }
    // xlsb: the records Excel writes between BrtWbProp and BrtBeginBundleShs (BrtBeginBookViews, BrtBookView with the
    // window geometry, BrtEndBookViews) and an unknown future record, with their payloads
    let mut pre = vec![];
    if fmt == Fmt::Xlsb && rng.chance(1, 2) {
        let coord = |rng: &mut Rng| -> u32 {
            match rng.below(6) {
                0 => *rng.pick(&[400u32, 412, 409, 0x019C_0190, 144, 156]),
                1 => rng.next() as u32,
                _ => rng.below(40000) as u32,
            }
        };
        let mut p = vec![];
        for _ in 0..4 {
            p.extend_from_slice(&coord(rng).to_le_bytes());
        }
        p.extend_from_slice(&600u32.to_le_bytes());
        p.extend_from_slice(&0u32.to_le_bytes());
        p.extend_from_slice(&(rng.below(n_sheets as u64 + 1) as u32).to_le_bytes());
        p.push(0x78);
        pre.push((0x0087u16, vec![]));
        pre.push((0x009Eu16, p));
        pre.push((0x0088u16, vec![]));
        if rng.chance(1, 4) {
            let n = rng.below(12) as usize;
            pre.push((0x0C00u16, rng.bytes(n)));
        }
    }
    Case {
        fmt,
        seed: rng.next() >> 16,
        date1904: rng.chance(1, 2),
        prefix: if fmt == Fmt::Xlsx && rng.chance(1, 3) { "x".into() } else { String::new() },
        plain: false,
        pre,
        quirk: match fmt {
            Fmt::Xls if rng.chance(1, 25) => 1,
            Fmt::Ods if rng.chance(1, 25) => 2,
            _ => 0,
        },
        ext: if fmt == Fmt::Xlsx && rng.chance(1, 2) { *rng.pick(&[1u8, 1, 1, 2, 3, 4, 5, 7]) } else { 0 },
        cdata: fmt == Fmt::Xlsx && rng.chance(1, 3),
        inert: matches!(fmt, Fmt::Xlsx | Fmt::Ods) && rng.chance(1, 2),
        knobs: {
            let mut k = 0u16;
            if fmt == Fmt::Xls && rng.chance(1, 2) {
                k |= 1;
            }
            if matches!(fmt, Fmt::Xlsb | Fmt::Xlsx) && rng.chance(1, 2) {
                k |= 2;
            }
            if rng.chance(1, 3) {
                k |= 4;
            }
            if fmt == Fmt::Ods && rng.chance(1, 2) {
                k |= 8;
            }
            if fmt == Fmt::Xls && force16 {
                k |= 16;
            }
            if fmt == Fmt::Xlsx && rng.chance(1, 2) {
                k |= 32;
            }
            if fmt == Fmt::Xls && rng.chance(1, 4) {
                k |= 64;
            }
            if fmt == Fmt::Xlsx && rng.chance(1, 8) {
                k |= 128;
            }
            if matches!(fmt, Fmt::Xlsb | Fmt::Xlsx) && k & 2 == 0 && rng.chance(1, 3) {
                k |= 256;
            }
            if fmt == Fmt::Xlsb && rng.chance(1, 2) {
                k |= 512;
            }
            if fmt == Fmt::Ods && rng.chance(1, 2) {
                k |= 1024;
            }
            k
        },
        sheets,
        names,
    }
}

// ------------------------------------------------------------------------------------------------
// writers: file bytes + the request line for the model
// ------------------------------------------------------------------------------------------------

/// windows-1251 bytes of a text made of ASCII and the letters А..я (0xC0..0xFF), else None
fn to_cp1251(t: &str) -> Option<Vec<u8>> {
    t.chars()
        .map(|ch| match ch as u32 {
            c @ 0x20..=0x7E => Some(c as u8),
            c @ 0x0410..=0x044F => Some((0xC0 + (c - 0x0410)) as u8),
            _ => None,
        })
        .collect()
}

/// the forced-code-page stage applies: knob 16 and every name has a windows-1251 byte form
fn forced_cp(c: &Case) -> bool {
    c.fmt == Fmt::Xls
        && c.knobs & 16 != 0
        && c.sheets.iter().all(|s| to_cp1251(&s.name).is_some())
        && c.names.iter().all(|n| to_cp1251(&n.name).is_some())
}

/// a byte string as the text whose UTF-16 units are those bytes (what an 8-bit BIFF8 string stores)
fn bytes_as_units(b: &[u8]) -> String {
    b.iter().map(|x| *x as char).collect()
}

struct Built {
    bytes: Vec<u8>,
    /// `Some(cp)`: open through `Xls::new_with_options` with `force_codepage = Some(cp)`
    force_codepage: Option<u16>,
    /// request for the model on the workbook-level bytes / events
    request: String,
    /// encoder ties: (driver request, expected reply)
    ties: Vec<(String, String)>,
}

/// the row of date-styled cells of sheet `i`, its first column and the base serial. Every numeric record kind and
/// encoding of the format gets one date-styled cell in this row (see `DATE_KINDS`), in consecutive columns.
fn date_cell(i: usize) -> (u32, u32, f64) {
    // the serials cover a time of day without a date part (in [0, 1)), day-sized values, exactly 0 (and 1 through the
    // MULRK / whole-number neighbours) and negative values
    let v = match i % 4 {
        0 => 0.75,
        1 => 40000.0 + i as f64 + 0.5,
        2 => 0.0,
        _ => -1.5,
    };
    ((i % 3) as u32, (i % 4) as u32, v)
}

/// number of date-styled numeric cells per sheet:
/// xls   NUMBER, RK int, RK int/100, RK float, RK float/100, MULRK (int + float/100), FORMULA with a cached number
/// xlsb  BrtCellReal, BrtCellRk int, int/100, float, float/100, BrtFmlaNum
/// xlsx  `<c><v>` (with or without t="n", the layout decides), a whole number, a formula with a cached number
fn date_kinds(fmt: Fmt) -> usize {
    match fmt {
        Fmt::Xls => 8,
        Fmt::Xlsb => 6,
        Fmt::Xlsx => 3,
        Fmt::Ods => 0,
    }
}

/// the relationship id of sheet `i` (knob 2: NCNames with Latin-1 letters — one UTF-16 unit, two UTF-8 bytes —, other
/// BMP characters and astral characters; never `rId<k>`, which the writers use for styles / shared strings)
fn rel_id(c: &Case, i: usize, rng: &mut Rng) -> String {
    if c.knobs & 256 != 0 {
        // groups of three ids that differ in case only
        let g = i / 3;
        return match i % 3 {
            0 => format!("relA{g}"),
            1 => format!("RELA{g}"),
            _ => format!("RelA{g}"),
        };
    }
    if c.knobs & 2 == 0 {
        return format!("rId{}", i + 1);
    }
    let forms = ["Blatt_Übersicht", "idRésumé", "ÿ", "シート", "Лист_é", "id😀", "sheetÜ𝒳"];
    let f = if c.plain { forms[i % 2] } else { *rng.pick(&forms) };
    format!("{}{}", f, i + 1)
}

/// scope of defined name `j`: `None` = workbook, `Some(k)` = local to sheet `k` — the k-th occurrence of a name that
/// is defined several times is local to sheet k
fn name_scope(c: &Case, j: usize) -> Option<usize> {
    let total = c.names.iter().filter(|n| n.name == c.names[j].name).count();
    if total <= 1 {
        return None;
    }
    let occ = c.names[..j].iter().filter(|n| n.name == c.names[j].name).count();
    Some(occ.min(c.sheets.len().saturating_sub(1)))
}

fn units_hex(u: &[u16]) -> String {
    hex(&u.iter().flat_map(|x| x.to_le_bytes()).collect::<Vec<u8>>())
}

fn build_xls(c: &Case) -> Built {
    let mut rng = Rng::new(c.seed);
    let mut book = xlsw::XlsBook::new();
    book.date1904 = c.date1904;
    book.xfs = vec![0, 14];
    let forced = forced_cp(c);
    // under the forced code page every name is stored as its windows-1251 bytes, one byte per character
    let wname = |n: &str| if forced { bytes_as_units(&to_cp1251(n).unwrap()) } else { n.to_string() };
    if c.quirk == 1 {
        // f1904DateSystem must be 0 or 1 (MS-XLS 2.4.77); 2 is outside the specification
        book.date1904 = false;
        book.globals_head.push((xlsw::DATEMODE, 2u16.to_le_bytes().to_vec()));
    }
    if forced {
        // the record names a valid code page, but not the one the caller knows to be right
        book.codepage = Some(1252);
    } else if !c.plain && rng.chance(1, 4) {
        book.codepage = None;
    }
    if !c.plain {
        // records the globals loop ignores (WRITEACCESS, WINDOW1, FONT, STYLE, unknown)
        for _ in 0..rng.below(4) {
            let typ = *rng.pick(&[0x005Cu16, 0x003D, 0x0031, 0x0293, 0x0160, 0x01C1, 0x00FF]);
            let n = rng.below(24) as usize;
            book.globals_head.push((typ, rng.bytes(n)));
        }
        for _ in 0..rng.below(3) {
            let typ = *rng.pick(&[0x008Cu16, 0x00EB, 0x01AF, 0x0092]);
            let n = rng.below(16) as usize;
            book.globals_tail.push((typ, rng.bytes(n)));
        }
    }
    for (i, s) in c.sheets.iter().enumerate() {
        let mut sh = xlsw::XlsSheet::new(&wname(&s.name));
        let reserved = if c.plain { 0 } else { (rng.below(4) as u8) << 6 };
        sh.visible = s.vis | reserved;
        sh.kind = s.kind.xls_dt();
        sh.name_wide = if c.plain || forced { Some(false) } else { None };
        let (r, col, v) = date_cell(i);
        let whole = v.floor() as i32;
        // a double whose low 34 bits are zero (what an RK float can hold), about 100 * v
        let v100 = ((whole * 100 + 50) & !15) as f64;
        let kinds: Vec<xlsw::CellV> = vec![
            xlsw::CellV::Number(v),
            xlsw::CellV::Rk(xlsw::rk_int(whole, false)),
            xlsw::CellV::Rk(xlsw::rk_int(whole * 100 + 50, true)),
            xlsw::CellV::Rk(xlsw::rk_float(v, false).expect("rk float")),
            xlsw::CellV::Rk(xlsw::rk_float(v100, true).expect("rk float/100")),
            xlsw::CellV::MulRk(vec![(1, xlsw::rk_int(whole + 1, false)), (1, xlsw::rk_float(v100, true).expect("rk"))]),
            xlsw::CellV::Formula { rgce: xlsw::rgce_int(1), cached: xlsw::Cached::Num(v) },
        ];
        let mut cc = col as u16;
        for k in kinds {
            let width = if let xlsw::CellV::MulRk(x) = &k { x.len() as u16 } else { 1 };
            let mut dc = xlsw::XlsCell::new(r as u16, cc, k);
            dc.xf = 1;
            sh.cells.push(dc);
            cc += width;
        }
        sh.cells.push(xlsw::XlsCell::new(r as u16 + 1, col as u16, xlsw::CellV::Number(7.25)));
        book.sheets.push(sh);
    }
    // XTI table: one entry per referenced sheet, in random order, plus decoys
    let mut referenced: Vec<usize> = vec![];
    for n in &c.names {
        let s = match &n.target {
            Target::Ref(s, ..) | Target::Area(s, ..) | Target::RefErr(s) | Target::RefRel(s, ..) | Target::AreaRel(s, ..) => *s,
            Target::Text(_) | Target::NameMul(..) => continue,
        };
        if !referenced.contains(&s) {
            referenced.push(s);
        }
    }
    if !c.plain {
        for _ in 0..rng.below(3) {
            if !c.sheets.is_empty() {
                referenced.push(rng.below(c.sheets.len() as u64) as usize);
            }
        }
        rng.shuffle(&mut referenced);
    }
    book.xtis = referenced.iter().map(|s| (0u16, *s as i16, *s as i16)).collect();
    for (j, n) in c.names.iter().enumerate() {
        let class = if c.plain { 0x00 } else { *rng.pick(&[0x00u8, 0x20, 0x40]) };
        let ixti_of = |s: &usize| referenced.iter().position(|x| x == s).unwrap() as u16;
        let mut rgce = vec![];
        match &n.target {
            Target::Ref(s, r, col) => {
                rgce.push(0x3A + class);
                rgce.extend_from_slice(&ixti_of(s).to_le_bytes());
                rgce.extend_from_slice(&(*r as u16).to_le_bytes());
                rgce.extend_from_slice(&(*col as u16).to_le_bytes());
            }
            Target::Area(s, r0, c0, r1, c1) => {
                rgce.push(0x3B + class);
                rgce.extend_from_slice(&ixti_of(s).to_le_bytes());
                rgce.extend_from_slice(&(*r0 as u16).to_le_bytes());
                rgce.extend_from_slice(&(*r1 as u16).to_le_bytes());
                rgce.extend_from_slice(&(*c0 as u16).to_le_bytes());
                rgce.extend_from_slice(&(*c1 as u16).to_le_bytes());
            }
            Target::RefErr(s) => {
                rgce.push(0x3C + class);
                rgce.extend_from_slice(&ixti_of(s).to_le_bytes());
                rgce.extend_from_slice(&[0u8; 4]);
            }
            Target::RefRel(s, r, col, f) => {
                rgce.push(0x3A + class);
                rgce.extend_from_slice(&ixti_of(s).to_le_bytes());
                rgce.extend_from_slice(&(*r as u16).to_le_bytes());
                rgce.extend_from_slice(&col_field(*col, *f).to_le_bytes());
            }
            Target::NameMul(..) => unreachable!("names referring to names are generated for xlsb only"),
            Target::AreaRel(s, r0, c0, r1, c1, f0, f1) => {
                rgce.push(0x3B + class);
                rgce.extend_from_slice(&ixti_of(s).to_le_bytes());
                rgce.extend_from_slice(&(*r0 as u16).to_le_bytes());
                rgce.extend_from_slice(&(*r1 as u16).to_le_bytes());
                rgce.extend_from_slice(&col_field(*c0, *f0).to_le_bytes());
                rgce.extend_from_slice(&col_field(*c1, *f1).to_le_bytes());
            }
            Target::Text(_) => unreachable!("text definitions are for xlsx/ods"),
        }
        book.names.push(xlsw::XlsName { name: wname(&n.name), rgce, name_wide: if c.plain || forced { Some(false) } else { None }, itab: name_scope(c, j).map_or(0, |k| k as u16 + 1) });
    }
    if c.knobs & 1 != 0 && c.sheets.len() >= 2 {
        let mut order: Vec<usize> = (0..c.sheets.len()).rev().collect();
        if !c.plain {
            rng.shuffle(&mut order);
        }
        book.substream_order = Some(order);
    }
    let wb = book.workbook_stream(&mut rng);
    let mut opts = if c.plain { CfbOpts::default() } else { CfbOpts::random(&mut rng) };
    if wb.len() >= 4096 || wb.is_empty() {
        opts.sector_size = 512;
    }
    let bytes = if c.knobs & 64 != 0 {
        // dual-format file (Excel 97-2003 & 5.0/95): the BIFF5 copy `Book` sits in front of `Workbook` in the directory
        let mut decoy = xlsw::XlsBook::new();
        decoy.date1904 = !c.date1904;
        decoy.xfs = vec![0, 14];
        let mut dsh = xlsw::XlsSheet::new("Decoy5");
        dsh.visible = 1;
        let mut dc = xlsw::XlsCell::new(0, 0, xlsw::CellV::Number(41000.5));
        dc.xf = 1;
        dsh.cells.push(dc);
        decoy.sheets.push(dsh);
        let dstream = decoy.workbook_stream(&mut rng);
        opts.dir_shuffle = false;
        opts.sector_size = 512;
        write_cfb(&[("Book".to_string(), dstream), (book.stream_name.clone(), wb.clone())], &opts, &mut rng)
    } else {
        write_cfb(&[(book.stream_name.clone(), wb.clone())], &opts, &mut rng)
    };
    // encoder tie: every BoundSheet8 payload of the stream is what the Lean encoder lays out
    let mut ties = vec![];
    let mut pos = 0;
    let mut k = 0;
    while pos + 4 <= wb.len() && k < c.sheets.len() {
        let typ = u16::from_le_bytes([wb[pos], wb[pos + 1]]);
        let len = u16::from_le_bytes([wb[pos + 2], wb[pos + 3]]) as usize;
        let data = &wb[pos + 4..pos + 4 + len];
        if typ == 0x0085 {
            let off = u32::from_le_bytes([data[0], data[1], data[2], data[3]]);
            let wide = data[7] & 1;
            let units: Vec<u16> = wname(&c.sheets[k].name).encode_utf16().collect();
            ties.push((format!("encbs {} {} {} {} {}", off, data[4], data[5], wide, units_hex(&units)), hex(data)));
            k += 1;
        }
        if typ == 0x000A {
            break;
        }
        pos += 4 + len;
    }
    Built { bytes, force_codepage: if forced { Some(1251) } else { None }, request: format!("xls {}", hex(&wb)), ties }
}

fn build_xlsb(c: &Case) -> Built {
    let mut rng = Rng::new(c.seed);
    let mut book = xlsbw::XlsbBook::new();
    book.date1904 = c.date1904;
    book.xfs = Some(vec![0, 14]);
    book.framing = if c.plain { xlsbw::Framing::Minimal } else { xlsbw::Framing::Random(rng.next()) };
    book.deflate = c.plain || rng.chance(1, 2);
    book.workbook_pre = c.pre.clone();
    for (i, s) in c.sheets.iter().enumerate() {
        let mut sh = xlsbw::XlsbSheet::new(&s.name);
        sh.state = s.vis as u32;
        sh.kind = match s.kind {
            Kind::Work | Kind::Vba => xlsbw::SheetKind::Work,
            Kind::Chart => xlsbw::SheetKind::Chart,
            Kind::Dialog => xlsbw::SheetKind::Dialog,
            Kind::Macro => xlsbw::SheetKind::Macro,
        };
        let (r, col, v) = date_cell(i);
        let whole = v.floor() as i32;
        sh.set(r, col, xlsbw::BVal::real(v)).style = 1;
        sh.set(r, col + 1, xlsbw::BVal::rk_int(whole, false)).style = 1;
        sh.set(r, col + 2, xlsbw::BVal::rk_int(whole * 100 + 50, true)).style = 1;
        sh.set(r, col + 3, xlsbw::BVal::rk_float(v.to_bits(), false)).style = 1;
        sh.set(r, col + 4, xlsbw::BVal::rk_float((v * 100.0).to_bits(), true)).style = 1;
        {
            let c = sh.set(r, col + 5, xlsbw::BVal::real(v));
            c.style = 1;
            c.fmla = Some(xlsbw::Fmla::trivial());
        }
        sh.set(r + 1, col, xlsbw::BVal::real(7.25));
        book.sheets.push(sh);
    }
    let mut referenced: Vec<usize> = vec![];
    for n in &c.names {
        let s = match &n.target {
            Target::Ref(s, ..) | Target::Area(s, ..) | Target::RefErr(s) | Target::RefRel(s, ..) | Target::AreaRel(s, ..) => *s,
            Target::Text(_) | Target::NameMul(..) => continue,
        };
        if !referenced.contains(&s) {
            referenced.push(s);
        }
    }
    if !c.plain {
        for _ in 0..rng.below(3) {
            if !c.sheets.is_empty() {
                referenced.push(rng.below(c.sheets.len() as u64) as usize);
            }
        }
        rng.shuffle(&mut referenced);
    }
    book.extern_sheets = referenced.iter().map(|s| (*s as i32, *s as i32)).collect();
    for (j, n) in c.names.iter().enumerate() {
        let class = if c.plain { 0x00 } else { *rng.pick(&[0x00u8, 0x20, 0x40]) };
        let ixti_of = |s: &usize| referenced.iter().position(|x| x == s).unwrap() as u16;
        let mut rgce = vec![];
        match &n.target {
            Target::Ref(s, r, col) => {
                rgce.push(0x3A + class);
                rgce.extend_from_slice(&ixti_of(s).to_le_bytes());
                rgce.extend_from_slice(&r.to_le_bytes());
                rgce.extend_from_slice(&(*col as u16).to_le_bytes());
            }
            Target::Area(s, r0, c0, r1, c1) => {
                rgce.push(0x3B + class);
                rgce.extend_from_slice(&ixti_of(s).to_le_bytes());
                rgce.extend_from_slice(&r0.to_le_bytes());
                rgce.extend_from_slice(&r1.to_le_bytes());
                rgce.extend_from_slice(&(*c0 as u16).to_le_bytes());
                rgce.extend_from_slice(&(*c1 as u16).to_le_bytes());
            }
            Target::RefErr(s) => {
                rgce.push(0x3C + class);
                rgce.extend_from_slice(&ixti_of(s).to_le_bytes());
                rgce.extend_from_slice(&[0u8; 6]);
            }
            Target::RefRel(s, r, col, f) => {
                rgce.push(0x3A + class);
                rgce.extend_from_slice(&ixti_of(s).to_le_bytes());
                rgce.extend_from_slice(&r.to_le_bytes());
                rgce.extend_from_slice(&col_field(*col, *f).to_le_bytes());
            }
            Target::NameMul(j, k) => {
                rgce.push(0x23 + class);
                rgce.extend_from_slice(&(*j as u32 + 1).to_le_bytes());
                rgce.push(0x1E);
                rgce.extend_from_slice(&k.to_le_bytes());
                rgce.push(0x05);
            }
            Target::AreaRel(s, r0, c0, r1, c1, f0, f1) => {
                rgce.push(0x3B + class);
                rgce.extend_from_slice(&ixti_of(s).to_le_bytes());
                rgce.extend_from_slice(&r0.to_le_bytes());
                rgce.extend_from_slice(&r1.to_le_bytes());
                rgce.extend_from_slice(&col_field(*c0, *f0).to_le_bytes());
                rgce.extend_from_slice(&col_field(*c1, *f1).to_le_bytes());
            }
            Target::Text(_) => unreachable!("text definitions are for xlsx/ods"),
        }
        book.names.push(xlsbw::DefinedName { name: n.name.clone(), rgce, itab: name_scope(c, j).map_or(0xFFFF_FFFF, |k| k as u32) });
    }
    if c.knobs & 512 != 0 {
        // BrtSupAddin (0x029B) / BrtSupSame (0x0166) before the self link, BrtSupBookSrc (0x0163, relationship id) after
        book.sup_before = if c.plain { vec![(0x029B, vec![])] } else { (0..rng.range(1, 3)).map(|_| (*rng.pick(&[0x029Bu16, 0x0166]), vec![])).collect() };
        if !c.plain && rng.chance(1, 2) {
            book.sup_after = vec![(0x0163, xlsbw::wide_str("rId77"))];
        }
    }
    let rel_ids: Vec<String> = (0..c.sheets.len()).map(|i| rel_id(c, i, &mut rng)).collect();
    if c.knobs & (2 | 256) != 0 {
        book.rel_ids = Some(rel_ids.clone());
    }
    let parts = book.parts();
    let wbpart = parts.iter().find(|(n, _)| n == "xl/workbook.bin").unwrap().1.clone();
    let bytes = xlsbw::zip_parts(&parts, book.deflate);
    let rels: Vec<String> = (0..c.sheets.len()).map(|i| format!("{}={}", hex(rel_ids[i].as_bytes()), hex(book.sheet_path(i).as_bytes()))).collect();
    let ties = c
        .sheets
        .iter()
        .enumerate()
        .map(|(i, s)| {
            let rel: Vec<u16> = rel_ids[i].encode_utf16().collect();
            let nm: Vec<u16> = s.name.encode_utf16().collect();
            let mut p = (s.vis as u32).to_le_bytes().to_vec();
            p.extend_from_slice(&(i as u32 + 1).to_le_bytes());
            p.extend_from_slice(&xlsbw::wide_units(&rel));
            p.extend_from_slice(&xlsbw::wide_units(&nm));
            // the payload must occur in the part as written
            assert!(wbpart.windows(p.len()).any(|w| w == &p[..]), "BrtBundleSh payload not found in workbook.bin");
            (format!("encbundle {} {} {} {}", s.vis, i + 1, units_hex(&rel), units_hex(&nm)), hex(&p))
        })
        .collect();
    Built { bytes, force_codepage: None, request: format!("xlsb R={} {}", rels.join(","), hex(&wbpart)), ties }
}

fn build_xlsx(c: &Case) -> Built {
    let mut rng = Rng::new(c.seed);
    let mut book = xlsxw::XlsxBook::new();
    book.cell_xfs = vec![0, 14];
    book.date1904 = if c.date1904 {
        Some(true)
    } else if c.plain || rng.chance(1, 2) {
        None
    } else {
        Some(false)
    };
    for (i, s) in c.sheets.iter().enumerate() {
        let mut sh = xlsxw::XlsxSheet::new(&s.name);
        sh.state = [xlsxw::SheetState::Visible, xlsxw::SheetState::Hidden, xlsxw::SheetState::VeryHidden][s.vis as usize];
        sh.folder = s.kind.folder().to_string();
        let (r, col, v) = date_cell(i);
        sh.set(r, col, xlsxw::XCell::num(&format!("{v}")).with_style(1));
        sh.set(r, col + 1, xlsxw::XCell::num(&format!("{}", v.floor() as i64)).with_style(1));
        sh.set(r, col + 2, xlsxw::XCell::num(&format!("{v}")).with_style(1).with_formula("1+1"));
        sh.set(r + 1, col, xlsxw::XCell::num("7.25"));
        book.sheets.push(sh);
    }
    for n in &c.names {
        if let Target::Text(t) = &n.target {
            book.defined_names.push((n.name.clone(), t.clone()));
        }
    }
    book.split_defined_names = !c.plain && rng.chance(1, 3);
    if c.knobs & (2 | 256) != 0 {
        book.rel_ids = Some((0..c.sheets.len()).map(|i| rel_id(c, i, &mut rng)).collect());
    }
    book.cdata_defined_names = c.cdata;
    book.sheet_parts_reversed = c.knobs & 32 != 0;
    if c.inert {
        let kv = |k: &str, v: &str| (k.to_string(), v.to_string());
        let q = |n: &str| if c.prefix.is_empty() { n.to_string() } else { format!("{}:{}", c.prefix, n) };
        let el = |n: String, a: Vec<(String, String)>| vec![Ev::Start(n.clone(), a), Ev::End(n)];
        let wrap = |n: String, inner: Vec<Ev>| {
            let mut v = vec![Ev::Start(n.clone(), vec![])];
            v.extend(inner);
            v.push(Ev::End(n));
            v
        };
        let mut blocks: Vec<Vec<Ev>> = vec![
            el(q("fileVersion"), vec![kv("appName", "xl"), kv("lastEdited", "7"), kv("lowestEdited", "7"), kv("rupBuild", "27231")]),
            wrap(q("bookViews"), el(q("workbookView"), vec![kv("xWindow", "-110"), kv("yWindow", "-110"), kv("windowWidth", "23260"), kv("windowHeight", "12460"), kv("activeTab", "1")])),
            el(q("calcPr"), vec![kv("calcId", "191029"), kv("fullCalcOnLoad", "1")]),
            {
                let mut v = vec![Ev::Start("mc:AlternateContent".into(), vec![kv("xmlns:mc", "http://schemas.openxmlformats.org/markup-compatibility/2006")])];
                v.push(Ev::Start("mc:Choice".into(), vec![kv("Requires", "x15")]));
                v.extend(el("x15ac:absPath".into(), vec![kv("url", "C:\\Users\\Алена & <Co>\\"), kv("xmlns:x15ac", "http://schemas.microsoft.com/office/spreadsheetml/2010/11/ac")]));
                v.push(Ev::End("mc:Choice".into()));
                v.push(Ev::End("mc:AlternateContent".into()));
                v
            },
            wrap(q("externalReferences"), el(q("externalReference"), vec![kv("r:id", "rId901")])),
            wrap(q("pivotCaches"), el(q("pivotCache"), vec![kv("cacheId", "7"), kv("r:id", "rId902")])),
            {
                // a foreign `workbookPr` OUTSIDE extLst (markup-compatibility block): no date1904 attribute, must not
                // touch the date system wherever it stands relative to the real one
                let mut v = vec![Ev::Start("mc:AlternateContent".into(), vec![kv("xmlns:mc", "http://schemas.openxmlformats.org/markup-compatibility/2006")])];
                v.push(Ev::Start("mc:Choice".into(), vec![kv("Requires", "x15"), kv("xmlns:x15", "http://schemas.microsoft.com/office/spreadsheetml/2010/11/main")]));
                v.extend(el("x15:workbookPr".into(), vec![kv("chartTrackingRefBase", "1")]));
                v.push(Ev::End("mc:Choice".into()));
                v.push(Ev::End("mc:AlternateContent".into()));
                v
            },
            vec![Ev::Other("<!-- names & <sheets> below -->".into())],
            vec![Ev::Other("<?audit keep=\"1\"?>".into())],
            wrap(q("functionGroups"), vec![Ev::Text("\n  ".into())]),
        ];
        let twin = blocks[4].clone();
        rng.shuffle(&mut blocks);
        let k = rng.range(1, blocks.len() as u64) as usize;
        blocks.truncate(k);
        if !blocks.contains(&twin) && (c.plain || rng.chance(1, 2)) {
            blocks.push(twin);
        }
        book.workbook_inert = blocks;
    }
    if c.ext != 0 {
        let kv = |k: &str, v: &str| (k.to_string(), v.to_string());
        let q = |n: &str| if c.prefix.is_empty() { n.to_string() } else { format!("{}:{}", c.prefix, n) };
        let x15 = "http://schemas.microsoft.com/office/spreadsheetml/2010/11/main";
        let x14 = "http://schemas.microsoft.com/office/spreadsheetml/2009/9/main";
        let mut t = vec![Ev::Start(q("extLst"), vec![])];
        if c.ext & 2 != 0 {
            t.push(Ev::Start(q("ext"), vec![kv("uri", "{46BE6895-7355-4a93-B00E-2C351335B9C9}"), kv("xmlns:x14", x14)]));
            t.push(Ev::Start("x14:definedNames".into(), vec![]));
            t.push(Ev::Start("x14:definedName".into(), vec![kv("name", "ExtFn")]));
            t.push(Ev::Start("x14:argumentDescriptions".into(), vec![kv("count", "1")]));
            t.push(Ev::Start("x14:argumentDescription".into(), vec![kv("index", "0")]));
            t.push(Ev::Text("first argument".into()));
            t.push(Ev::End("x14:argumentDescription".into()));
            t.push(Ev::End("x14:argumentDescriptions".into()));
            t.push(Ev::End("x14:definedName".into()));
            t.push(Ev::End("x14:definedNames".into()));
            t.push(Ev::End(q("ext")));
        }
        if c.ext & 1 != 0 {
            t.push(Ev::Start(q("ext"), vec![kv("uri", "{140A7094-0E35-4892-8432-C4D2E57EDEB5}"), kv("xmlns:x15", x15)]));
            t.push(Ev::Start("x15:workbookPr".into(), vec![kv("chartTrackingRefBase", "1")]));
            t.push(Ev::End("x15:workbookPr".into()));
            t.push(Ev::End(q("ext")));
        }
        if c.ext & 4 != 0 {
            t.push(Ev::Start(q("ext"), vec![kv("uri", "{C16C16C1-0000-4000-8000-000000000016}"), kv("xmlns:x15", x15)]));
            t.push(Ev::Start("x15:sheets".into(), vec![]));
            t.push(Ev::Start("x15:sheet".into(), vec![kv("name", "shadow"), kv("id", "1")]));
            t.push(Ev::End("x15:sheet".into()));
            t.push(Ev::End("x15:sheets".into()));
            t.push(Ev::End(q("ext")));
        }
        t.push(Ev::End(q("extLst")));
        book.workbook_tail_events = t;
    }
    let mut l = if c.plain { xlsxw::Layout::plain() } else { xlsxw::Layout::random(&mut rng) };
    l.seed = rng.next();
    l.prefix = c.prefix.clone();
    l.pct_rich = 0;
    l.pct_swap_string_store = 0;
    if c.knobs & 128 != 0 {
        l.rel_prefix = "id".into();
        l.rel_decl = xlsxw::RelDecl::Sheet;
    }
    let built = book.build(&l);
    let rels: Vec<String> = built.sheet_rels.iter().map(|(i, t)| format!("{}={}", hex(i.as_bytes()), hex(t.as_bytes()))).collect();
    Built { bytes: built.bytes, force_codepage: None, request: format!("xlsx R={} {}", rels.join(","), xlsxw::ev_wire(&built.workbook_events)), ties: vec![] }
}

fn ev_start(n: &str, a: Vec<(String, String)>) -> Ev {
    Ev::Start(n.to_string(), a)
}

fn build_ods(c: &Case) -> Built {
    let mut rng = Rng::new(c.seed);
    let kv = |k: &str, v: &str| (k.to_string(), v.to_string());
    let mut evs: Vec<Ev> = vec![];
    evs.push(ev_start(
        "office:document-content",
        vec![
            kv("xmlns:office", "urn:oasis:names:tc:opendocument:xmlns:office:1.0"),
            kv("xmlns:style", "urn:oasis:names:tc:opendocument:xmlns:style:1.0"),
            kv("xmlns:text", "urn:oasis:names:tc:opendocument:xmlns:text:1.0"),
            kv("xmlns:table", "urn:oasis:names:tc:opendocument:xmlns:table:1.0"),
            kv("office:version", "1.2"),
        ],
    ));
    let el = |n: &str, a: Vec<(String, String)>| vec![Ev::Start(n.to_string(), a), Ev::End(n.to_string())];
    let inert = c.inert;
    if inert && rng.chance(1, 2) {
        evs.extend(el("office:scripts", vec![]));
    }
    if inert && rng.chance(1, 2) {
        evs.push(ev_start("office:font-face-decls", vec![]));
        evs.extend(el("style:font-face", vec![kv("style:name", "ta1"), kv("svg:font-family", "'Liberation Sans'")]));
        evs.push(Ev::End("office:font-face-decls".into()));
    }
    if inert && rng.chance(1, 2) {
        evs.push(Ev::Other("<!-- styles & <tables> below -->".into()));
    }
    evs.push(ev_start("office:automatic-styles", vec![]));
    if inert && rng.chance(1, 2) {
        // a date style: has a style:name but is no style:style
        evs.push(ev_start("number:date-style", vec![kv("style:name", "ta1"), kv("xmlns:number", "urn:oasis:names:tc:opendocument:xmlns:datastyle:1.0")]));
        evs.extend(el("number:day", vec![]));
        evs.push(Ev::End("number:date-style".into()));
    }
    // how each sheet gets its visibility: a style per sheet, a shared style, no style, a style without the
    // attribute, or a reference to a style that does not exist (visible)
    let mut style_of: Vec<Option<String>> = vec![];
    let mut styles: Vec<(String, Option<bool>)> = vec![];
    if !c.plain && rng.chance(1, 2) {
        // a cell style that shares a name with a table style must not matter
        evs.push(ev_start("style:style", vec![kv("style:name", "ce1"), kv("style:family", "table-cell")]));
        evs.push(Ev::End("style:style".into()));
    }
    for (i, s) in c.sheets.iter().enumerate() {
        if s.vis >= 1 {
            let shared = styles.iter().find(|(_, d)| *d == Some(false)).map(|(n, _)| n.clone());
            match shared {
                Some(n) if !c.plain && rng.chance(1, 2) => style_of.push(Some(n)),
                _ => {
                    let n = format!("ta{}", i + 1);
                    styles.push((n.clone(), Some(false)));
                    style_of.push(Some(n));
                }
            }
        } else {
            match if c.plain { 0 } else { rng.below(5) } {
                0 => style_of.push(None),
                1 => {
                    let n = format!("ta{}", i + 1);
                    styles.push((n.clone(), Some(true)));
                    style_of.push(Some(n));
                }
                2 => {
                    let n = format!("ta{}", i + 1);
                    styles.push((n.clone(), None));
                    style_of.push(Some(n));
                }
                3 => style_of.push(Some("missing".into())),
                _ => {
                    let shared = styles.iter().find(|(_, d)| *d != Some(false)).map(|(n, _)| n.clone());
                    style_of.push(shared);
                }
            }
        }
    }
    if c.quirk == 2 {
        // style names are unique in a valid document; here every name is defined twice, the first time with the
        // opposite visibility (the reader keeps the last definition)
        let dup: Vec<(String, Option<bool>)> = styles.iter().map(|(n, d)| (n.clone(), Some(*d == Some(false)))).collect();
        styles.splice(0..0, dup);
    }
    let homonyms = c.knobs & 8 != 0;
    for (n, d) in &styles {
        if homonyms && (c.plain || rng.chance(1, 2)) {
            // style names are unique per family only: a column style may carry the name of a table style
            evs.push(ev_start("style:style", vec![kv("style:name", n), kv("style:family", "table-column")]));
            evs.push(ev_start("style:table-column-properties", vec![kv("style:column-width", "2.5cm")]));
            evs.push(Ev::End("style:table-column-properties".into()));
            evs.push(Ev::End("style:style".into()));
        }
        evs.push(ev_start("style:style", vec![kv("style:name", n), kv("style:family", "table")]));
        let mut a = vec![];
        if let Some(d) = d {
            a.push(kv("table:display", if *d { "true" } else { "false" }));
        }
        if !c.plain && rng.chance(1, 2) {
            a.push(kv("style:writing-mode", "lr-tb"));
        }
        evs.push(ev_start("style:table-properties", a));
        evs.push(Ev::End("style:table-properties".into()));
        evs.push(Ev::End("style:style".into()));
        if homonyms && (c.plain || rng.chance(2, 3)) {
            // … and so may a cell or row style that comes later
            let fam = if c.plain { "table-cell" } else { *rng.pick(&["table-cell", "table-row", "table-column"]) };
            evs.push(ev_start("style:style", vec![kv("style:name", n), kv("style:family", fam)]));
            if fam == "table-cell" {
                evs.push(ev_start("style:text-properties", vec![kv("fo:font-weight", "bold")]));
                evs.push(Ev::End("style:text-properties".into()));
            }
            evs.push(Ev::End("style:style".into()));
        }
    }
    evs.push(Ev::End("office:automatic-styles".into()));
    evs.push(ev_start("office:body", vec![]));
    evs.push(ev_start("office:spreadsheet", vec![]));
    if inert && rng.chance(1, 2) {
        evs.extend(el("table:calculation-settings", vec![kv("table:case-sensitive", "false"), kv("table:use-regular-expressions", "false")]));
    }
    if inert && rng.chance(1, 2) {
        evs.push(ev_start("table:content-validations", vec![]));
        evs.extend(el("table:content-validation", vec![kv("table:name", "val1"), kv("table:condition", "of:cell-content()>=1 & <9")]));
        evs.push(Ev::End("table:content-validations".into()));
    }
    for (i, s) in c.sheets.iter().enumerate() {
        if inert && rng.chance(1, 6) {
            evs.push(Ev::Other("<?between tables?>".into()));
        }
        let mut a = vec![kv("table:name", &s.name)];
        if let Some(st) = &style_of[i] {
            if !c.plain && rng.chance(1, 2) {
                a.insert(0, kv("table:style-name", st));
            } else {
                a.push(kv("table:style-name", st));
            }
        }
        evs.push(ev_start("table:table", a));
        evs.push(ev_start("table:table-row", vec![]));
        let v = format!("{}", 1.5 + i as f64);
        evs.push(ev_start("table:table-cell", vec![kv("office:value-type", "float"), kv("office:value", &v)]));
        evs.push(ev_start("text:p", vec![]));
        evs.push(Ev::Text(v.clone()));
        evs.push(Ev::End("text:p".into()));
        evs.push(Ev::End("table:table-cell".into()));
        evs.push(Ev::End("table:table-row".into()));
        evs.push(Ev::End("table:table".into()));
    }
    if !c.names.is_empty() || (!c.plain && rng.chance(1, 4)) {
        evs.push(ev_start("table:named-expressions", vec![]));
        for n in &c.names {
            let t = match &n.target {
                Target::Text(t) => t.clone(),
                _ => unreachable!("reference definitions are for xls/xlsb"),
            };
            if c.plain || rng.chance(1, 2) {
                let mut a = vec![kv("table:name", &n.name), kv("table:base-cell-address", "$Sheet1.$A$1"), kv("table:cell-range-address", &t)];
                if !c.plain && rng.chance(1, 2) {
                    a.swap(0, 2);
                }
                evs.push(ev_start("table:named-range", a));
                evs.push(Ev::End("table:named-range".into()));
            } else {
                evs.push(ev_start("table:named-expression", vec![kv("table:name", &n.name), kv("table:expression", &t)]));
                evs.push(Ev::End("table:named-expression".into()));
            }
        }
        evs.push(Ev::End("table:named-expressions".into()));
    }
    if inert && rng.chance(1, 2) {
        evs.push(ev_start("table:database-ranges", vec![]));
        evs.extend(el("table:database-range", vec![kv("table:name", "__Anonymous_Sheet_DB__0"), kv("table:target-range-address", "$Sheet1.$A$1:.$B$2")]));
        evs.push(Ev::End("table:database-ranges".into()));
    }
    evs.push(Ev::End("office:spreadsheet".into()));
    evs.push(Ev::End("office:body".into()));
    evs.push(Ev::End("office:document-content".into()));
    let mut r2 = rng.fork();
    let plain = c.plain;
    let mut content = format!("<?xml version=\"1.0\" encoding=\"UTF-8\"?>{}", xlsxw::serialize(&evs, || plain || r2.chance(1, 2)));
    if c.knobs & 1024 != 0 {
        // the same name, spelled with a character reference at the place of use (quick-xml unescapes attribute values)
        content = content.replace(" table:style-name=\"ta", " table:style-name=\"t&#97;").replace(" table:style-name=\"missing", " table:style-name=\"&#x6D;issing");
    }
    let manifest = odsw::OdsBook::default().manifest_xml();
    let bytes = odsw::zip_parts(&manifest, &content, !c.plain && rng.chance(1, 2));
    Built { bytes, force_codepage: None, request: format!("ods {}", xlsxw::ev_wire(&evs)), ties: vec![] }
}

fn build(c: &Case) -> Built {
    match c.fmt {
        Fmt::Xls => build_xls(c),
        Fmt::Xlsb => build_xlsb(c),
        Fmt::Xlsx => build_xlsx(c),
        Fmt::Ods => build_ods(c),
    }
}

// ------------------------------------------------------------------------------------------------
// implementation dump
// ------------------------------------------------------------------------------------------------

fn type_tag(t: SheetType) -> &'static str {
    match t {
        SheetType::WorkSheet => "WorkSheet",
        SheetType::DialogSheet => "DialogSheet",
        SheetType::MacroSheet => "MacroSheet",
        SheetType::ChartSheet => "ChartSheet",
        SheetType::Vba => "Vba",
    }
}

fn vis_tag(v: SheetVisible) -> &'static str {
    match v {
        SheetVisible::Visible => "Visible",
        SheetVisible::Hidden => "Hidden",
        SheetVisible::VeryHidden => "VeryHidden",
    }
}

/// `Variant` or `Unrecognized:<typ>` out of the Debug text of an error
fn err_class(dbg: &str) -> String {
    let head: String = dbg.chars().take_while(|c| c.is_alphanumeric() || *c == '_').collect();
    if head == "Unrecognized" {
        if let Some(i) = dbg.find("typ: \"") {
            let rest = &dbg[i + 6..];
            let typ: String = rest.chars().take_while(|c| *c != '"').collect();
            return format!("Unrecognized:{typ}");
        }
    }
    head
}

/// model error text → the same classes
fn model_class(reply: &str) -> String {
    if let Some(e) = reply.strip_prefix("err:") {
        let parts: Vec<&str> = e.split(':').collect();
        if parts[0] == "Unrecognized" && parts.len() >= 3 {
            // typ itself contains one colon ("BoundSheet8:hsState", "sheet:type")
            return format!("err:Unrecognized:{}:{}", parts[1], parts[2]);
        }
        return format!("err:{}", if parts[0] == "io" { "Io" } else { parts[0] });
    }
    reply.to_string()
}

fn dump_reader<R: Reader<Cursor<Vec<u8>>>>(wb: &mut R, with_dates: bool, reconfigure: bool) -> String
where
    R::Error: std::fmt::Debug,
{
    if reconfigure {
        // an option change on the opened reader must not disturb what the workbook declared (date system, sheets, names)
        wb.with_header_row(HeaderRow::FirstNonEmptyRow);
    }
    let names = wb.sheet_names();
    let meta = wb.sheets_metadata().to_vec();
    if names != meta.iter().map(|s| s.name.clone()).collect::<Vec<_>>() {
        return "inconsistent: sheet_names() differs from sheets_metadata()".into();
    }
    let sh: Vec<String> = meta.iter().map(|s| format!("{}:{}:{}", hex(s.name.as_bytes()), type_tag(s.typ), vis_tag(s.visible))).collect();
    let nm: Vec<String> = wb.defined_names().iter().map(|(n, v)| format!("{}={}", hex(n.as_bytes()), hex(v.as_bytes()))).collect();
    // the date-system flag as the date cells of every sheet show it
    let mut d = "-".to_string();
    if with_dates {
        let mut seen: Vec<String> = vec![];
        for n in &names {
            let r = match wb.worksheet_range(n) {
                Ok(r) => r,
                Err(e) => {
                    seen.push(format!("rangeerr({})", err_class(&format!("{e:?}"))));
                    continue;
                }
            };
            let mut flags = vec![];
            for (_, _, v) in r.used_cells() {
                if let Data::DateTime(e) = v {
                    if *e == ExcelDateTime::new(e.as_f64(), ExcelDateTimeType::DateTime, true) {
                        flags.push("1");
                    } else if *e == ExcelDateTime::new(e.as_f64(), ExcelDateTimeType::DateTime, false) {
                        flags.push("0");
                    } else {
                        flags.push("?");
                    }
                }
            }
            seen.push(if flags.is_empty() { "nodate".to_string() } else { flags.join("") });
        }
        if !seen.is_empty() {
            d = if seen.iter().all(|x| x == &seen[0]) { seen[0].clone() } else { format!("mixed({})", seen.join("/")) };
        }
    }
    format!("ok d={} S={} N={}", d, sh.join(","), nm.join(","))
}

/// two dumps of the same reader must agree: metadata does not change over a reader's life (after reads, after
/// `load_merged_regions` / `load_tables`)
fn stable(a: String, b: String) -> String {
    if a == b {
        a
    } else {
        format!("unstable: first [{a}] then [{b}]")
    }
}

fn run_impl(fmt: Fmt, bytes: &[u8], reconfigure: bool, force_codepage: Option<u16>) -> String {
    let b = bytes.to_vec();
    let r = guarded(move || match fmt {
        Fmt::Xls => {
            let opened = match force_codepage {
                Some(cp) => {
                    let mut o = XlsOptions::default();
                    o.force_codepage = Some(cp);
                    Xls::new_with_options(Cursor::new(b), o)
                }
                None => Xls::new(Cursor::new(b)),
            };
            match opened {
                Ok(mut wb) => {
                    let a = dump_reader(&mut wb, true, reconfigure);
                    let b2 = dump_reader(&mut wb, true, false);
                    stable(a, b2)
                }
                Err(e) => format!("err:{}", err_class(&format!("{e:?}"))),
            }
        }
        Fmt::Xlsb => match Xlsb::new(Cursor::new(b)) {
            Ok(mut wb) => {
                let a = dump_reader(&mut wb, true, reconfigure);
                let b2 = dump_reader(&mut wb, true, false);
                stable(a, b2)
            }
            Err(e) => format!("err:{}", err_class(&format!("{e:?}"))),
        },
        Fmt::Xlsx => match Xlsx::new(Cursor::new(b)) {
            Ok(mut wb) => {
                let a = dump_reader(&mut wb, true, reconfigure);
                let lm = wb.load_merged_regions().map_err(|e| err_class(&format!("{e:?}")));
                let lt = wb.load_tables().map_err(|e| err_class(&format!("{e:?}")));
                if lm.is_err() || lt.is_err() {
                    return format!("err-after-open: load_merged_regions {lm:?} load_tables {lt:?}");
                }
                let b2 = dump_reader(&mut wb, true, false);
                stable(a, b2)
            }
            Err(e) => format!("err:{}", err_class(&format!("{e:?}"))),
        },
        Fmt::Ods => match Ods::new(Cursor::new(b)) {
            Ok(mut wb) => {
                let a = dump_reader(&mut wb, false, reconfigure);
                let b2 = dump_reader(&mut wb, false, false);
                stable(a, b2)
            }
            Err(e) => format!("err:{}", err_class(&format!("{e:?}"))),
        },
    });
    r.unwrap_or_else(|_| "panic".to_string())
}

/// NUL characters removed from the defined names of a dump (forced single-byte code page on BIFF8 8-bit strings: the
/// reader zero-extends the bytes before decoding; BoundSheet8 names are cleaned by the reader itself)
fn strip_nul_names(dump: &str) -> String {
    if !dump.starts_with("ok ") {
        return dump.to_string();
    }
    let w: Vec<&str> = dump.split(' ').collect();
    let clean = |h: &str| -> String {
        if h == "-" {
            return h.to_string();
        }
        let b: Vec<u8> = unhex(h).into_iter().filter(|x| *x != 0).collect();
        hex(&b)
    };
    let names: Vec<String> = w[3][2..]
        .split(',')
        .filter(|x| !x.is_empty())
        .map(|kv| {
            let (k, v) = kv.split_once('=').unwrap_or((kv, "-"));
            format!("{}={}", clean(k), clean(v))
        })
        .collect();
    format!("{} {} {} N={}", w[0], w[1], w[2], names.join(","))
}

/// model reply → the comparable form: paths dropped, `d` blanked when no date cell can show it
fn canon_model(c: &Case, reply: &str) -> String {
    if !reply.starts_with("ok ") {
        return model_class(reply);
    }
    let w: Vec<&str> = reply.split(' ').collect();
    let mut d = w[1].to_string();
    if c.fmt == Fmt::Ods || w[2] == "S=" {
        d = "d=-".into();
    } else {
        // the model decodes one flag; every date-styled cell of every sheet must show it
        d = format!("d={}", w[1][2..].repeat(date_kinds(c.fmt)));
    }
    let sheets: Vec<String> = w[2][2..]
        .split(',')
        .filter(|s| !s.is_empty())
        .map(|s| s.split(':').take(3).collect::<Vec<_>>().join(":"))
        .collect();
    format!("ok {} S={} {}", d, sheets.join(","), w[3])
}

// ------------------------------------------------------------------------------------------------
// evaluation, signatures, shrinking
// ------------------------------------------------------------------------------------------------

struct Outcome {
    impl_out: String,
    model_out: String,
    expect: String,
    /// (kind, sig)
    fails: Vec<(String, String)>,
}

fn field<'a>(s: &'a str, key: &str) -> &'a str {
    s.split(' ').find(|w| w.starts_with(key)).unwrap_or("")
}

/// which part of two canonical dumps differs first
fn diff_part(a: &str, b: &str) -> String {
    if !a.starts_with("ok ") || !b.starts_with("ok ") {
        let cls = |s: &str| if s.starts_with("ok ") { "ok".to_string() } else { s.chars().take(48).collect::<String>() };
        return format!("open[{}|{}]", cls(a), cls(b));
    }
    for k in ["S=", "N=", "d="] {
        if field(a, k) != field(b, k) {
            return k.trim_end_matches('=').to_string();
        }
    }
    "?".into()
}

fn features(c: &Case, part: &str) -> String {
    let mut f = vec![];
    if part == "d" && !c.prefix.is_empty() {
        f.push("prefix".to_string());
    }
    if part.starts_with("open") && c.sheets.iter().any(|s| s.kind == Kind::Macro) && matches!(c.fmt, Fmt::Xlsx | Fmt::Xlsb) {
        f.push("macrosheet".to_string());
    }
    if part == "N" && c.fmt == Fmt::Xls && c.names.iter().any(|n| n.name.chars().any(|ch| ch as u32 > 255)) {
        f.push("wide-name".to_string());
    }
    if part == "N" && c.names.iter().any(|n| matches!(n.target, Target::Ref(_, _, col) if col >= 26) || matches!(n.target, Target::Area(_, _, c0, _, c1) if c0 >= 26 || c1 >= 26)) {
        f.push("col>=26".to_string());
    }
    if part == "N" && c.names.iter().any(|n| matches!(n.target, Target::RefRel(..) | Target::AreaRel(..))) {
        f.push("relative-ref".to_string());
    }
    if !c.pre.is_empty() {
        f.push("pre-records".to_string());
    }
    if c.ext != 0 {
        f.push(format!("extLst={}", c.ext));
    }
    if c.cdata && part == "N" {
        f.push("cdata".to_string());
    }
    if c.inert {
        f.push("inert".to_string());
    }
    if c.knobs != 0 {
        f.push(format!("knobs={}", c.knobs));
    }
    if f.is_empty() {
        String::new()
    } else {
        format!(":{}", f.join("+"))
    }
}

fn eval(c: &Case, drv: &mut Driver) -> Outcome {
    let built = build(c);
    let mut impl_out = run_impl(c.fmt, &built.bytes, c.knobs & 4 != 0, built.force_codepage);
    // forced code page: the model knows code page 1200 only — implementation against the specification alone
    let model_silent = built.force_codepage.is_some();
    if model_silent {
        impl_out = strip_nul_names(&impl_out);
    }
    let model_raw = if model_silent { String::new() } else { drv.ask(&built.request) };
    let model_out = if model_silent { impl_out.clone() } else { canon_model(c, &model_raw) };
    let expect = c.expect();
    let mut fails = vec![];
    for (req, want) in &built.ties {
        let got = drv.ask(req);
        if &got != want {
            fails.push(("model_vs_spec".to_string(), format!("{}:encoder-tie", c.fmt.tag())));
        }
    }
    let spec_silent = c.quirk != 0;
    if !spec_silent && impl_out != expect {
        let part = diff_part(&impl_out, &expect);
        fails.push(("impl_vs_spec".to_string(), format!("{}:{}{}", c.fmt.tag(), part, features(c, &part))));
    }
    if impl_out != model_out {
        let part = diff_part(&impl_out, &model_out);
        fails.push(("impl_vs_model".to_string(), format!("{}:{}{}", c.fmt.tag(), part, features(c, &part))));
    }
    if !spec_silent && impl_out == expect && model_out != expect {
        fails.push(("model_vs_spec".to_string(), format!("{}:{}", c.fmt.tag(), diff_part(&model_out, &expect))));
    }
    Outcome { impl_out, model_out, expect, fails }
}

/// remove the names not in `keep`, then every name whose `NameMul` referent went away; the remaining `NameMul`
/// indices are remapped
fn retain_names(names: &[LName], keep: &[bool]) -> Vec<LName> {
    let mut keep = keep.to_vec();
    loop {
        let mut changed = false;
        for (i, n) in names.iter().enumerate() {
            if keep[i] {
                if let Target::NameMul(j, _) = n.target {
                    if j >= i || !keep[j] {
                        keep[i] = false;
                        changed = true;
                    }
                }
            }
        }
        if !changed {
            break;
        }
    }
    let mut new_idx = vec![0usize; names.len()];
    let mut k = 0;
    for i in 0..names.len() {
        new_idx[i] = k;
        if keep[i] {
            k += 1;
        }
    }
    names
        .iter()
        .enumerate()
        .filter(|(i, _)| keep[*i])
        .map(|(_, n)| LName {
            name: n.name.clone(),
            target: match n.target {
                Target::NameMul(j, m) => Target::NameMul(new_idx[j], m),
                ref t => t.clone(),
            },
        })
        .collect()
}

fn drop_sheet(c: &Case, i: usize) -> Case {
    let mut d = c.clone();
    d.sheets.remove(i);
    let fix = |s: usize| if s > i { s - 1 } else { s };
    let keep: Vec<bool> = c
        .names
        .iter()
        .map(|n| !matches!(&n.target, Target::Ref(s, ..) | Target::Area(s, ..) | Target::RefErr(s) | Target::RefRel(s, ..) | Target::AreaRel(s, ..) if *s == i))
        .collect();
    d.names = retain_names(&c.names, &keep)
        .iter()
        .map(|n| LName {
            name: n.name.clone(),
            target: match &n.target {
                Target::Ref(s, r, col) => Target::Ref(fix(*s), *r, *col),
                Target::Area(s, a, b, cc, dd) => Target::Area(fix(*s), *a, *b, *cc, *dd),
                Target::RefErr(s) => Target::RefErr(fix(*s)),
                Target::RefRel(s, r, col, f) => Target::RefRel(fix(*s), *r, *col, *f),
                Target::AreaRel(s, a, b, cc, dd, f0, f1) => Target::AreaRel(fix(*s), *a, *b, *cc, *dd, *f0, *f1),
                t => t.clone(),
            },
        })
        .collect();
    d
}

/// greedy shrinking on the description while the same (kind, sig) persists
fn shrink(c: &Case, kind: &str, sig: &str, drv: &mut Driver) -> Case {
    let mut cur = c.clone();
    let mut budget = 300;
    let still = |cand: &Case, drv: &mut Driver| eval(cand, drv).fails.iter().any(|(k, s)| k == kind && s == sig);
    loop {
        let mut cands: Vec<Case> = vec![];
        if !cur.plain {
            let mut p = cur.clone();
            p.plain = true;
            cands.push(p);
        }
        for i in 0..cur.names.len() {
            let mut d = cur.clone();
            let keep: Vec<bool> = (0..cur.names.len()).map(|k| k != i).collect();
            d.names = retain_names(&cur.names, &keep);
            cands.push(d);
        }
        for i in 0..cur.sheets.len() {
            cands.push(drop_sheet(&cur, i));
        }
        for i in 0..cur.sheets.len() {
            let simple = format!("S{}", i + 1);
            if cur.sheets[i].name != simple && !cur.sheets.iter().any(|s| s.name == simple) {
                let mut d = cur.clone();
                d.sheets[i].name = simple;
                cands.push(d);
            }
            if cur.sheets[i].vis != 0 {
                let mut d = cur.clone();
                d.sheets[i].vis = 0;
                cands.push(d);
            }
            if cur.sheets[i].kind != Kind::Work {
                let mut d = cur.clone();
                d.sheets[i].kind = Kind::Work;
                cands.push(d);
            }
        }
        for i in 0..cur.names.len() {
            let simple = format!("N{}", i + 1);
            if cur.names[i].name != simple && !cur.names.iter().any(|n| n.name == simple) {
                let mut d = cur.clone();
                d.names[i].name = simple;
                cands.push(d);
            }
            let chars: Vec<char> = cur.names[i].name.chars().collect();
            if chars.len() > 2 {
                let shorter: String = chars[..chars.len() - 1].iter().collect();
                if !cur.names.iter().any(|n| n.name == shorter) {
                    let mut d = cur.clone();
                    d.names[i].name = shorter;
                    cands.push(d);
                }
            }
            match cur.names[i].target.clone() {
                Target::Area(s, r0, c0, _, _) => {
                    let mut d = cur.clone();
                    d.names[i].target = Target::Ref(s, r0, c0);
                    cands.push(d);
                }
                Target::Ref(s, r, col) if r != 0 => {
                    let mut d = cur.clone();
                    d.names[i].target = Target::Ref(s, 0, col);
                    cands.push(d);
                }
                _ => {}
            }
        }
        for i in 0..cur.pre.len() {
            let mut d = cur.clone();
            d.pre.remove(i);
            cands.push(d);
        }
        if cur.cdata {
            let mut d = cur.clone();
            d.cdata = false;
            cands.push(d);
        }
        if cur.inert {
            let mut d = cur.clone();
            d.inert = false;
            cands.push(d);
        }
        for bit in [1u16, 2, 4, 8, 16, 32, 64, 128, 256, 512, 1024] {
            if cur.knobs & bit != 0 {
                let mut d = cur.clone();
                d.knobs &= !bit;
                cands.push(d);
            }
        }
        for bit in [1u8, 2, 4] {
            if cur.ext & bit != 0 {
                let mut d = cur.clone();
                d.ext &= !bit;
                cands.push(d);
            }
        }
        if cur.date1904 {
            let mut d = cur.clone();
            d.date1904 = false;
            cands.push(d);
        }
        if !cur.prefix.is_empty() {
            let mut d = cur.clone();
            d.prefix.clear();
            cands.push(d);
        }
        let mut progressed = false;
        for cand in cands {
            if budget == 0 {
                return cur;
            }
            budget -= 1;
            if still(&cand, drv) {
                cur = cand;
                progressed = true;
                break;
            }
        }
        if !progressed {
            return cur;
        }
    }
}

fn run_case(c: &Case, drv: &mut Driver, rep: &mut Report, from_corpus: bool) {
    let out = eval(c, drv);
    let input = c.wire();
    let nontrivial = !c.sheets.is_empty() && (c.sheets.len() > 1 || !c.names.is_empty() || c.sheets[0].vis != 0 || c.sheets[0].kind != Kind::Work);
    rep.case(&input, nontrivial);
    rep.count(&format!("{}:cases", c.fmt.tag()));
    rep.count(&format!("{}:sheets={}", c.fmt.tag(), match c.sheets.len() { 0 => "0", 1 => "1", 2..=5 => "2-5", 6..=11 => "6-11", _ => "12" }));
    rep.count(&format!("{}:names={}", c.fmt.tag(), match c.names.len() { 0 => "0", 1..=3 => "1-3", _ => "4-10" }));
    rep.count(&format!("{}:date1904={}", c.fmt.tag(), c.date1904 as u8));
    for s in &c.sheets {
        rep.count(&format!("{}:sheet:{}:{}", c.fmt.tag(), s.kind.tag(), VIS_TAG[s.vis as usize]));
        if s.name.chars().any(|ch| "&<>\"'".contains(ch)) {
            rep.count("name:xml-special");
        }
        if s.name.chars().any(|ch| ch as u32 > 0xFFFF) {
            rep.count("name:non-bmp");
        } else if s.name.chars().any(|ch| ch as u32 > 0x7F) {
            rep.count("name:non-ascii");
        }
        if s.name.encode_utf16().count() == 31 {
            rep.count("name:31-units");
        }
    }
    if from_corpus {
        rep.count("corpus");
    }
    if c.ext != 0 {
        rep.count(&format!("xlsx:extLst={}", c.ext));
    }
    for (bit, what) in [(1u16, "substreams-out-of-tab-order"), (2, "non-ascii-relationship-ids"), (4, "with_header_row-before-reading"), (8, "style-names-reused-across-families"), (16, "forced-code-page-1251-vs-record-1252 (impl vs spec only)"), (32, "sheet-parts-in-reverse-archive-order"), (64, "dual-stream-Book-before-Workbook"), (128, "relationships-prefix-named-id-declared-on-sheet"), (256, "relationship-ids-equal-up-to-case"), (512, "supporting-links-around-BrtSupSelf"), (1024, "style-name-spelled-with-character-reference")] {
        if c.knobs & bit != 0 {
            rep.count(&format!("{}:{}", c.fmt.tag(), what));
        }
    }
    if c.quirk != 0 {
        rep.count(&format!("{}:out-of-spec-quirk-{} (impl vs model only)", c.fmt.tag(), c.quirk));
    }
    if !out.impl_out.starts_with("ok ") {
        rep.count(&format!("{}:impl:{}", c.fmt.tag(), out.impl_out.chars().take(40).collect::<String>()));
    }
    for (kind, sig) in &out.fails {
        let (min, o) = if kind == "model_vs_spec" || from_corpus {
            (c.clone(), None)
        } else {
            let m = shrink(c, kind, sig, drv);
            let o = eval(&m, drv);
            (m, Some(o))
        };
        let o = o.as_ref().unwrap_or(&out);
        rep.fail(kind, sig, &min.wire(), &o.impl_out, &o.model_out, &o.expect);
    }
}

// ------------------------------------------------------------------------------------------------
// unit level: BoundSheet8 through the hook
// ------------------------------------------------------------------------------------------------

#[cfg(feature = "hooks")]
fn hook_bs(payload: &[u8], biff8: bool) -> String {
    let p = payload.to_vec();
    match guarded(move || calamine::verif_hooks::xls::c16_sheet_metadata(&p, 1200, biff8)) {
        Err(_) => "panic".into(),
        Ok(Err(e)) => format!("err:{}", err_class(&e)),
        Ok(Ok((pos, name, vis, typ))) => {
            let t = ["WorkSheet", "DialogSheet", "MacroSheet", "ChartSheet", "Vba"][typ as usize];
            format!("ok {} {} {} {}", pos, hex(name.as_bytes()), t, VIS_TAG[vis as usize])
        }
    }
}

#[cfg(feature = "hooks")]
fn unit_boundsheet(drv: &mut Driver, rep: &mut Report, rng: &mut Rng, n_random: u64) {
    // (a) every (hsState byte, dt byte) pair with a fixed name: implementation vs model vs the documented codes
    let mut tail = vec![3u8, 0];
    tail.extend_from_slice(b"abc");
    for hs in 0..=255u32 {
        for dt in 0..=255u32 {
            let mut p = 0x1234u32.to_le_bytes().to_vec();
            p.push(hs as u8);
            p.push(dt as u8);
            p.extend_from_slice(&tail);
            let got = hook_bs(&p, true);
            let vis = match hs & 0x3F {
                0 => Some("Visible"),
                1 => Some("Hidden"),
                2 => Some("VeryHidden"),
                _ => None,
            };
            let typ = match dt {
                0 => Some("WorkSheet"),
                1 => Some("MacroSheet"),
                2 => Some("ChartSheet"),
                6 => Some("Vba"),
                _ => None,
            };
            // MS-XLS 2.4.28: hsState is a 2-bit field followed by 6 unused bits — the oracle speaks for the codes the
            // specification defines; anything else must be an error, not a panic
            let want = match (vis, typ) {
                (Some(v), Some(t)) => format!("ok 4660 616263 {t} {v}"),
                (None, _) => "err:Unrecognized:BoundSheet8:hsState".to_string(),
                (_, None) => "err:Unrecognized:BoundSheet8:dt".to_string(),
            };
            let input = format!("bs {} 1", hex(&p));
            let model = model_class(&drv.ask(&input));
            rep.case(&input, vis.is_some() && typ.is_some());
            rep.count("unit:boundsheet:code-pairs");
            if got != want {
                rep.fail("impl_vs_spec", "unit:boundsheet:codes", &input, &got, &model, &want);
            }
            if got != model {
                rep.fail("impl_vs_model", "unit:boundsheet:codes", &input, &got, &model, &want);
            }
        }
    }
    // (b) random payloads: well-formed (both packings, 0..=40 units), truncated, over-long cch
    for _ in 0..n_random {
        let n_units = rng.below(41) as usize;
        let wide = rng.chance(1, 2);
        let mut units: Vec<u16> = vec![];
        for _ in 0..n_units {
            units.push(match rng.below(8) {
                0 => 0,
                1 => rng.range(0xD800, 0xDFFF) as u16,
                2 | 3 if wide => rng.range(0x100, 0xFFFD) as u16,
                4 => rng.range(0x80, 0xFF) as u16,
                _ => rng.range(0x20, 0x7E) as u16,
            });
        }
        if !wide {
            for u in units.iter_mut() {
                *u &= 0xFF;
            }
        }
        // strings may start with a byte-order mark (no BOM sniffing since d1e0258)
        if wide && !units.is_empty() && rng.chance(1, 20) {
            units[0] = *rng.pick(&[0xFEFFu16, 0xFFFE, 0xBBEF]);
        }
        let mut p = (rng.next() as u32).to_le_bytes().to_vec();
        p.push(*rng.pick(&[0u8, 1, 2, 0x40, 0x81, 0xC2, 3]));
        p.push(*rng.pick(&[0u8, 1, 2, 6, 6, 0, 5]));
        let cch = match rng.below(6) {
            0 => rng.below(256) as u8,
            _ => n_units as u8,
        };
        p.push(cch);
        p.push(if wide { *rng.pick(&[1u8, 0x09, 0xFF]) } else { *rng.pick(&[0u8, 0x08, 0xFE]) });
        for u in &units {
            if wide {
                p.extend_from_slice(&u.to_le_bytes());
            } else {
                p.push(*u as u8);
            }
        }
        if rng.chance(1, 6) {
            let k = rng.below(p.len() as u64 + 1) as usize;
            p.truncate(k);
        }
        let biff8 = !rng.chance(1, 8);
        let got = hook_bs(&p, biff8);
        let input = format!("bs {} {}", hex(&p), biff8 as u8);
        let model = model_class(&drv.ask(&input));
        rep.case(&input, got.starts_with("ok "));
        rep.count(&format!("unit:boundsheet:random:{}", got.split(' ').next().unwrap_or("").split(':').take(2).collect::<Vec<_>>().join(":")));
        if got != model {
            rep.fail("impl_vs_model", "unit:boundsheet:random", &input, &got, &model, "");
        }
    }
}

#[cfg(not(feature = "hooks"))]
fn unit_boundsheet(_drv: &mut Driver, rep: &mut Report, _rng: &mut Rng, _n: u64) {
    rep.notes.push("verif-hooks unavailable: the BoundSheet8 unit sweep did not run".into());
}

// ------------------------------------------------------------------------------------------------
// corpus: every defect ever found, minimal
// ------------------------------------------------------------------------------------------------

fn corpus() -> Vec<Case> {
    let sh = |n: &str, vis: u8, kind: Kind| LSheet { name: n.to_string(), vis, kind };
    let base = |fmt: Fmt| Case { fmt, seed: 1, date1904: false, prefix: String::new(), plain: true, pre: vec![], quirk: 0, ext: 0, cdata: false, inert: false, knobs: 0, sheets: vec![sh("S1", 0, Kind::Work)], names: vec![] };
    let mut v = vec![];
    // D22: <x:workbookPr date1904="1"/> was ignored
    let mut c = base(Fmt::Xlsx);
    c.date1904 = true;
    c.prefix = "x".into();
    v.push(c);
    // D27: macro sheets in xlsx / xlsb made the open fail
    for fmt in [Fmt::Xlsx, Fmt::Xlsb] {
        let mut c = base(fmt);
        c.sheets = vec![sh("S1", 0, Kind::Macro)];
        v.push(c);
    }
    // C16-b (regression of the D22 fix) and C16-c: foreign-namespace elements inside <extLst> whose local names collide with
    // elements of the main namespace: `x15:workbookPr chartTrackingRefBase="1"` (written by Excel 2013+) reset the 1904
    // flag, `x14:definedName` (Excel 2010+ function descriptions) was reported as a defined name, a foreign `sheet`
    // made the open fail
    for (ext, d) in [(1u8, true), (2, false), (4, false), (7, true)] {
        let mut c = base(Fmt::Xlsx);
        c.ext = ext;
        c.date1904 = d;
        v.push(c);
    }
    // C16-d (incomplete CDATA fix 31ef0e8): CDATA sections in the text of a <definedName> were dropped
    let mut c = base(Fmt::Xlsx);
    c.cdata = true;
    c.names = vec![LName { name: "N1".into(), target: Target::Text("Sheet1!$A$1".into()) }, LName { name: "N2".into(), target: Target::Text("x".into()) }];
    v.push(c);
    // C16-e: xls parse_defined_names printed `$` always and the unmasked 16-bit column field: a defined name holding a
    // relative reference (=S1!A1 typed without `$`: column field 0xC000) came back as S1!$BTRM$1
    let mut c = base(Fmt::Xls);
    c.names = vec![
        LName { name: "N1".into(), target: Target::RefRel(0, 0, 0, 3) },
        LName { name: "N2".into(), target: Target::AreaRel(0, 1, 2, 3, 4, 1, 2) },
    ];
    v.push(c);
    let mut c = base(Fmt::Xlsb);
    c.names = vec![
        LName { name: "N1".into(), target: Target::RefRel(0, 0, 0, 3) },
        LName { name: "N2".into(), target: Target::AreaRel(0, 1, 2, 3, 4, 1, 2) },
    ];
    v.push(c);
    // second-round seeded changes (C16-m5 … m8): plain cases with the knob that exposes each
    {
        let mut c = base(Fmt::Xls);
        c.knobs = 1;
        c.sheets = vec![sh("Alpha", 0, Kind::Work), sh("Beta", 0, Kind::Work), sh("Gamma", 0, Kind::Work)];
        c.names = vec![LName { name: "NameAlpha".into(), target: Target::Ref(0, 0, 0) }, LName { name: "NameGamma".into(), target: Target::Area(2, 0, 0, 1, 1) }];
        v.push(c);
        let mut c = base(Fmt::Ods);
        c.knobs = 8;
        c.sheets = vec![sh("Shown", 0, Kind::Work), sh("Tucked", 1, Kind::Work)];
        v.push(c);
        for fmt in [Fmt::Xls, Fmt::Xlsb, Fmt::Xlsx, Fmt::Ods] {
            let mut c = base(fmt);
            c.knobs = 4;
            c.date1904 = true;
            v.push(c);
        }
        for fmt in [Fmt::Xlsb, Fmt::Xlsx] {
            let mut c = base(fmt);
            c.knobs = 2;
            c.sheets = vec![sh("S1", 0, Kind::Work), sh("S2", 1, Kind::Work)];
            v.push(c);
        }
    }
    // C01-k1 / C16-f: `xmlns:id="…"` on a <sheet> element was taken for the relationship id (RelationshipNotFound)
    {
        let mut c = base(Fmt::Xlsx);
        c.knobs = 128;
        c.sheets = vec![sh("S1", 0, Kind::Work), sh("S2", 1, Kind::Chart)];
        v.push(c);
    }
    // fifth-round seeded changes (C16-m18, m19)
    {
        for fmt in [Fmt::Xlsb, Fmt::Xls] {
            let mut c = base(fmt);
            c.sheets = vec![sh("S1", 0, Kind::Work), sh("S2", 0, Kind::Work)];
            c.names = vec![
                LName { name: "Total".into(), target: Target::Ref(0, 0, 0) },
                LName { name: "Total".into(), target: Target::Ref(0, 0, 0) },
                LName { name: "Other".into(), target: Target::Ref(1, 1, 1) },
            ];
            v.push(c);
        }
        let mut c = base(Fmt::Xlsx);
        c.date1904 = true;
        c.inert = true;
        v.push(c);
    }
    // fourth-round seeded changes (C16-m13 … m16)
    {
        for fmt in [Fmt::Xlsx, Fmt::Xlsb] {
            let mut c = base(fmt);
            c.knobs = 256;
            c.sheets = vec![sh("Data", 0, Kind::Work), sh("Chart", 0, Kind::Chart), sh("Dlg", 1, Kind::Dialog)];
            v.push(c);
        }
        let mut c = base(Fmt::Xlsb);
        c.knobs = 512;
        c.names = vec![LName { name: "N1".into(), target: Target::Ref(0, 0, 0) }];
        v.push(c);
        for fmt in [Fmt::Xls, Fmt::Xlsb, Fmt::Xlsx] {
            // sheet 0 holds times of day (serials in [0, 1)), sheet 2 zero, sheet 3 negative serials
            let mut c = base(fmt);
            c.date1904 = true;
            c.sheets = vec![sh("T", 0, Kind::Work), sh("D", 0, Kind::Work), sh("Z", 0, Kind::Work), sh("N", 0, Kind::Work)];
            v.push(c);
        }
        let mut c = base(Fmt::Ods);
        c.knobs = 1024;
        c.sheets = vec![sh("Shown", 0, Kind::Work), sh("Tucked", 1, Kind::Work)];
        v.push(c);
    }
    // third-round seeded changes (C16-m9 … m12)
    {
        let mut c = base(Fmt::Xls);
        c.knobs = 16;
        c.sheets = vec![sh("Лист1", 0, Kind::Work), sh("Итог", 1, Kind::Work)];
        c.names = vec![LName { name: "Имя".into(), target: Target::Ref(1, 0, 0) }];
        v.push(c);
        let mut c = base(Fmt::Xlsb);
        c.names = vec![LName { name: "Base".into(), target: Target::Ref(0, 0, 0) }, LName { name: "Total".into(), target: Target::NameMul(0, 2) }];
        v.push(c);
        let mut c = base(Fmt::Xlsx);
        c.knobs = 32;
        c.sheets = vec![sh("Beta", 0, Kind::Work), sh("Alpha", 1, Kind::Work), sh("Gamma", 0, Kind::Work)];
        v.push(c);
        let mut c = base(Fmt::Xls);
        c.knobs = 64;
        c.date1904 = true;
        c.sheets = vec![sh("Real", 0, Kind::Work), sh("Also", 2, Kind::Chart)];
        c.names = vec![LName { name: "N1".into(), target: Target::Ref(1, 0, 0) }];
        v.push(c);
    }
    // D35: a 16-bit Lbl name of two characters was read as one
    let mut c = base(Fmt::Xls);
    c.names = vec![LName { name: "Жы".into(), target: Target::Ref(0, 0, 0) }];
    v.push(c);
    // D06 (C14): column letters beyond Z in a decoded reference
    for fmt in [Fmt::Xls, Fmt::Xlsb] {
        let mut c = base(fmt);
        c.names = vec![LName { name: "N1".into(), target: Target::Ref(0, 0, 26) }];
        v.push(c);
    }
    // C16-a: xlsb read_workbook read the payload bytes of records it does not know as record ids: a BrtBookView
    // (window geometry) with dxWn = 400 (bytes 90 01 = BrtEndBundleShs) gave a workbook without sheets, xWn = 412
    // (bytes 9C 01 00 = an empty BrtBundleSh) a panic
    for xs in [[0u32, 0, 400, 12300], [412, 0, 28800, 12300]] {
        let mut c = base(Fmt::Xlsb);
        let mut p = vec![];
        for x in xs {
            p.extend_from_slice(&x.to_le_bytes());
        }
        p.extend_from_slice(&600u32.to_le_bytes());
        p.extend_from_slice(&[0u8; 8]);
        p.push(0x78);
        c.pre = vec![(0x0087, vec![]), (0x009E, p), (0x0088, vec![])];
        v.push(c);
    }
    // plain sanity cases for every format: all visibilities and kinds, specials in names
    for fmt in [Fmt::Xls, Fmt::Xlsb, Fmt::Xlsx, Fmt::Ods] {
        let mut c = base(fmt);
        c.date1904 = true;
        c.sheets = vec![sh("A & <B> \"q\" 'a'", 1, Kind::Work), sh("Ünï 😀", if fmt == Fmt::Ods { 0 } else { 2 }, Kind::Work), sh("z", 0, if fmt == Fmt::Ods { Kind::Work } else { Kind::Chart })];
        c.names = match fmt {
            Fmt::Xlsx | Fmt::Ods => vec![LName { name: "n_1".into(), target: Target::Text("'A & <B>'!$A$1".into()) }, LName { name: "Жы".into(), target: Target::Text("1<2".into()) }],
            _ => vec![LName { name: "n_1".into(), target: Target::Area(2, 0, 0, 3, 1) }, LName { name: "b".into(), target: Target::RefErr(0) }],
        };
        v.push(c);
        let mut e = base(fmt);
        e.sheets.clear();
        v.push(e);
    }
    v
}

fn main() {
    let args = Args::parse();
    let mut drv = Driver::spawn(&args.driver);
    let mut rep = Report::new(
        "C16",
        "one case = one logical workbook (0-12 sheets with unique names of 1-31 UTF-16 units drawn from ASCII, XML specials, Latin-1, BMP and non-BMP characters, \
         excluding the characters Excel forbids in sheet names and NUL, sometimes with a leading U+FEFF; every visibility x kind the format expresses; 0-10 defined names: text for \
         xlsx/ods, PtgRef3d/PtgArea3d (absolute, and with relative row/column parts rendered without `$`)/PtgRefErr3d for xls/xlsb; both date systems, in every sheet one date-styled cell of every numeric record kind and encoding, with serials that are times of day in [0,1), day-sized, 0, 1 and negative (xls: NUMBER, RK x4, MULRK, FORMULA; xlsb: BrtCellReal, BrtCellRk x4, BrtFmlaNum; xlsx: number, whole number, formula with cached number), each checked for the flag; xlsx: in half of the cases an extLst with foreign-namespace elements whose local names are workbookPr / definedName / sheet) in half of the xlsx / ods cases inert elements, comments and processing instructions at random positions between the interpreted elements) xls: sheet substreams stored out of tab order; xlsb/xlsx: relationship ids with Latin-1, BMP and astral characters; ods: table style names reused by styles of other families; in a third of the cases with_header_row is called on the opened reader before anything is read; a sixth of the xls cases are opened with force_codepage = 1251 against a CodePage record 1252 with 8-bit windows-1251 names — implementation against the oracle only; a quarter of the xls cases are dual-stream files with a decoy Book stream first; xlsx sheet parts in reverse archive order; xlsb names that refer to earlier names; every reader is dumped twice — for xlsx with load_merged_regions / load_tables in between — and the two dumps must agree) written under a random layout; non-trivial = at \
         least one sheet and (several sheets, a defined name, or a non-default visibility/kind); \
         about 4% of the xls / ods cases carry an out-of-specification detail (DATEMODE = 2; a style name defined twice) on which only implementation and model are compared; unit cases = BoundSheet8 payloads (all 65536 hsState x dt byte pairs, random and truncated strings)",
    );
    rep.notes.push("xlsx/ods: quick-xml (text -> events) is trusted; the assurance there is chiefly the correspondence".into());
    if let Some(r) = &args.replay {
        let c = Case::parse(r);
        let out = eval(&c, &mut drv);
        rep.case(&c.wire(), true);
        for (kind, sig) in &out.fails {
            rep.fail(kind, sig, &c.wire(), &out.impl_out, &out.model_out, &out.expect);
        }
        eprintln!("impl   {}\nmodel  {}\nexpect {}", out.impl_out, out.model_out, out.expect);
        rep.write(&args.out);
        return;
    }
    for c in corpus() {
        run_case(&c, &mut drv, &mut rep, true);
    }
    let mut rng = Rng::new(args.seed);
    let per_fmt = args.count(2000, 100_000);
    unit_boundsheet(&mut drv, &mut rep, &mut rng.fork(), per_fmt * 5);
    for fmt in [Fmt::Xls, Fmt::Xlsb, Fmt::Xlsx, Fmt::Ods] {
        let mut r = rng.fork();
        for _ in 0..per_fmt {
            let c = gen_case(fmt, &mut r);
            run_case(&c, &mut drv, &mut rep, false);
        }
    }
    rep.add("driver_requests", drv.requests);
    rep.write(&args.out);
}
