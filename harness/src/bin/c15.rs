//! C15 — XLSX shared formulas expand to the translated formula of each member cell.
//!
//! Two stages, each compared three ways (impl = real calamine, model = Lean `drv_c15`, oracle = the
//! property computed independently here from the *token list* of the master formula):
//!   unit : `replace_cell_names` (hook) on grammar-generated formulas × offsets;
//!          oracle = `render(shift(toks, Δ))`;
//!   file : generated xlsx sheets with 1–5 shared groups (column / row / block / single cell, master
//!          anywhere in the declared range, shuffled `si`, non-member cells) read through
//!          `Xlsx::new` + `worksheet_formula`; oracle = translated master per member, own text for
//!          plain formulas, nothing elsewhere.
//! Input strings (replayable with `--replay`):
//!   `u:<toks>:<dr>:<dc>`   tokens in the driver's wire form
//!   `r:<hex>:<dr>:<dc>`    raw formula text (impl vs model only)
//!   `F:<layout seed, 0 = plain>:<item>|<item>|…`  item = `M,r,c,si,sr,sc,er,ec,<toks>` master |
//!        `C,r,c,si` member | `P,r,c,<toks>` plain formula | `V,r,c` value only |
//!        `A,r,c,kind,sr,sc,er,ec,<toks>` array / data-table formula (ref, not shared) |
//!        `X,r,c` shared without si (error) | `W,r,c,si,<hex ref>,<toks>` master with a raw `ref` text
use calamine::{Reader, Xlsx};
use std::collections::BTreeMap;
use std::io::Cursor;
use verif_harness::xlsxw::{end, start, text, Ev, Layout, XCell, XFormula, XVal, XlsxBook, XlsxSheet};
use verif_harness::{driver::Driver, guarded, hex, report::Report, rng::Rng, unhex, Args};

const MAX_ROWS: i64 = 1_048_576;
const MAX_COLS: i64 = 16_384;

// ------------------------------------------------------------------------------------------------
// tokens, rendering and translation (the oracle side; independent of the Lean spec)
// ------------------------------------------------------------------------------------------------

#[derive(Clone, Debug, PartialEq)]
enum Tok {
    Ref { ca: bool, col: u32, ra: bool, row: u32 },
    Str(String),
    Sheet(String, bool),
    Ident(String),
    Num(String),
    /// bracketed span `[s]`: structured-reference specifier or workbook index
    Struct(String),
    Punct(char),
}

fn col_letters(mut c: u32) -> String {
    // bijective base 26
    let mut s = vec![];
    loop {
        s.push((b'A' + (c % 26) as u8) as char);
        if c < 26 {
            break;
        }
        c = c / 26 - 1;
    }
    s.iter().rev().collect()
}

impl Tok {
    fn render(&self, out: &mut String) {
        match self {
            Tok::Ref { ca, col, ra, row } => {
                if *ca {
                    out.push('$');
                }
                out.push_str(&col_letters(*col));
                if *ra {
                    out.push('$');
                }
                out.push_str(&format!("{}", *row as u64 + 1));
            }
            Tok::Str(s) => {
                out.push('"');
                out.push_str(s);
                out.push('"');
            }
            Tok::Sheet(n, true) => {
                out.push('\'');
                out.push_str(n);
                out.push_str("'!");
            }
            Tok::Sheet(n, false) => {
                out.push_str(n);
                out.push('!');
            }
            Tok::Ident(s) | Tok::Num(s) => out.push_str(s),
            Tok::Struct(s) => {
                out.push('[');
                out.push_str(s);
                out.push(']');
            }
            Tok::Punct(c) => out.push(*c),
        }
    }
    fn shift(&self, dr: i64, dc: i64) -> Tok {
        match self {
            Tok::Ref { ca, col, ra, row } => Tok::Ref {
                ca: *ca,
                col: if *ca { *col } else { (*col as i64 + dc).max(0) as u32 },
                ra: *ra,
                row: if *ra { *row } else { (*row as i64 + dr).max(0) as u32 },
            },
            t => t.clone(),
        }
    }
    fn wire(&self) -> String {
        match self {
            Tok::Ref { ca, col, ra, row } => format!("R,{},{},{},{}", *ca as u8, col, *ra as u8, row),
            Tok::Str(s) => format!("S,{}", hex(s.as_bytes())),
            Tok::Sheet(n, true) => format!("Q,{}", hex(n.as_bytes())),
            Tok::Sheet(n, false) => format!("U,{}", hex(n.as_bytes())),
            Tok::Ident(s) => format!("I,{}", hex(s.as_bytes())),
            Tok::Num(s) => format!("N,{}", hex(s.as_bytes())),
            Tok::Struct(s) => format!("B,{}", hex(s.as_bytes())),
            Tok::Punct(c) => format!("P,{}", hex(c.to_string().as_bytes())),
        }
    }
    fn parse(s: &str) -> Tok {
        let p: Vec<&str> = s.split(',').collect();
        let txt = |i: usize| String::from_utf8(unhex(p[i])).expect("utf8");
        match p[0] {
            "R" => Tok::Ref { ca: p[1] == "1", col: p[2].parse().unwrap(), ra: p[3] == "1", row: p[4].parse().unwrap() },
            "S" => Tok::Str(txt(1)),
            "Q" => Tok::Sheet(txt(1), true),
            "U" => Tok::Sheet(txt(1), false),
            "I" => Tok::Ident(txt(1)),
            "N" => Tok::Num(txt(1)),
            "B" => Tok::Struct(txt(1)),
            "P" => Tok::Punct(txt(1).chars().next().unwrap()),
            x => panic!("bad token {x}"),
        }
    }
}

fn render(toks: &[Tok]) -> String {
    let mut s = String::new();
    for t in toks {
        t.render(&mut s);
    }
    s
}
fn shift(toks: &[Tok], dr: i64, dc: i64) -> Vec<Tok> {
    toks.iter().map(|t| t.shift(dr, dc)).collect()
}
fn wire(toks: &[Tok]) -> String {
    if toks.is_empty() {
        "-".into()
    } else {
        toks.iter().map(|t| t.wire()).collect::<Vec<_>>().join(";")
    }
}
fn parse_toks(s: &str) -> Vec<Tok> {
    if s == "-" {
        vec![]
    } else {
        s.split(';').map(Tok::parse).collect()
    }
}

// ------------------------------------------------------------------------------------------------
// grammar-directed generator
// ------------------------------------------------------------------------------------------------

/// offsets the generated references must survive (so that the shifted formula stays in the sheet)
#[derive(Clone, Copy, Debug)]
struct Room {
    dr_min: i64,
    dr_max: i64,
    dc_min: i64,
    dc_max: i64,
}

const FUNCS: &[&str] = &[
    "SUM", "IF", "LOG10", "ATAN2", "DEC2BIN", "HEX2DEC", "SUMX2MY2", "IMLOG2", "T.DIST.2T", "_xlfn.XLOOKUP", "DAYS360", "BIN2OCT",
    "FX1", "TAX2021", "AB12", "log10", "Größe2", "ROUND", "A1", "XFD1048576", "MAX",
];
const NAMES: &[&str] = &[
    "TAXES2021", "rate_2020", "Q1.2021", "XFE123", "ZZZ99999", "A1048577", "A0", "tax", "données", "日本", "Größe2", "_x1",
    "A1B", "R1C1", "1E5", "2A1", "A00000001", "ABCD01", "A1_", "A.1",
    // non-ASCII characters that are neither letters nor digits (combining marks of NFD spellings, Thai tone marks,
    // symbols) belong to the identifier like every non-ASCII character: cell-like ASCII text after them is not a cell
    "cafe\u{301}Q1", "e\u{301}B2", "re\u{301}sume\u{301}2021", "n\u{303}A1", "\u{e01}\u{e48}A1", "\u{e19}\u{e49}\u{e33}B12", "x€B2", "Δ\u{301}C3", "a\u{200d}D4", "№A7", "TAX_2021", "x", "é1", "A1é", "ABCD1", "A12345678", "$A", "A$", "$1", "A$$1", "$$A1", "TRUE",
];
const SHEETS_PLAIN: &[&str] = &["Sheet1", "AB1", "Données", "Feuil2", "X1", "data", "A1", "S_1", "表1", "Donne\u{301}esQ1", "\u{e01}\u{e48}B2"];
const SHEETS_QUOTED: &[&str] = &["My Sheet1", "A1", "B2:C3", "a\"b", "Feuille d été", "X+1", "(A1)", "", "2021", "LOG10(A1)"];
const STRINGS: &[&str] = &["", "a", "A1", "$B$2 + C3", "é A1", "it's", "LOG10(A1)", "x'y'z", "日本A1", "A1:B2", " ", "(", "'", "Sheet1!A1", "AB1!"];
const NUMS: &[&str] = &["1", "10", "1.5", "0.25", "100", "2021", "3.", "7", "1048576"];
const TABLES: &[&str] = &["Table1", "Tbl1", "Sales", "Q1", "FY21", "DeptSales", "T_1", "Données", "AB12"];
const SPECS: &[&str] = &[
    "Q1", "FY21", "Col1", "A1", "$B$2", "#This Row", "[#This Row],[Q1]", "[#Totals],[Q1 2021]", "[A1]:[B2]", "It''s A1", "'[A1']", "'#A1",
    "[#Headers],[#Data],[C3]", "@A1", "@[FY21]", "", "Sales Amount", "é A1", "[[A1]]", "\"A1\"", "LOG10(A1)",
    "a'[b", "Q']A1", "'[A1", "'[", "[a]A1", "[#Data],B2", "[x],$C$3:[y]",
    // every escaped character, also at the END of a column name (`'` escapes the next character, whatever it is)
    "Bob''", "[#This Row],[Bob'']", "It''", "''", "a''''", "x'''[", "Q1'#", "a'@b", "[Total']]", "[Lead'[]", "[A''],[B'']", "'A1", "B2''",
];
const OPS: &[char] = &['+', '-', '*', '/', '^', '&', '=', '<', '>'];

fn gen_ref(rng: &mut Rng, room: Room) -> Tok {
    let ca = rng.chance(1, 3);
    let ra = rng.chance(1, 3);
    let (clo, chi) = if ca { (0, MAX_COLS - 1) } else { ((-room.dc_min).max(0), MAX_COLS - 1 - room.dc_max.max(0)) };
    let (rlo, rhi) = if ra { (0, MAX_ROWS - 1) } else { ((-room.dr_min).max(0), MAX_ROWS - 1 - room.dr_max.max(0)) };
    let pick = |rng: &mut Rng, lo: i64, hi: i64, marks: &[i64]| -> u32 {
        let (lo, hi) = if lo > hi { (0, 0) } else { (lo, hi) };
        match rng.below(4) {
            0 => lo as u32,
            1 => hi as u32,
            2 => {
                let m = *rng.pick(marks);
                m.clamp(lo, hi) as u32
            }
            _ => {
                if rng.chance(1, 2) {
                    (lo + rng.below(((hi - lo) as u64).min(40) + 1) as i64) as u32
                } else {
                    (lo + rng.below((hi - lo) as u64 + 1) as i64) as u32
                }
            }
        }
    };
    Tok::Ref {
        ca,
        col: pick(rng, clo, chi, &[0, 25, 26, 27, 701, 702, 703, 16383, 8509, 13000]),
        ra,
        row: pick(rng, rlo, rhi, &[0, 8, 9, 99, 999_999, 1_048_575, 2020]),
    }
}

fn gen_operand(rng: &mut Rng, room: Room, depth: u32, out: &mut Vec<Tok>) {
    match rng.below(if depth > 2 { 10 } else { 13 }) {
        0..=2 => out.push(gen_ref(rng, room)),
        3 => {
            // area
            out.push(gen_ref(rng, room));
            out.push(Tok::Punct(':'));
            out.push(gen_ref(rng, room));
        }
        4 => {
            // sheet-qualified reference / area
            if rng.chance(1, 2) {
                out.push(Tok::Sheet(rng.pick(SHEETS_PLAIN).to_string(), false));
            } else {
                out.push(Tok::Sheet(rng.pick(SHEETS_QUOTED).to_string(), true));
            }
            out.push(gen_ref(rng, room));
            if rng.chance(1, 3) {
                out.push(Tok::Punct(':'));
                out.push(gen_ref(rng, room));
            }
        }
        5 => out.push(Tok::Ident(rng.pick(NAMES).to_string())),
        6 => out.push(Tok::Num(rng.pick(NUMS).to_string())),
        7 => {
            out.push(Tok::Str(rng.pick(STRINGS).to_string()));
            if rng.chance(1, 6) {
                // doubled quote inside a literal = two adjacent literals
                out.push(Tok::Str(rng.pick(STRINGS).to_string()));
            }
        }
        8 => {
            out.push(Tok::Num(rng.pick(NUMS).to_string()));
            out.push(Tok::Punct('%'));
        }
        9 => {
            // structured reference `Table1[Q1]`, bare specifier `[@Q1]`, or external workbook index `[1]Sheet1!A1`
            match rng.below(4) {
                0 | 1 => {
                    out.push(Tok::Ident(rng.pick(TABLES).to_string()));
                    out.push(Tok::Struct(rng.pick(SPECS).to_string()));
                }
                2 => out.push(Tok::Struct(rng.pick(SPECS).to_string())),
                _ => {
                    out.push(Tok::Struct(rng.pick(&["1", "2", "Book1.xlsx", "A1.xlsx"]).to_string()));
                    out.push(Tok::Sheet(rng.pick(SHEETS_PLAIN).to_string(), false));
                    out.push(gen_ref(rng, room));
                }
            }
        }
        10 | 11 => {
            // function call
            out.push(Tok::Ident(rng.pick(FUNCS).to_string()));
            out.push(Tok::Punct('('));
            let n = rng.below(4);
            for i in 0..n {
                if i > 0 {
                    out.push(Tok::Punct(if rng.chance(1, 8) { ';' } else { ',' }));
                    if rng.chance(1, 3) {
                        out.push(Tok::Punct(' '));
                    }
                }
                gen_expr(rng, room, depth + 1, out);
            }
            out.push(Tok::Punct(')'));
        }
        _ => {
            out.push(Tok::Punct('('));
            gen_expr(rng, room, depth + 1, out);
            out.push(Tok::Punct(')'));
        }
    }
}

fn gen_expr(rng: &mut Rng, room: Room, depth: u32, out: &mut Vec<Tok>) {
    if rng.chance(1, 10) {
        out.push(Tok::Punct('-'));
    }
    gen_operand(rng, room, depth, out);
    let mut n = if depth == 0 { rng.below(5) } else { rng.below(2) };
    while n > 0 && out.len() < 60 {
        if rng.chance(1, 5) {
            out.push(Tok::Punct(' '));
        }
        let op = *rng.pick(OPS);
        out.push(Tok::Punct(op));
        if (op == '<' || op == '>') && rng.chance(1, 3) {
            out.push(Tok::Punct('='));
        }
        if rng.chance(1, 5) {
            out.push(Tok::Punct(' '));
        }
        gen_operand(rng, room, depth, out);
        n -= 1;
    }
}

fn gen_formula(rng: &mut Rng, room: Room) -> Vec<Tok> {
    loop {
        let mut out = vec![];
        gen_expr(rng, room, 0, &mut out);
        if render(&out).chars().count() <= 220 {
            return out;
        }
    }
}

/// adversarial edits that usually leave the well-formed fragment (impl vs model only then)
fn mutate(rng: &mut Rng, toks: &mut Vec<Tok>) {
    if toks.is_empty() {
        return;
    }
    let i = rng.below(toks.len() as u64) as usize;
    match rng.below(6) {
        0 => {
            toks.remove(i);
        }
        1 => toks.insert(i, Tok::Ident(rng.pick(&["A1", "LOG10", "$B$2", "XFD1", "é", "AB1", "TAX2021"]).to_string())),
        2 => toks.insert(i, Tok::Punct(*rng.pick(&['(', '!', ' ', '#', '[', ']', '{', '@', '\\', '?']))),
        5 => toks.insert(i, Tok::Struct(rng.pick(&["A1", "[A1", "A1]", "'", "[", "]"]).to_string())),
        3 => toks.insert(i, Tok::Ref { ca: rng.chance(1, 2), col: rng.below(18_278) as u32, ra: rng.chance(1, 2), row: rng.below(1_100_000) as u32 }),
        _ => toks.insert(i, Tok::Num(rng.pick(&["1", "0", ".5", "1."]).to_string())),
    }
}

fn gen_offset(rng: &mut Rng) -> (i64, i64) {
    let one = |rng: &mut Rng, max: i64| -> i64 {
        let v = match rng.below(6) {
            0 => 0,
            1 => 1,
            2 => rng.range(1, 12) as i64,
            3 => rng.range(1, 300) as i64,
            4 => rng.range(1, max as u64) as i64,
            _ => max,
        };
        if rng.chance(1, 2) {
            -v
        } else {
            v
        }
    };
    (one(rng, MAX_ROWS - 1), one(rng, MAX_COLS - 1))
}

// ------------------------------------------------------------------------------------------------
// unit stage
// ------------------------------------------------------------------------------------------------

fn impl_replace(s: &str, dr: i64, dc: i64) -> String {
    #[cfg(feature = "hooks")]
    {
        match guarded(|| calamine::verif_hooks::xlsx::replace_cell_names(s, (dr, dc))) {
            Ok(Ok(v)) => format!("ok {}", hex(v.as_bytes())),
            Ok(Err(_)) => "err".into(),
            Err(_) => "panic".into(),
        }
    }
    #[cfg(not(feature = "hooks"))]
    {
        let _ = (s, dr, dc);
        "unavailable".into()
    }
}

struct UnitOut {
    wf: bool,
    text: String,
    imp: String,
    model: String,
    expect: String,
    fails: Vec<(String, String)>, // (kind, sig)
}

fn feature_sig(toks: &[Tok], imp: &str) -> String {
    if imp == "err" {
        return "replace:error_result".into();
    }
    if imp == "panic" {
        return "replace:panic".into();
    }
    let mixed = toks.iter().any(|t| matches!(t, Tok::Ref { ca, ra, .. } if *ca || *ra));
    let refs = toks.iter().any(|t| matches!(t, Tok::Ref { .. }));
    let idents = toks.iter().any(|t| matches!(t, Tok::Ident(_) | Tok::Sheet(_, false)));
    let quoted = toks.iter().any(|t| matches!(t, Tok::Str(_) | Tok::Sheet(_, true)));
    let structs = toks.iter().any(|t| matches!(t, Tok::Struct(_)));
    if structs && !refs {
        return "replace:structured_reference_changed".into();
    }
    if idents && !refs {
        "replace:identifier_changed".into()
    } else if mixed {
        "replace:absolute_component_moved".into()
    } else if quoted && !refs {
        "replace:quoted_text_changed".into()
    } else {
        "replace:wrong_translation".into()
    }
}

fn run_unit(toks: &[Tok], dr: i64, dc: i64, drv: &mut Driver) -> UnitOut {
    let text = render(toks);
    let want = render(&shift(toks, dr, dc));
    let reply = drv.ask(&format!("case {} {} {}", wire(toks), dr, dc));
    let p: Vec<&str> = reply.split(' ').collect();
    let mut fails = vec![];
    if p.len() < 4 {
        return UnitOut { wf: false, text, imp: String::new(), model: reply.clone(), expect: String::new(), fails: vec![("model_vs_spec".into(), "driver:bad_reply".into())] };
    }
    let wf = p[0] == "1";
    let model = p[3..].join(" ");
    // the Lean spec's rendering must be the harness's rendering (else the theorem speaks about other strings)
    if p[1] != hex(text.as_bytes()) {
        fails.push(("model_vs_spec".into(), "spec:render_differs".into()));
    }
    let imp = impl_replace(&text, dr, dc);
    let expect = if wf { format!("ok {}", hex(want.as_bytes())) } else { String::new() };
    if wf && p[2] != hex(want.as_bytes()) {
        fails.push(("model_vs_spec".into(), "spec:shift_differs".into()));
    }
    if imp != "unavailable" {
        if wf && imp != expect {
            fails.push(("impl_vs_spec".into(), feature_sig(toks, &imp)));
        }
        if imp != model {
            let sig = if wf && imp != expect { feature_sig(toks, &imp) } else { "replace:impl_model_differ".into() };
            fails.push(("impl_vs_model".into(), sig));
        }
    }
    if wf && model != expect {
        fails.push(("model_vs_spec".into(), "replace:model_differs".into()));
    }
    UnitOut { wf, text, imp, model, expect, fails }
}

fn shrink_unit(mut toks: Vec<Tok>, dr: i64, dc: i64, kind: &str, drv: &mut Driver) -> Vec<Tok> {
    let still = |t: &[Tok], drv: &mut Driver| run_unit(t, dr, dc, drv).fails.iter().any(|f| f.0 == kind);
    let mut progress = true;
    while progress && toks.len() > 1 {
        progress = false;
        let mut i = 0;
        while i < toks.len() && toks.len() > 1 {
            let mut cand = toks.clone();
            cand.remove(i);
            if still(&cand, drv) {
                toks = cand;
                progress = true;
            } else {
                i += 1;
            }
        }
    }
    toks
}

fn run_raw(s: &str, dr: i64, dc: i64, drv: &mut Driver) -> (String, String) {
    let model = drv.ask(&format!("replace {} {} {}", hex(s.as_bytes()), dr, dc));
    (impl_replace(s, dr, dc), model)
}

const RAW_PIECES: &[&str] = &[
    "A1", "$A$1", "$", "A", "1", "é", "\"", "'", "!", "(", ")", ":", " ", "+", "XFD", "1048576", "1048577", "XFE", "LOG10", ".", "_", "0", "a1", "Z", "$B", "$2",
    "日", ",", "A01", "AAAA1", "A12345678", "#REF!", "[1]", "\u{a0}", "×", "[", "]", "[A1]", "Tbl1[", "0000000", "00000001", "AAA", "a", "$$",
];

// ------------------------------------------------------------------------------------------------
// file stage
// ------------------------------------------------------------------------------------------------

#[derive(Clone, Debug)]
enum Item {
    Master { r: u32, c: u32, si: u32, rect: (u32, u32, u32, u32), toks: Vec<Tok> },
    MasterRaw { r: u32, c: u32, si: u32, rf: String, toks: Vec<Tok> },
    Child { r: u32, c: u32, si: u32 },
    Plain { r: u32, c: u32, toks: Vec<Tok> },
    Value { r: u32, c: u32 },
    NoSi { r: u32, c: u32 },
    /// a formula that carries a `ref` without being shared: kind 0 `t="array" ref`, 1 `t="array" ref si="0"`,
    /// 2 `t="dataTable" ref dt2D r1 r2`, 3 the same with `si="0"`; it reports its own text and concerns no group
    Array { r: u32, c: u32, kind: u8, rect: (u32, u32, u32, u32), toks: Vec<Tok> },
}

fn a1(r: u32, c: u32) -> String {
    format!("{}{}", col_letters(c), r as u64 + 1)
}

impl Item {
    fn pos(&self) -> (u32, u32) {
        match self {
            Item::Master { r, c, .. } | Item::MasterRaw { r, c, .. } | Item::Child { r, c, .. } | Item::Plain { r, c, .. } | Item::Value { r, c } | Item::NoSi { r, c } | Item::Array { r, c, .. } => (*r, *c),
        }
    }
    fn wire(&self) -> String {
        match self {
            Item::Master { r, c, si, rect, toks } => format!("M,{r},{c},{si},{},{},{},{},{}", rect.0, rect.1, rect.2, rect.3, wire(toks)),
            Item::MasterRaw { r, c, si, rf, toks } => format!("W,{r},{c},{si},{},{}", hex(rf.as_bytes()), wire(toks)),
            Item::Child { r, c, si } => format!("C,{r},{c},{si}"),
            Item::Plain { r, c, toks } => format!("P,{r},{c},{}", wire(toks)),
            Item::Value { r, c } => format!("V,{r},{c}"),
            Item::NoSi { r, c } => format!("X,{r},{c}"),
            Item::Array { r, c, kind, rect, toks } => format!("A,{r},{c},{kind},{},{},{},{},{}", rect.0, rect.1, rect.2, rect.3, wire(toks)),
        }
    }
    fn parse(s: &str) -> Item {
        let kind = &s[..1];
        let n = match kind {
            "M" | "A" => 9,
            "W" => 6,
            "P" => 4,
            _ => 9,
        };
        let p: Vec<&str> = s.splitn(n, ',').collect();
        let u = |i: usize| p[i].parse::<u32>().unwrap();
        match kind {
            "M" => Item::Master { r: u(1), c: u(2), si: u(3), rect: (u(4), u(5), u(6), u(7)), toks: parse_toks(p[8]) },
            "W" => Item::MasterRaw { r: u(1), c: u(2), si: u(3), rf: String::from_utf8(unhex(p[4])).unwrap(), toks: parse_toks(p[5]) },
            "C" => Item::Child { r: u(1), c: u(2), si: u(3) },
            "P" => Item::Plain { r: u(1), c: u(2), toks: parse_toks(p[3]) },
            "V" => Item::Value { r: u(1), c: u(2) },
            "X" => Item::NoSi { r: u(1), c: u(2) },
            "A" => Item::Array { r: u(1), c: u(2), kind: u(3) as u8, rect: (u(4), u(5), u(6), u(7)), toks: parse_toks(p[8]) },
            x => panic!("bad item {x}"),
        }
    }
    /// the cell in the Lean driver's `sheet` request
    fn model_wire(&self) -> String {
        match self {
            Item::Master { r, c, si, rect, toks } => {
                let rf = rect_text(*rect);
                format!("{r},{c},M,{si},{},{}", hex(rf.as_bytes()), hex(render(toks).as_bytes()))
            }
            Item::MasterRaw { r, c, si, rf, toks } => format!("{r},{c},M,{si},{},{}", hex(rf.as_bytes()), hex(render(toks).as_bytes())),
            Item::Child { r, c, si } => format!("{r},{c},C,{si},-"),
            Item::Plain { r, c, toks } => format!("{r},{c},P,{}", hex(render(toks).as_bytes())),
            Item::Value { r, c } => format!("{r},{c},N"),
            Item::NoSi { r, c } => format!("{r},{c},X,-"),
            Item::Array { r, c, toks, .. } => format!("{r},{c},P,{}", hex(render(toks).as_bytes())),
        }
    }
}

fn rect_text(rect: (u32, u32, u32, u32)) -> String {
    if (rect.0, rect.1) == (rect.2, rect.3) {
        a1(rect.0, rect.1)
    } else {
        format!("{}:{}", a1(rect.0, rect.1), a1(rect.2, rect.3))
    }
}

fn items_wire(items: &[Item]) -> String {
    items.iter().map(|i| i.wire()).collect::<Vec<_>>().join("|")
}

/// the xlsx file of a description (cells in document order = row-major) and the XML events of its worksheet
/// part in the drivers' wire form (`None` when the sheet had to be written as raw XML)
fn build_file(items: &[Item], lay: Lay) -> (Vec<u8>, Option<String>) {
    let (layout_seed, stream) = (lay.seed, lay.stream);
    let mut sh = XlsxSheet::new("S");
    for it in items {
        let (r, c) = it.pos();
        let val = XCell::new(XVal::Num("1".into()));
        let cell = match it {
            Item::Master { si, rect, toks, .. } => XCell { formula: Some(XFormula { text: render(toks), shared: Some((*si, Some(rect_text(*rect)))) }), ..val },
            Item::MasterRaw { si, rf, toks, .. } => XCell { formula: Some(XFormula { text: render(toks), shared: Some((*si, Some(rf.clone()))) }), ..val },
            Item::Child { si, .. } => XCell { formula: Some(XFormula { text: String::new(), shared: Some((*si, None)) }), ..val },
            Item::Plain { toks, .. } => XCell { formula: Some(XFormula { text: render(toks), shared: None }), ..val },
            Item::Value { .. } => val,
            Item::NoSi { .. } | Item::Array { .. } => val, // written by hand below
        };
        sh.set(r, c, cell);
    }
    let mut hand_events: Option<Vec<Ev>> = None;
    for m in lay.merges(items) {
        sh.merges.push(((m.0, m.1), (m.2, m.3)));
    }
    if stream || lay.zeros || items.iter().any(|i| matches!(i, Item::NoSi { .. } | Item::Array { .. })) {
        // written by hand, as events: `<f t="shared"/>` without `si` cannot be expressed by the writer, and in
        // stream mode the cells are written in the order of `items`: consecutive cells of one row form one `<row r>`
        // element, so a row may come in several fragments and rows in any order (every cell carries its `r`)
        let mut order: Vec<&Item> = items.iter().collect();
        if !stream {
            order.sort_by_key(|i| i.pos());
        }
        let ns = "http://schemas.openxmlformats.org/spreadsheetml/2006/main";
        let mut evs = vec![start("worksheet", &[("xmlns", ns)]), start("sheetData", &[])];
        let mut open_row: Option<u32> = None;
        for it in order {
            let (r, c) = it.pos();
            if open_row != Some(r) {
                if open_row.is_some() {
                    evs.push(end("row"));
                }
                evs.push(start("row", &[("r", &(r as u64 + 1).to_string())]));
                open_row = Some(r);
            }
            evs.push(start("c", &[("r", &a1(r, c))]));
            match it {
                Item::Master { si, rect, toks, .. } => {
                    evs.push(start("f", &[("t", "shared"), ("ref", &rect_text(*rect)), ("si", &lay.si_text(*si, r, c, true))]));
                    evs.push(text(&render(toks)));
                    evs.push(end("f"));
                }
                Item::MasterRaw { si, rf, toks, .. } => {
                    evs.push(start("f", &[("t", "shared"), ("ref", rf), ("si", &si.to_string())]));
                    evs.push(text(&render(toks)));
                    evs.push(end("f"));
                }
                Item::Child { si, .. } => {
                    evs.push(start("f", &[("t", "shared"), ("si", &lay.si_text(*si, r, c, false))]));
                    evs.push(end("f"));
                }
                Item::Plain { toks, .. } => {
                    evs.push(start("f", &[]));
                    evs.push(text(&render(toks)));
                    evs.push(end("f"));
                }
                Item::Value { .. } => {}
                Item::NoSi { .. } => {
                    evs.push(start("f", &[("t", "shared")]));
                    evs.push(end("f"));
                }
                Item::Array { kind, rect, toks, .. } => {
                    let rt = rect_text(*rect);
                    let attrs: Vec<(&str, &str)> = match kind {
                        0 => vec![("t", "array"), ("ref", &rt)],
                        1 => vec![("t", "array"), ("ref", &rt), ("si", "0")],
                        2 => vec![("t", "dataTable"), ("ref", &rt), ("dt2D", "1"), ("dtr", "1"), ("r1", "A1"), ("r2", "A2")],
                        _ => vec![("t", "dataTable"), ("ref", &rt), ("dt2D", "1"), ("dtr", "1"), ("r1", "A1"), ("r2", "A2"), ("si", "0")],
                    };
                    evs.push(start("f", &attrs));
                    if !toks.is_empty() {
                        evs.push(text(&render(toks)));
                    }
                    evs.push(end("f"));
                }
            }
            evs.push(start("v", &[]));
            evs.push(text("1"));
            evs.push(end("v"));
            evs.push(end("c"));
        }
        if open_row.is_some() {
            evs.push(end("row"));
        }
        evs.push(end("sheetData"));
        let merges = lay.merges(items);
        if !merges.is_empty() {
            evs.push(start("mergeCells", &[("count", &merges.len().to_string())]));
            for m in &merges {
                evs.push(start("mergeCell", &[("ref", &rect_text(*m))]));
                evs.push(end("mergeCell"));
            }
            evs.push(end("mergeCells"));
        }
        evs.push(end("worksheet"));
        let mut k = 0u32;
        sh.raw_xml = Some(verif_harness::xlsxw::serialize(&evs, || {
            k += 1;
            k % 3 != 0
        }));
        hand_events = Some(evs);
    }
    let mut book = XlsxBook::new();
    book.sheets.push(sh);
    let layout = if layout_seed == 0 {
        Layout::plain()
    } else {
        let mut r = Rng::new(layout_seed);
        let mut l = Layout::random(&mut r);
        // knobs that do not concern formulas and are owned by other properties stay plain
        l.pct_swap_string_store = 0;
        l.pct_rich = 0;
        let p = Layout::plain();
        l.rel_prefix = p.rel_prefix;
        l.part_case = p.part_case;
        l.target = p.target;
        l
    };
    let built = book.build(&layout);
    let wire = match &hand_events {
        Some(e) => Some(verif_harness::xlsxw::ev_wire(e)),
        None => built.sheet_events.first().filter(|e| !e.is_empty()).map(|e| verif_harness::xlsxw::ev_wire(e)),
    };
    (built.bytes, wire)
}

/// how a file is written and read: the writer's layout seed (0 = plain) and the reader option set before
/// `worksheet_formula` (`with_header_row(HeaderRow::Row(n))`; `None`: a freshly opened workbook).
/// Pinned: `worksheet_formula` does not depend on the header-row option (the property and the API
/// documentation name no such dependence; the unchanged reader ignores the option for formulas).
#[derive(Clone, Copy, Debug, PartialEq)]
struct Lay {
    seed: u64,
    header: Option<u32>,
    /// the items are in STREAM order and are written in that order (row fragments, rows out of order); otherwise
    /// the sheet is written row-major
    stream: bool,
    /// the `si` attributes are written with 0–2 leading zeros chosen per cell (`si="1"` on the master, `si="001"` on
    /// a member …): xsd:unsignedInt lexical forms of the same index
    zeros: bool,
    /// the declared range of the first groups is also written as a `<mergeCell>` region (it then lies over members)
    merge: bool,
    /// reader calls made before `worksheet_formula`: bit 0 `load_merged_regions()`, bit 1 `load_tables()`.
    /// Pinned: `worksheet_formula` does not depend on them (nor on the header-row option).
    pre: u8,
}

impl Lay {
    fn plain() -> Lay {
        Lay { seed: 0, header: None, stream: false, zeros: false, merge: false, pre: 0 }
    }
    /// `<seed>[h<n>][p<bits>][s][z][m]`
    fn wire(&self) -> String {
        let mut w = self.seed.to_string();
        if let Some(h) = self.header {
            w.push_str(&format!("h{h}"));
        }
        if self.pre != 0 {
            w.push_str(&format!("p{}", self.pre));
        }
        if self.stream {
            w.push('s');
        }
        if self.zeros {
            w.push('z');
        }
        if self.merge {
            w.push('m');
        }
        w
    }
    fn parse(s: &str) -> Lay {
        let mut l = Lay::plain();
        let mut s = s.to_string();
        while let Some(c) = s.chars().last() {
            match c {
                's' => l.stream = true,
                'z' => l.zeros = true,
                'm' => l.merge = true,
                _ => break,
            }
            s.pop();
        }
        if let Some((a, b)) = s.clone().split_once('p') {
            l.pre = b.parse().unwrap();
            s = a.to_string();
        }
        if let Some((a, b)) = s.clone().split_once('h') {
            l.header = Some(b.parse().unwrap());
            s = a.to_string();
        }
        l.seed = s.parse().unwrap();
        l
    }
    /// number of leading zeros of the `si` written in the cell at (r, c)
    fn si_text(&self, si: u32, r: u32, c: u32, master: bool) -> String {
        let k = if !self.zeros { 0 } else if master { (r as usize * 7 + c as usize) % 2 } else { (r as usize + 2 * c as usize + 1) % 3 };
        format!("{}{}", "0".repeat(k), si)
    }
    /// the `<mergeCell>` regions written when `merge` is set: the declared ranges (≥ 2 cells) of the first 3 groups
    fn merges(&self, items: &[Item]) -> Vec<(u32, u32, u32, u32)> {
        if !self.merge {
            return vec![];
        }
        items.iter().filter_map(|i| match i {
            Item::Master { rect, .. } if (rect.0, rect.1) != (rect.2, rect.3) => Some(*rect),
            _ => None,
        }).take(3).collect()
    }
}

type Cells = Vec<((u32, u32), String)>;

fn show_cells(r: &Result<Cells, String>) -> String {
    match r {
        Ok(v) if v.is_empty() => "ok -".into(),
        Ok(v) => format!("ok {}", v.iter().map(|((r, c), t)| format!("{r},{c},{}", hex(t.as_bytes()))).collect::<Vec<_>>().join(";")),
        Err(e) => e.clone(),
    }
}

fn impl_file(bytes: &[u8], lay: Lay) -> Result<Cells, String> {
    let header = lay.header;
    let res = guarded(|| -> Result<Cells, String> {
        let mut wb: Xlsx<_> = Xlsx::new(Cursor::new(bytes.to_vec())).map_err(|e| format!("open:{e}"))?;
        // the history before `worksheet_formula`
        if lay.pre & 1 != 0 {
            wb.load_merged_regions().map_err(|_| "err:load_merged_regions".to_string())?;
        }
        if lay.pre & 2 != 0 {
            wb.load_tables().map_err(|_| "err:load_tables".to_string())?;
        }
        if let Some(h) = header {
            wb.with_header_row(calamine::HeaderRow::Row(h));
        }
        let rg = wb.worksheet_formula("S").map_err(|_| "err".to_string())?;
        let mut out = vec![];
        if let Some((sr, sc)) = rg.start() {
            for (i, j, v) in rg.used_cells() {
                out.push(((sr + i as u32, sc + j as u32), v.clone()));
            }
        }
        out.sort();
        Ok(out)
    });
    match res {
        Ok(r) => r,
        Err(_) => Err("panic".into()),
    }
}

fn parse_cells(reply: &str) -> Result<Cells, String> {
    if let Some(rest) = reply.strip_prefix("ok ") {
        let mut out = vec![];
        if rest != "-" {
            for c in rest.split(';') {
                let p: Vec<&str> = c.split(',').collect();
                out.push(((p[0].parse().unwrap(), p[1].parse().unwrap()), String::from_utf8(unhex(p[2])).unwrap()));
            }
        }
        out.sort();
        Ok(out)
    } else {
        Err(reply.to_string())
    }
}

/// `si` values above this are read in a child process: a reader that sizes a table by `si` aborts the
/// process (allocation failure) or fills the memory, which `catch_unwind` cannot contain
const HUGE_SI: u32 = 1_000_000;

fn has_huge_si(items: &[Item]) -> bool {
    items.iter().any(|i| matches!(i, Item::Master { si, .. } | Item::MasterRaw { si, .. } | Item::Child { si, .. } if *si > HUGE_SI))
}

/// the implementation's result computed by a child process of this binary (env `C15_PROBE_FILE`),
/// killed after 15 s: `Err("abort")` / `Err("timeout")` when it does not survive the file
fn impl_file_child(items: &[Item], lay: Lay) -> Result<Cells, String> {
    use std::process::{Command, Stdio};
    // `/proc/self/exe` keeps working when the binary file is replaced (re-linked by a concurrent cargo build)
    let exe = if std::path::Path::new("/proc/self/exe").exists() { std::path::PathBuf::from("/proc/self/exe") } else { std::env::current_exe().expect("current_exe") };
    let mut child = Command::new(exe)
        .env("C15_PROBE_FILE", format!("{}:{}", lay.wire(), items_wire(items)))
        .stdin(Stdio::null())
        .stdout(Stdio::piped())
        .stderr(Stdio::null())
        .spawn()
        .expect("spawn probe child");
    // the reply can be longer than a pipe buffer: it is drained by a thread of its own
    let mut pipe = child.stdout.take().unwrap();
    let reader = std::thread::spawn(move || {
        let mut out = String::new();
        use std::io::Read;
        let _ = pipe.read_to_string(&mut out);
        out
    });
    let t0 = std::time::Instant::now();
    loop {
        match child.try_wait().expect("wait") {
            Some(st) => {
                let out = reader.join().unwrap_or_default();
                if !st.success() {
                    return Err("abort".into());
                }
                return parse_cells(out.trim_end());
            }
            None => {
                if t0.elapsed().as_secs() >= 15 {
                    let _ = child.kill();
                    let _ = child.wait();
                    return Err("timeout".into());
                }
                std::thread::sleep(std::time::Duration::from_millis(5));
            }
        }
    }
}

fn model_file(items: &[Item], stream: bool, drv: &mut Driver) -> Result<Cells, String> {
    let mut sorted: Vec<&Item> = items.iter().collect();
    if !stream {
        sorted.sort_by_key(|i| i.pos());
    }
    let req = if sorted.is_empty() { "-".to_string() } else { sorted.iter().map(|i| i.model_wire()).collect::<Vec<_>>().join(";") };
    let reply = drv.ask(&format!("sheet {req}"));
    parse_cells(&reply)
}

/// The property as stated: every member cell (a `t="shared"` cell with the group's `si` inside the
/// group's declared range, after the master in document order) carries the master formula translated
/// by its offset from the master; the master and plain-formula cells carry their own text; all other
/// cells carry no formula. `None` when the description leaves the domain the property quantifies over.
fn oracle_file(items: &[Item], stream: bool, drv: &mut Driver) -> Option<Cells> {
    let mut sorted: Vec<&Item> = items.iter().collect();
    if !stream {
        sorted.sort_by_key(|i| i.pos());
    }
    let mut groups: BTreeMap<u32, (Vec<Tok>, (u32, u32, u32, u32), (u32, u32))> = BTreeMap::new();
    let mut out = vec![];
    for it in sorted {
        match it {
            Item::Master { r, c, si, rect, toks } => {
                // an si declared again: from here on the members belong to this (the last) declaration
                if !(rect.0 <= *r && *r <= rect.2 && rect.1 <= *c && *c <= rect.3) {
                    return None;
                }
                groups.insert(*si, (toks.clone(), *rect, (*r, *c)));
                out.push(((*r, *c), render(toks)));
            }
            Item::Child { r, c, si } => {
                let (toks, rect, m) = groups.get(si)?;
                if !(rect.0 <= *r && *r <= rect.2 && rect.1 <= *c && *c <= rect.3) {
                    return None; // a cell outside the declared range naming the group: not specified
                }
                let (dr, dc) = (*r as i64 - m.0 as i64, *c as i64 - m.1 as i64);
                let rep = drv.ask(&format!("shift {} {} {}", wire(toks), dr, dc));
                if !rep.starts_with("1 ") {
                    return None; // not well-formed for this offset (e.g. leaves the sheet)
                }
                out.push(((*r, *c), render(&shift(toks, dr, dc))));
            }
            Item::Plain { r, c, toks } | Item::Array { r, c, toks, .. } => out.push(((*r, *c), render(toks))),
            Item::Value { .. } => {}
            Item::MasterRaw { .. } | Item::NoSi { .. } => return None,
        }
    }
    out.retain(|(_, t)| !t.is_empty());
    out.sort();
    Some(out)
}

struct FileOut {
    from_events: bool,
    imp: String,
    model: String,
    expect: String,
    fails: Vec<(String, String)>,
}

fn file_sig(items: &[Item], imp: &Result<Cells, String>, want: &Cells) -> String {
    let Ok(got) = imp else {
        let e = imp.as_ref().err().unwrap();
        if has_huge_si(items) && (e == "abort" || e == "timeout") {
            return "file:si-huge-allocation".into();
        }
        return format!("file:{}", e.split(':').next().unwrap_or("err"));
    };
    let gm: BTreeMap<_, _> = got.iter().cloned().collect();
    let wm: BTreeMap<_, _> = want.iter().cloned().collect();
    let is_member = |p: &(u32, u32)| items.iter().any(|i| matches!(i, Item::Child { r, c, .. } if (*r, *c) == *p));
    let mut missing_member = false;
    let mut wrong_member = false;
    let mut other = false;
    for (p, t) in &wm {
        match gm.get(p) {
            None if is_member(p) => missing_member = true,
            Some(g) if g != t && is_member(p) => wrong_member = true,
            Some(g) if g == t => {}
            _ => other = true,
        }
    }
    if gm.keys().any(|p| !wm.contains_key(p)) {
        other = true;
    }
    let block = items.iter().any(|i| matches!(i, Item::Master { rect, .. } if rect.0 != rect.2 && rect.1 != rect.3));
    // first appearance order of the si values differs from their numeric order?
    let mut sorted: Vec<&Item> = items.iter().collect();
    sorted.sort_by_key(|i| i.pos());
    let sis: Vec<u32> = sorted.iter().filter_map(|i| if let Item::Master { si, .. } = i { Some(*si) } else { None }).collect();
    let in_order = sis.iter().enumerate().all(|(i, s)| *s as usize == i);
    let twice = {
        let mut seen = std::collections::BTreeSet::new();
        sis.iter().any(|x| !seen.insert(*x))
    };
    if (missing_member || wrong_member) && twice {
        return "file:si_declared_twice_member_of_stale_group".into();
    }
    if missing_member && block && in_order {
        "file:block_member_without_formula".into()
    } else if (missing_member || wrong_member) && !in_order {
        "file:si_not_in_order_of_appearance".into()
    } else if missing_member {
        "file:member_without_formula".into()
    } else if wrong_member {
        "file:member_wrong_translation".into()
    } else if other {
        "file:non_member_affected".into()
    } else {
        "file:differs".into()
    }
}

fn run_file(items: &[Item], lay: Lay, drv: &mut Driver) -> FileOut {
    let (bytes, wire) = build_file(items, lay);
    let imp = if has_huge_si(items) {
        impl_file_child(items, lay)
    } else {
        impl_file(&bytes, lay)
    };
    // the model reads the XML events that were written (event-level model of `next_formula`); the abstract
    // cell-list model (`sheet`) must agree with it (theorem `texts_spec` / `sheet_events_exact`)
    let abstract_model = model_file(items, lay.stream, drv);
    let model = match &wire {
        Some(w) => {
            let mut r = parse_cells(&drv.ask(&format!("events {w}")));
            if let Ok(v) = &mut r {
                v.sort();
            }
            r
        }
        None => abstract_model.clone(),
    };
    let want = oracle_file(items, lay.stream, drv);
    let mut fails = vec![];
    // a result that is right on a freshly opened workbook and wrong after `with_header_row` gets its own class
    let header_dependent = |imp: &Result<Cells, String>, reference: &Cells| -> bool {
        (lay.header.is_some() || lay.pre != 0) && !has_huge_si(items) && imp.as_ref().ok() != Some(reference) && impl_file(&bytes, Lay { header: None, pre: 0, ..lay }).as_ref().ok() == Some(reference)
    };
    // … and one that is right when every cell spells the index alike and wrong with leading zeros
    let spelling_dependent = |imp: &Result<Cells, String>, reference: &Cells| -> bool {
        lay.zeros && !has_huge_si(items) && imp.as_ref().ok() != Some(reference) && {
            let l2 = Lay { zeros: false, ..lay };
            impl_file(&build_file(items, l2).0, l2).as_ref().ok() == Some(reference)
        }
    };
    if let Some(w) = &want {
        if imp.as_ref().ok() != Some(w) {
            let sig = if spelling_dependent(&imp, w) {
                "file:si_spelled_differently_not_matched".to_string()
            } else if header_dependent(&imp, w) { "file:formulas_depend_on_earlier_reader_calls".to_string() } else { file_sig(items, &imp, w) };
            fails.push(("impl_vs_spec".to_string(), sig));
        }
        if model.as_ref().ok() != Some(w) {
            fails.push(("model_vs_spec".to_string(), "file:model_differs".to_string()));
        }
    }
    if model != abstract_model {
        fails.push(("model_vs_spec".to_string(), "file:event_model_vs_cell_model".to_string()));
    }
    if imp != model {
        let sig = match &want {
            Some(w) if spelling_dependent(&imp, w) => "file:si_spelled_differently_not_matched".to_string(),
            Some(w) if header_dependent(&imp, w) => "file:formulas_depend_on_earlier_reader_calls".to_string(),
            None if model.as_ref().map(|m| header_dependent(&imp, m)).unwrap_or(false) => "file:formulas_depend_on_earlier_reader_calls".to_string(),
            Some(w) if imp.as_ref().ok() != Some(w) => file_sig(items, &imp, w),
            _ if has_huge_si(items) && matches!(&imp, Err(e) if e == "abort" || e == "timeout") => "file:si-huge-allocation".to_string(),
            _ => "file:impl_model_differ".to_string(),
        };
        fails.push(("impl_vs_model".to_string(), sig));
    }
    let from_events = wire.is_some();
    FileOut { from_events, imp: show_cells(&imp), model: show_cells(&model), expect: want.map(|w| show_cells(&Ok(w))).unwrap_or_default(), fails }
}

fn shrink_file(mut items: Vec<Item>, lay: Lay, kind: &str, sig: &str, drv: &mut Driver) -> Vec<Item> {
    let still = |it: &[Item], drv: &mut Driver| run_file(it, lay, drv).fails.iter().any(|f| f.0 == kind && f.1 == sig);
    let mut progress = true;
    let mut budget = 300;
    while progress && items.len() > 1 && budget > 0 {
        progress = false;
        let mut i = 0;
        while i < items.len() && items.len() > 1 && budget > 0 {
            budget -= 1;
            let mut cand = items.clone();
            cand.remove(i);
            if still(&cand, drv) {
                items = cand;
                progress = true;
            } else {
                i += 1;
            }
        }
    }
    // simplify the master formulas
    for i in 0..items.len() {
        if let Item::Master { toks, .. } = &items[i] {
            let mut t = toks.clone();
            let mut j = 0;
            while j < t.len() && t.len() > 1 && budget > 0 {
                budget -= 1;
                let mut cand_t = t.clone();
                cand_t.remove(j);
                let mut cand = items.clone();
                if let Item::Master { toks, .. } = &mut cand[i] {
                    *toks = cand_t.clone();
                }
                if still(&cand, drv) {
                    t = cand_t;
                    items = cand;
                } else {
                    j += 1;
                }
            }
        }
    }
    items
}

/// one sheet: 1–5 groups on disjoint rectangles of a 40 × 16 window placed anywhere in the sheet
fn gen_file(rng: &mut Rng) -> Vec<Item> {
    let base_r = *rng.pick(&[0u32, 0, 1, 7, 100, 1_048_536]);
    let base_c = *rng.pick(&[0u32, 0, 1, 20, 700, 16_368]);
    let ngroups = rng.range(1, 5) as usize;
    let mut sis: Vec<u32> = (0..(ngroups as u32 + rng.below(3) as u32)).collect();
    rng.shuffle(&mut sis);
    if rng.chance(1, 10) {
        sis[0] += rng.range(1, 40) as u32; // gap in the numbering
    }
    if rng.chance(1, 4) {
        // indices at and around powers of two / typical container thresholds
        let k = rng.below(sis.len() as u64) as usize;
        let t = *rng.pick(&[15u32, 16, 31, 32, 63, 64, 127, 128, 255, 256, 511, 512, 1023, 1024, 2047, 2048, 4095, 4096, 8191, 8192, 32_767, 32_768, 65_535, 65_536]);
        let v = t + rng.below(2) as u32;
        if !sis.contains(&v) {
            sis[k] = v;
        }
    }
    if rng.chance(1, 25) {
        // memory must follow the number of groups, not the value of si
        let k = rng.below(sis.len() as u64) as usize;
        sis[k] = *rng.pick(&[1_000_001u32, 16_777_216, 2_147_483_647, 2_147_483_648, u32::MAX - 1, u32::MAX]);
    }
    let mut occupied: Vec<(u32, u32, u32, u32)> = vec![];
    let mut items = vec![];
    let mut taken: std::collections::BTreeSet<(u32, u32)> = Default::default();
    for g in 0..ngroups {
        // rectangle relative to the window
        let (h, w) = match rng.below(5) {
            0 => (rng.range(2, 9) as u32, 1),
            1 => (1, rng.range(2, 7) as u32),
            2 | 3 => (rng.range(2, 6) as u32, rng.range(2, 5) as u32),
            _ => (1, 1),
        };
        let mut placed = None;
        for _ in 0..30 {
            let r0 = rng.below((40 - h + 1) as u64) as u32;
            let c0 = rng.below((16 - w + 1) as u64) as u32;
            let cand = (r0, c0, r0 + h - 1, c0 + w - 1);
            if occupied.iter().all(|o| cand.2 < o.0 || o.2 < cand.0 || cand.3 < o.1 || o.3 < cand.1) {
                placed = Some(cand);
                break;
            }
        }
        let Some(rel) = placed else { continue };
        occupied.push(rel);
        let rect = (base_r + rel.0, base_c + rel.1, base_r + rel.2, base_c + rel.3);
        // members: a subset of the rectangle; the master is the first member in document order
        let mut cells = vec![];
        for r in rect.0..=rect.2 {
            for c in rect.1..=rect.3 {
                cells.push((r, c));
            }
        }
        let keep_all = rng.chance(1, 2);
        let lead_skip = if rng.chance(1, 3) { rng.below(cells.len() as u64) as usize } else { 0 };
        let members: Vec<(u32, u32)> = cells.iter().enumerate().filter(|(i, _)| *i >= lead_skip && (*i == lead_skip || keep_all || rng.chance(3, 4))).map(|(_, p)| *p).collect();
        let master = members[0];
        let room = Room {
            dr_min: rect.0 as i64 - master.0 as i64,
            dr_max: rect.2 as i64 - master.0 as i64,
            dc_min: rect.1 as i64 - master.1 as i64,
            dc_max: rect.3 as i64 - master.1 as i64,
        };
        let toks = gen_formula(rng, room);
        items.push(Item::Master { r: master.0, c: master.1, si: sis[g], rect, toks });
        taken.insert(master);
        for m in &members[1..] {
            items.push(Item::Child { r: m.0, c: m.1, si: sis[g] });
            taken.insert(*m);
        }
        // the other cells of the rectangle: nothing, a value, or a formula of their own
        for p in &cells {
            if !taken.contains(p) {
                match rng.below(4) {
                    0 => {
                        items.push(Item::Value { r: p.0, c: p.1 });
                        taken.insert(*p);
                    }
                    1 => {
                        let t = gen_formula(rng, Room { dr_min: 0, dr_max: 0, dc_min: 0, dc_max: 0 });
                        items.push(Item::Plain { r: p.0, c: p.1, toks: t });
                        taken.insert(*p);
                    }
                    _ => {}
                }
            }
        }
    }
    // cells outside every group
    for _ in 0..rng.below(6) {
        let p = (base_r + rng.below(40) as u32, base_c + rng.below(16) as u32);
        if taken.contains(&p) || occupied.iter().any(|o| base_r + o.0 <= p.0 && p.0 <= base_r + o.2 && base_c + o.1 <= p.1 && p.1 <= base_c + o.3) {
            continue;
        }
        taken.insert(p);
        if rng.chance(2, 3) {
            let t = gen_formula(rng, Room { dr_min: 0, dr_max: 0, dc_min: 0, dc_max: 0 });
            items.push(Item::Plain { r: p.0, c: p.1, toks: t });
        } else {
            items.push(Item::Value { r: p.0, c: p.1 });
        }
    }
    // array / data-table formulas (a `ref` without `t="shared"`) stored between a master and its members
    if rng.chance(1, 3) {
        let masters: Vec<(u32, (u32, u32))> = items.iter().filter_map(|i| if let Item::Master { r, c, si, .. } = i { Some((*si, (*r, *c))) } else { None }).collect();
        for _ in 0..rng.range(1, 2) {
            let Some(&(si, m)) = masters.get(rng.below(masters.len().max(1) as u64) as usize) else { break };
            let last = items.iter().filter_map(|i| if let Item::Child { r, c, si: s } = i { if *s == si { Some((*r, *c)) } else { None } } else { None }).max();
            let Some(last) = last else { continue };
            if last <= m {
                continue; // (two groups may share an si: the members found may belong to the other one)
            }
            for _ in 0..30 {
                let p = (rng.range(m.0 as u64, last.0 as u64) as u32, base_c + rng.below(16) as u32);
                if p > m && p < last && !taken.contains(&p) {
                    taken.insert(p);
                    let kind = rng.below(4) as u8;
                    let toks = if kind >= 2 && rng.chance(1, 2) { vec![] } else { gen_formula(rng, Room { dr_min: 0, dr_max: 0, dc_min: 0, dc_max: 0 }) };
                    items.push(Item::Array { r: p.0, c: p.1, kind, rect: (p.0, p.1, p.0 + rng.below(3) as u32, p.1 + rng.below(2) as u32), toks });
                    break;
                }
            }
        }
    }
    items.sort_by_key(|i| i.pos());
    items
}

/// descriptions outside the property's domain (impl vs model only): dangling / stray members,
/// re-used si, missing si, malformed `ref`
fn gen_odd_file(rng: &mut Rng) -> Vec<Item> {
    let mut items = gen_file(rng);
    // stay inside the window of the sheet (dense `Range` allocation, ledger D37)
    let r0 = items.iter().map(|i| i.pos().0).min().unwrap_or(0).min(1_048_500);
    let c0 = items.iter().map(|i| i.pos().1).min().unwrap_or(0).min(16_340);
    let pos_free = |items: &[Item], rng: &mut Rng| -> (u32, u32) {
        loop {
            let p = (r0 + rng.below(60) as u32, c0 + rng.below(30) as u32);
            if items.iter().all(|i| i.pos() != p) {
                return p;
            }
        }
    };
    match rng.below(6) {
        0 => {
            let p = pos_free(&items, rng);
            items.push(Item::Child { r: p.0, c: p.1, si: rng.below(8) as u32 });
        }
        5 => {
            // a cell naming a group from just outside the group's declared range, after the master
            let masters: Vec<(u32, (u32, u32, u32, u32), (u32, u32))> =
                items.iter().filter_map(|i| if let Item::Master { r, c, si, rect, .. } = i { Some((*si, *rect, (*r, *c))) } else { None }).collect();
            if let Some((si, rect, m)) = masters.get(rng.below(masters.len().max(1) as u64) as usize).copied() {
                let cand = [
                    (rect.2 + 1, rect.1),
                    (rect.2 + 1, rect.3),
                    (rect.2, rect.3 + 1),
                    (rect.0, rect.3 + 1),
                    (rect.2, rect.1.saturating_sub(1)),
                    (rect.2 + 1, rect.3 + 1),
                    (m.0, rect.3 + 1),
                ];
                let p = *rng.pick(&cand);
                if p > m && p.0 < 1_048_576 && p.1 < 16_384 && items.iter().all(|i| i.pos() != p) {
                    items.push(Item::Child { r: p.0, c: p.1, si });
                }
            }
        }
        1 => {
            let p = pos_free(&items, rng);
            let t = gen_formula(rng, Room { dr_min: 0, dr_max: 3, dc_min: 0, dc_max: 3 });
            items.push(Item::Master { r: p.0, c: p.1, si: rng.below(4) as u32, rect: (p.0, p.1, p.0 + rng.below(3) as u32, p.1 + rng.below(3) as u32), toks: t });
        }
        2 => {
            let p = pos_free(&items, rng);
            items.push(Item::NoSi { r: p.0, c: p.1 });
        }
        3 => {
            let p = pos_free(&items, rng);
            let t = gen_formula(rng, Room { dr_min: 0, dr_max: 0, dc_min: 0, dc_max: 0 });
            let rf = rng.pick(&["", "A", "1", "A1:", ":B2", "A1:B2:C3", "b2:c3", "$A$1", "A1:1", "A0", "Sheet1!A1"]).to_string();
            items.push(Item::MasterRaw { r: p.0, c: p.1, si: 9, rf, toks: t });
            items.push(Item::Child { r: p.0 + 1, c: p.1, si: 9 });
        }
        _ => {
            // reversed rectangle: `get_dimension` subtracts in u32
            let p = pos_free(&items, rng);
            let t = gen_formula(rng, Room { dr_min: 0, dr_max: 0, dc_min: 0, dc_max: 0 });
            items.push(Item::MasterRaw { r: p.0, c: p.1, si: 9, rf: format!("{}:{}", a1(p.0 + 2, p.1 + 1), a1(p.0, p.1)), toks: t });
        }
    }
    let mut seen = std::collections::BTreeSet::new();
    items.retain(|i| seen.insert(i.pos()));
    items.sort_by_key(|i| i.pos());
    items
}

// ------------------------------------------------------------------------------------------------
// corpus: every defect ever found, minimal
// ------------------------------------------------------------------------------------------------

fn rf(ca: bool, col: u32, ra: bool, row: u32) -> Tok {
    Tok::Ref { ca, col, ra, row }
}

fn corpus_unit() -> Vec<(Vec<Tok>, i64, i64)> {
    let p = Tok::Punct;
    vec![
        // D13: mixed references moved their absolute component
        (vec![rf(true, 0, false, 0)], 1, 1),
        (vec![rf(false, 0, true, 0)], 1, 1),
        (vec![rf(true, 0, true, 0)], 1, 1),
        (vec![rf(true, 0, false, 0), p('+'), rf(false, 0, true, 0)], 1, 1),
        // D13: identifiers that look like cells
        (vec![Tok::Ident("LOG10".into()), p('('), rf(false, 0, false, 0), p(')')], 1, 1),
        (vec![Tok::Sheet("AB1".into(), false), rf(false, 0, false, 0)], 1, 0),
        (vec![Tok::Sheet("My Sheet1".into(), true), rf(false, 1, false, 1)], 2, 2),
        // D13: non-ASCII text made the whole translation fail
        (vec![rf(false, 0, false, 0), p('&'), Tok::Str("é".into())], 1, 0),
        (vec![Tok::Ident("données".into()), p('+'), rf(false, 0, false, 0)], 0, 1),
        // D13: a run was split in the middle (`R1C1` → cell `C1`), and the shifted row -1 wrapped / panicked
        (vec![Tok::Ident("R1C1".into())], -1, 8718),
        // D13: a pending numeral was emitted after the string literal that follows it (`1" "` → `" 1"`)
        (vec![Tok::Num("1".into()), Tok::Str(" ".into())], 0, 12),
        (vec![Tok::Sheet("A1".into(), false), rf(false, 27, false, 0)], 0, 16),
        // review item C3 of fix 54c17fa: table names and column specifiers of structured references were shifted
        (vec![Tok::Ident("Table1".into()), Tok::Struct("Q1".into()), p('+'), rf(false, 0, false, 0)], 1, 1),
        (vec![Tok::Ident("SUM".into()), p('('), Tok::Ident("Sales".into()), Tok::Struct("FY21".into()), p(')')], 1, 1),
        (vec![Tok::Ident("Tbl1".into()), Tok::Struct("Col1".into())], 1, 1),
        (vec![Tok::Ident("T".into()), Tok::Struct("[#This Row],[A1]".into())], 2, 0),
        (vec![Tok::Struct("1".into()), Tok::Sheet("Sheet1".into(), false), rf(false, 0, false, 0)], 1, 0),
        (vec![Tok::Ident("T".into()), Tok::Struct("'[A1']".into()), p('*'), rf(false, 1, false, 1)], 1, 1),
        // seeded change C15-m5: `''` directly before the closing bracket, relative references after it
        (vec![Tok::Ident("Table1".into()), Tok::Struct("[#This Row],[Bob'']".into()), p('*'), rf(false, 0, false, 1), p('+'), rf(false, 1, false, 1)], 1, 0),
        (vec![Tok::Ident("Tbl".into()), Tok::Struct("It''".into()), p('&'), rf(false, 2, false, 2)], 2, 2),
        (vec![Tok::Struct("a'@b''".into()), p('+'), rf(false, 0, false, 0)], 1, 1),
        // the pinned unit test of the repository
        (vec![rf(false, 0, false, 0)], 1, 0),
        (vec![Tok::Ident("XFE123".into()), p(' '), Tok::Str("A3".into()), p(' '), rf(false, 2, false, 106)], 1, 0),
        // boundaries
        (vec![rf(false, 16383, false, 1_048_575)], -1_048_575, -16383),
        (vec![rf(false, 0, false, 0)], 1_048_575, 16383),
        (vec![rf(false, 25, false, 8), p(':'), rf(false, 701, false, 98)], 1, 1),
        (vec![Tok::Str("a".into()), Tok::Str("A1".into()), p('&'), rf(false, 0, false, 0)], 3, 3),
    ]
}

fn corpus_raw() -> Vec<(&'static str, i64, i64)> {
    vec![
        ("XFE1+A1048577+B1", 0, -1),
        ("A1048577", -1, 0),
        ("\"unterminated A1", 1, 1),
        ("'unterminated A1", 1, 1),
        ("A1(", 1, 1),
        ("a1+Ab2", 1, 1),
        ("A01", 1, 0),
        ("A1:XFD1048576", 1, 1),
        ("$A$1$", 1, 1),
        ("A1 is a cell, B1 is another, also C107, but XFE123 is not and \"A3\" in quote wont change.", 1, 0),
    ]
}

/// `n` groups of two cells each (master in column A with `ref="A<r>:B<r>"`, member in column B), group `k` in row
/// `k` with `si = base + k` (or a permutation of these values): what a writer that numbers groups 0, 1, 2, … produces
fn many_groups(n: u32, base: u32, shuffled: bool, rng: &mut Rng) -> Vec<Item> {
    let mut sis: Vec<u32> = (0..n).map(|k| base + k).collect();
    if shuffled {
        rng.shuffle(&mut sis);
    }
    let mut items = Vec::with_capacity(2 * n as usize);
    for k in 0..n {
        let toks = vec![rf(false, 3, false, k), Tok::Punct('+'), Tok::Num((k % 7).to_string())];
        items.push(Item::Master { r: k, c: 0, si: sis[k as usize], rect: (k, 0, k, 1), toks });
        items.push(Item::Child { r: k, c: 1, si: sis[k as usize] });
    }
    items
}

/// the same groups written with every row split in two: all masters first (rows ascending or shuffled), then all
/// members in any order — an earlier group's member then follows, in the stream, the masters of all later groups
fn many_groups_split(n: u32, base: u32, shuffled_masters: bool, rng: &mut Rng) -> Vec<Item> {
    let items = many_groups(n, base, false, rng);
    let (mut masters, mut members): (Vec<Item>, Vec<Item>) = items.into_iter().partition(|i| matches!(i, Item::Master { .. }));
    if shuffled_masters {
        rng.shuffle(&mut masters);
    }
    rng.shuffle(&mut members);
    masters.extend(members);
    masters
}

/// a stream order for a row-major description in which every member still follows its master: the masters first
/// (any order), then the other cells (any order, or row-major: every row then comes in two fragments)
fn stream_shuffle(items: Vec<Item>, rng: &mut Rng) -> Vec<Item> {
    let (mut masters, mut others): (Vec<Item>, Vec<Item>) = items.into_iter().partition(|i| matches!(i, Item::Master { .. }));
    if rng.chance(2, 3) {
        rng.shuffle(&mut masters);
    }
    if rng.chance(1, 2) {
        rng.shuffle(&mut others);
    }
    masters.extend(others);
    masters
}

/// one si declared twice: the members after the second declaration belong to it (its text, range and position),
/// also when a member of the first declaration was the last member read before them
fn gen_redeclared(rng: &mut Rng) -> Vec<Item> {
    let r0 = rng.below(20) as u32;
    let c0 = rng.below(10) as u32;
    let si = *rng.pick(&[0u32, 1, 5, 1024]);
    let (h1, w1) = (rng.range(1, 4) as u32, rng.range(1, 3) as u32);
    let (h2, w2) = (rng.range(1, 4) as u32, rng.range(1, 3) as u32);
    let rect1 = (r0, c0, r0 + h1 - 1, c0 + w1 - 1);
    let r2 = r0 + h1 + rng.below(2) as u32;
    let c2 = c0 + rng.below(2) as u32;
    // the second declared range may reach back over the first one
    let rect2 = (if rng.chance(1, 3) { r0 } else { r2 }, c0.min(c2), r2 + h2 - 1, c2 + w2 - 1);
    let mut items = vec![];
    let room = |rect: (u32, u32, u32, u32), m: (u32, u32)| Room { dr_min: rect.0 as i64 - m.0 as i64, dr_max: rect.2 as i64 - m.0 as i64, dc_min: rect.1 as i64 - m.1 as i64, dc_max: rect.3 as i64 - m.1 as i64 };
    items.push(Item::Master { r: r0, c: c0, si, rect: rect1, toks: gen_formula(rng, room(rect1, (r0, c0))) });
    for r in rect1.0..=rect1.2 {
        for c in rect1.1..=rect1.3 {
            if (r, c) != (r0, c0) && rng.chance(4, 5) {
                items.push(Item::Child { r, c, si });
            }
        }
    }
    items.push(Item::Master { r: r2, c: c2, si, rect: rect2, toks: gen_formula(rng, room(rect2, (r2, c2))) });
    for r in r2..=rect2.2 {
        for c in rect2.1..=rect2.3 {
            if (r, c) > (r2, c2) && rng.chance(4, 5) {
                items.push(Item::Child { r, c, si });
            }
        }
    }
    let mut seen = std::collections::BTreeSet::new();
    items.retain(|i| seen.insert(i.pos()));
    items.sort_by_key(|i| i.pos());
    items
}

/// a master close to the formula length limit (8192 characters): one long string literal `&` a relative reference.
/// `ch` is the filling character (1, 2, 3 or 4 UTF-8 bytes), `chars` the length of the whole formula in characters.
fn long_master(ch: char, chars: usize) -> Vec<Tok> {
    let tail = vec![Tok::Punct('&'), rf(false, 0, false, 0)];
    let fill = chars - 2 - render(&tail).chars().count();
    let mut t = vec![Tok::Str(std::iter::repeat(ch).take(fill).collect())];
    t.extend(tail);
    t
}

fn long_group(ch: char, chars: usize, r0: u32) -> Vec<Item> {
    vec![
        Item::Master { r: r0, c: 1, si: 0, rect: (r0, 1, r0 + 1, 2), toks: long_master(ch, chars) },
        Item::Child { r: r0, c: 2, si: 0 },
        Item::Child { r: r0 + 1, c: 1, si: 0 },
        Item::Child { r: r0 + 1, c: 2, si: 0 },
    ]
}

fn corpus_files() -> Vec<(Lay, Vec<Item>)> {
    let a1p1 = || vec![rf(false, 0, false, 0), Tok::Punct('+'), Tok::Num("1".into())];
    vec![
        // D11: 2-D block B1:C2, master B1 — C1 and C2 had no formula
        (Lay::plain(), vec![
            Item::Master { r: 0, c: 1, si: 0, rect: (0, 1, 1, 2), toks: a1p1() },
            Item::Child { r: 0, c: 2, si: 0 },
            Item::Child { r: 1, c: 1, si: 0 },
            Item::Child { r: 1, c: 2, si: 0 },
        ]),
        // D12: the master with si=1 appears before the master with si=0
        (Lay::plain(), vec![
            Item::Master { r: 0, c: 1, si: 1, rect: (0, 1, 1, 1), toks: a1p1() },
            Item::Child { r: 1, c: 1, si: 1 },
            Item::Master { r: 4, c: 1, si: 0, rect: (4, 1, 5, 1), toks: vec![rf(false, 0, false, 4), Tok::Punct('*'), Tok::Num("2".into())] },
            Item::Child { r: 5, c: 1, si: 0 },
        ]),
        // D13 through a file: mixed references in a column group
        (Lay::plain(), vec![
            Item::Master { r: 0, c: 1, si: 0, rect: (0, 1, 2, 1), toks: vec![rf(true, 0, false, 0), Tok::Punct('+'), rf(false, 0, true, 0)] },
            Item::Child { r: 1, c: 1, si: 0 },
            Item::Child { r: 2, c: 1, si: 0 },
        ]),
        // regression of the D12 repair (reported by ./check C06): a table sized by `si` — a 1 KB sheet with
        // si="4294967295" allocated 200 GB; the group must simply work
        (Lay::plain(), vec![
            Item::Master { r: 0, c: 1, si: u32::MAX, rect: (0, 1, 2, 1), toks: a1p1() },
            Item::Child { r: 1, c: 1, si: u32::MAX },
            Item::Child { r: 2, c: 1, si: u32::MAX },
        ]),
        (Lay::plain(), vec![
            Item::Master { r: 0, c: 1, si: 2_147_483_648, rect: (0, 1, 1, 2), toks: a1p1() },
            Item::Child { r: 0, c: 2, si: 2_147_483_648 },
            Item::Master { r: 1, c: 0, si: 0, rect: (1, 0, 2, 0), toks: vec![rf(false, 3, false, 1)] },
            Item::Child { r: 1, c: 2, si: 2_147_483_648 },
            Item::Child { r: 2, c: 0, si: 0 },
        ]),
        // a follower with a huge si and no master has no formula; the ordinary group next to it works
        (Lay::plain(), vec![
            Item::Master { r: 0, c: 1, si: 0, rect: (0, 1, 1, 1), toks: a1p1() },
            Item::Child { r: 1, c: 1, si: 0 },
            Item::Child { r: 3, c: 1, si: u32::MAX },
        ]),
        // row group, master not at the left end of the declared range, non-members around
        (Lay::plain(), vec![
            Item::Value { r: 2, c: 1 },
            Item::Master { r: 2, c: 2, si: 3, rect: (2, 1, 2, 4), toks: vec![Tok::Ident("SUM".into()), Tok::Punct('('), rf(false, 2, false, 0), Tok::Punct(':'), rf(false, 2, true, 1), Tok::Punct(')')] },
            Item::Child { r: 2, c: 3, si: 3 },
            Item::Child { r: 2, c: 4, si: 3 },
            Item::Plain { r: 3, c: 2, toks: a1p1() },
        ]),
        // seeded change C15-m8: `worksheet_formula` must not depend on the header-row option
        (Lay { seed: 0, header: Some(2), stream: false, ..Lay::plain() }, vec![
            Item::Plain { r: 0, c: 0, toks: a1p1() },
            Item::Master { r: 0, c: 1, si: 0, rect: (0, 1, 3, 1), toks: a1p1() },
            Item::Child { r: 1, c: 1, si: 0 },
            Item::Child { r: 2, c: 1, si: 0 },
            Item::Child { r: 3, c: 1, si: 0 },
        ]),
        (Lay { seed: 0, header: Some(u32::MAX), stream: false, ..Lay::plain() }, vec![
            Item::Master { r: 4, c: 1, si: 0, rect: (4, 1, 5, 2), toks: a1p1() },
            Item::Child { r: 5, c: 2, si: 0 },
        ]),
        // seeded change C15-m6: group indices at container thresholds (a table that keeps small si apart)
        (Lay::plain(), [255u32, 256, 1023, 1024, 1025, 4095, 4096, 65_535, 65_536].iter().enumerate().flat_map(|(k, si)| {
            let r = 2 * k as u32;
            vec![
                Item::Master { r, c: 0, si: *si, rect: (r, 0, r + 1, 1), toks: vec![rf(false, 3, false, r), Tok::Punct('*'), Tok::Num("2".into())] },
                Item::Child { r, c: 1, si: *si },
                Item::Child { r: r + 1, c: 0, si: *si },
                Item::Child { r: r + 1, c: 1, si: *si },
            ]
        }).collect()),
        // seeded change C15-m5 through a file: a column name ending in an escaped apostrophe, references after it
        (Lay::plain(), vec![
            Item::Master { r: 1, c: 2, si: 0, rect: (1, 2, 3, 2), toks: vec![
                Tok::Ident("Table1".into()), Tok::Struct("[#This Row],[Bob'']".into()), Tok::Punct('*'), rf(false, 0, false, 1), Tok::Punct('+'), rf(false, 1, false, 1)] },
            Item::Child { r: 2, c: 2, si: 0 },
            Item::Child { r: 3, c: 2, si: 0 },
        ]),
        // seeded change C15-m9: an si declared twice; the last member read before the second group was one of the first
        (Lay::plain(), vec![
            Item::Master { r: 0, c: 1, si: 0, rect: (0, 1, 1, 1), toks: a1p1() },
            Item::Child { r: 1, c: 1, si: 0 },
            Item::Master { r: 3, c: 1, si: 0, rect: (3, 1, 4, 2), toks: vec![rf(false, 3, false, 3), Tok::Punct('*'), Tok::Num("2".into())] },
            Item::Child { r: 3, c: 2, si: 0 },
            Item::Child { r: 4, c: 1, si: 0 },
            Item::Child { r: 4, c: 2, si: 0 },
        ]),
        // … and with the second declared range reaching back over the first one
        (Lay::plain(), vec![
            Item::Master { r: 0, c: 0, si: 2, rect: (0, 0, 2, 0), toks: a1p1() },
            Item::Child { r: 1, c: 0, si: 2 },
            Item::Master { r: 1, c: 1, si: 2, rect: (0, 0, 2, 1), toks: vec![rf(false, 5, false, 1)] },
            Item::Child { r: 2, c: 0, si: 2 },
            Item::Child { r: 2, c: 1, si: 2 },
        ]),
        // seeded change C15-m11: masters close to the 8192-CHARACTER limit whose UTF-8 text is longer than 8192 bytes
        (Lay::plain(), long_group('日', 2733, 0)),
        (Lay::plain(), long_group('日', 3000, 2)),
        (Lay::plain(), long_group('😀', 2050, 0)),
        (Lay::plain(), long_group('é', 4100, 1)),
        (Lay::plain(), long_group('日', 8192, 0)),
        (Lay::plain(), long_group('a', 8191, 0)),
        (Lay::plain(), long_group('a', 8192, 0)),
        // seeded change C15-m10: a row written as two `<row>` elements; stream order: masters, then members
        (Lay { seed: 0, header: None, stream: true, ..Lay::plain() }, vec![
            Item::Master { r: 0, c: 0, si: 0, rect: (0, 0, 0, 1), toks: a1p1() },
            Item::Master { r: 1, c: 0, si: 1, rect: (1, 0, 1, 1), toks: a1p1() },
            Item::Child { r: 1, c: 1, si: 1 },
            Item::Child { r: 0, c: 1, si: 0 },
        ]),
        // seeded change C15-m14: one index spelled `1` on the master and `01` / `001` on the members
        (Lay { zeros: true, ..Lay::plain() }, vec![
            Item::Master { r: 0, c: 1, si: 1, rect: (0, 1, 2, 2), toks: a1p1() },
            Item::Child { r: 0, c: 2, si: 1 },
            Item::Child { r: 1, c: 1, si: 1 },
            Item::Child { r: 1, c: 2, si: 1 },
            Item::Child { r: 2, c: 1, si: 1 },
            Item::Child { r: 2, c: 2, si: 1 },
        ]),
        // seeded change C15-m16: the group's range is also a merged region, read after load_merged_regions()
        (Lay { merge: true, pre: 1, ..Lay::plain() }, vec![
            Item::Master { r: 0, c: 1, si: 0, rect: (0, 1, 1, 2), toks: a1p1() },
            Item::Child { r: 0, c: 2, si: 0 },
            Item::Child { r: 1, c: 1, si: 0 },
            Item::Child { r: 1, c: 2, si: 0 },
        ]),
        (Lay { merge: true, pre: 3, header: Some(1), ..Lay::plain() }, vec![
            Item::Master { r: 2, c: 0, si: 4, rect: (2, 0, 4, 0), toks: a1p1() },
            Item::Child { r: 3, c: 0, si: 4 },
            Item::Child { r: 4, c: 0, si: 4 },
        ]),
        // seeded change C15-m15 through a file: a name in decomposed form (e + U+0301) followed by cell-like text
        (Lay::plain(), vec![
            Item::Master { r: 0, c: 3, si: 0, rect: (0, 3, 2, 3), toks: vec![Tok::Ident("cafe\u{301}Q1".into()), Tok::Punct('*'), rf(false, 0, false, 0)] },
            Item::Child { r: 1, c: 3, si: 0 },
            Item::Child { r: 2, c: 3, si: 0 },
        ]),
        // seeded change C15-m17: an array formula / a data table (a `ref` without t="shared") stored between the master of
        // group 0 and its members must not touch the group
        (Lay::plain(), vec![
            Item::Master { r: 0, c: 1, si: 0, rect: (0, 1, 3, 1), toks: a1p1() },
            Item::Child { r: 1, c: 1, si: 0 },
            Item::Array { r: 1, c: 3, kind: 0, rect: (1, 3, 2, 4), toks: vec![Tok::Ident("TRANSPOSE".into()), Tok::Punct('('), rf(false, 5, false, 0), Tok::Punct(':'), rf(false, 6, false, 1), Tok::Punct(')')] },
            Item::Child { r: 2, c: 1, si: 0 },
            Item::Array { r: 2, c: 5, kind: 2, rect: (2, 5, 3, 6), toks: vec![] },
            Item::Child { r: 3, c: 1, si: 0 },
        ]),
        (Lay::plain(), vec![
            Item::Master { r: 0, c: 0, si: 1, rect: (0, 0, 0, 2), toks: a1p1() },
            Item::Array { r: 0, c: 1, kind: 1, rect: (0, 1, 0, 1), toks: a1p1() },
            Item::Child { r: 0, c: 2, si: 1 },
            Item::Master { r: 1, c: 0, si: 0, rect: (1, 0, 2, 1), toks: a1p1() },
            Item::Array { r: 1, c: 4, kind: 3, rect: (1, 4, 2, 5), toks: a1p1() },
            Item::Child { r: 1, c: 1, si: 0 },
            Item::Child { r: 2, c: 0, si: 0 },
        ]),
    ]
}

// ------------------------------------------------------------------------------------------------

fn main() {
    if let Ok(desc) = std::env::var("C15_PROBE_FILE") {
        // child mode of `impl_file_child`: read one file with the real reader, print the result
        let q: Vec<&str> = desc.splitn(2, ':').collect();
        let items: Vec<Item> = q[1].split('|').map(Item::parse).collect();
        let lay = Lay::parse(q[0]);
        println!("{}", show_cells(&impl_file(&build_file(&items, lay).0, lay)));
        return;
    }
    let args = Args::parse();
    let mut drv = Driver::spawn(&args.driver);
    let mut rep = Report::new(
        "C15",
        "unit: formulas generated from the reference grammar (relative/mixed/absolute refs at column/row boundaries, areas, \
         sheet prefixes AB1! and 'My Sheet1'!, function names with digits such as LOG10( ATAN2(, structured references Table1[Q1] Tbl1[[#This Row],[A1]] and workbook \
         indices [1]Sheet1!A1 (bracketed spans are opaque, ' escapes inside), defined names with digits that \
         are not cells, numbers, string literals with cell-like / non-ASCII text, doubled quotes as adjacent literals; <= 220 chars) \
         x offsets (0, +-1, small, large, extreme but in-sheet): calamine replace_cell_names (hook) vs Lean model vs oracle \
         render(shift(tokens)) computed here; the oracle is demanded only when the Lean predicate WF holds (references and their \
         images inside the sheet, cell-like identifiers only before ( ! or [, no ' inside quoted sheet names, balanced bracket spans, \
         no R1C1 / whole-row / whole-column / 3-D sheet ranges); mutated and raw texts are compared impl vs model only. \
         file: xlsx sheets with 1-5 shared groups (column, row, block, single cell) on disjoint ranges anywhere in the sheet, \
         members = any subset of the declared range, master = first member in document order (ECMA-376 18.3.1.40: the master is the \
         first formula of the group; a member written before its master is outside the generator), si values shuffled with gaps and \
         occasionally huge (up to 2^32-1; such files are read in a child process with a 15 s limit) or at/around powers of two \
         (15..65536 +-1), plus sheets with 1030-2100 two-cell groups numbered in sequence or shuffled; sheets whose rows come in two fragments or out of \
         order (every member still after its master in the stream), an si declared twice (the last declaration before a member counts), \
         masters up to 8192 characters with 1- to 4-byte characters; one index written in different legal forms inside a group (leading zeros), array and data-table \
         formulas (a ref without t=shared, with and without si) stored between a master and its members, \
         declared ranges also written as merged regions; half of the files are read after load_merged_regions() / load_tables() and half after \
         with_header_row(Row(n)) (n above / inside / below the data: worksheet_formula must not depend on it), \
         cells of the range that are not members and cells outside carry values / own formulas / nothing; read with Xlsx::new + \
         worksheet_formula; the Lean model reads the XML events of the written worksheet part (xlsxw ev_wire) and is cross-checked \
         against the abstract cell-list model; oracle = translated master per member, own text elsewhere. non-trivial = unit case with >= 1 reference \
         and a non-zero offset, or file with >= 1 member cell; distinct by input text",
    );
    rep.notes.push("C15: formula texts are UTF-8; quick-xml entity handling, zip and the xlsx writer (harness/src/xlsxw.rs) are exercised, not modelled".into());

    if let Some(inp) = &args.replay {
        replay_one(inp, &mut drv, &mut rep);
        rep.add("driver_requests", drv.requests);
        rep.write(&args.out);
        return;
    }

    let mut rng = Rng::new(args.seed);
    let mut shrunk = 0u32;

    // ---------------- unit ----------------
    let mut unit_cases: Vec<(Vec<Tok>, i64, i64, &str)> = corpus_unit().into_iter().map(|(t, a, b)| (t, a, b, "corpus")).collect();
    let n_unit = args.count(20_000, 2_000_000);
    for _ in 0..n_unit {
        let (dr, dc) = gen_offset(&mut rng);
        let room = Room { dr_min: dr.min(0), dr_max: dr.max(0), dc_min: dc.min(0), dc_max: dc.max(0) };
        let mut toks = gen_formula(&mut rng, room);
        let mut class = "grammar";
        if rng.chance(1, 8) {
            mutate(&mut rng, &mut toks);
            class = "mutated";
        }
        unit_cases.push((toks, dr, dc, class));
        if unit_cases.len() >= 4096 {
            for (t, a, b, c) in unit_cases.drain(..) {
                unit_case(&t, a, b, c, &mut drv, &mut rep, &mut shrunk);
            }
        }
    }
    for (t, a, b, c) in unit_cases.drain(..) {
        unit_case(&t, a, b, c, &mut drv, &mut rep, &mut shrunk);
    }
    // raw texts: impl vs model only
    let mut raws: Vec<(String, i64, i64)> = corpus_raw().into_iter().map(|(s, a, b)| (s.to_string(), a, b)).collect();
    for _ in 0..n_unit / 10 {
        let n = rng.range(1, 12);
        let s: String = (0..n).map(|_| *rng.pick(RAW_PIECES)).collect();
        let (dr, dc) = gen_offset(&mut rng);
        raws.push((s, dr, dc));
    }
    for (s, dr, dc) in raws {
        raw_case(&s, dr, dc, &mut drv, &mut rep);
    }

    // ---------------- offset map of a group (model vs the statement) ----------------
    for _ in 0..200 {
        let (sr, sc) = (rng.below(50) as u32, rng.below(50) as u32);
        let (er, ec) = (sr + rng.below(5) as u32, sc + rng.below(5) as u32);
        let (mr, mc) = (rng.range(sr as u64, er as u64) as u32, rng.range(sc as u64, ec as u64) as u32);
        let reply = drv.ask(&format!("group {mr} {mc} {sr} {sc} {er} {ec}"));
        let mut want = vec![];
        for r in sr.saturating_sub(1)..=er + 1 {
            for c in sc.saturating_sub(1)..=ec + 1 {
                if sr <= r && r <= er && sc <= c && c <= ec {
                    want.push(format!("{r},{c},{},{}", r as i64 - mr as i64, c as i64 - mc as i64));
                } else {
                    want.push(format!("{r},{c},-"));
                }
            }
        }
        let input = format!("g:{mr},{mc},{sr},{sc},{er},{ec}");
        rep.case(&input, false);
        rep.count("group_offset_maps");
        if reply != want.join(";") {
            rep.fail("model_vs_spec", "group:offset_map", &input, "", &reply, &want.join(";"));
        }
    }

    // ---------------- files ----------------
    for (lay, items) in corpus_files() {
        file_case(&items, lay, "corpus", &mut drv, &mut rep, &mut shrunk);
    }
    // sheets with MANY groups (container thresholds of a reader's group table): numbered in sequence, shuffled,
    // and starting just below a threshold
    let n_many = if args.n.is_some() { 1 } else if args.thorough() { 40 } else { 3 };
    for k in 0..n_many {
        let mut sub = rng.fork();
        let n = *sub.pick(&[1100u32, 1030, 1300, 2100]);
        let base = if k == 0 { 0 } else { *sub.pick(&[0u32, 0, 200, 900, 3000, 64_500]) };
        let items = many_groups(n, base, k % 2 == 1, &mut sub);
        file_case(&items, Lay::plain(), "many_groups", &mut drv, &mut rep, &mut shrunk);
        // the same kind of sheet with every row in two fragments / rows out of order (members follow later masters)
        let n2 = *sub.pick(&[130u32, 200, 300, 1100]);
        let items = many_groups_split(n2, base, k % 2 == 1, &mut sub);
        file_case(&items, Lay { seed: 0, header: None, stream: true, ..Lay::plain() }, "many_groups_out_of_order", &mut drv, &mut rep, &mut shrunk);
    }
    let n_file = args.count(2_000, 200_000) / if args.n.is_some() { 10 } else { 1 };
    for _ in 0..n_file {
        let mut sub = rng.fork();
        let odd = sub.chance(1, 10);
        let mut items = if odd { gen_odd_file(&mut sub) } else { gen_file(&mut sub) };
        let mut class = if odd { "odd" } else { "groups" };
        let mut stream = false;
        if !odd {
            match sub.below(60) {
                0..=3 => {
                    items = gen_redeclared(&mut sub);
                    class = "si_declared_twice";
                }
                4 => {
                    // a master near the 8192-character limit (1- to 4-byte characters)
                    let (ch, chars) = *sub.pick(&[('a', 8192usize), ('a', 8190), ('é', 4097), ('é', 8192), ('日', 2731), ('日', 2735), ('日', 5000), ('日', 8192), ('😀', 2049), ('😀', 8192)]);
                    let chars = chars - sub.below(3) as usize;
                    if let Some(Item::Master { toks, .. }) = items.iter_mut().find(|i| matches!(i, Item::Master { .. })) {
                        *toks = long_master(ch, chars);
                        class = "long_master";
                    }
                }
                5..=12 => {
                    items = stream_shuffle(items, &mut sub);
                    stream = true;
                    class = "rows_out_of_order";
                }
                _ => {}
            }
        }
        let layout_seed = if sub.chance(1, 3) { 0 } else { sub.next() | 1 };
        // reader history: an explicit header row set before `worksheet_formula` (above, inside, below the data)
        let header = if sub.chance(1, 2) || items.is_empty() {
            None
        } else {
            let r0 = items.iter().map(|i| i.pos().0).min().unwrap();
            let r1 = items.iter().map(|i| i.pos().0).max().unwrap();
            Some(match sub.below(6) {
                0 => 0,
                1 => r0,
                2 => r0 + 1,
                3 => r0 + sub.below((r1 - r0) as u64 + 1) as u32,
                4 => r1.saturating_add(1),
                _ => *sub.pick(&[1u32, 5, 1_048_575, u32::MAX]),
            })
        };
        // legal spellings of one index inside a group (leading zeros), merged regions over the groups, and the
        // reader calls made before `worksheet_formula`
        let zeros = sub.chance(1, 6);
        let merge = sub.chance(1, 4);
        let pre = if sub.chance(1, 2) { 0 } else { sub.range(1, 3) as u8 };
        let layout_seed = if stream || zeros { 0 } else { layout_seed };
        file_case(&items, Lay { seed: layout_seed, header, stream, zeros, merge, pre }, class, &mut drv, &mut rep, &mut shrunk);
    }
    rep.add("driver_requests", drv.requests);
    rep.write(&args.out);
}

fn unit_case(toks: &[Tok], dr: i64, dc: i64, class: &str, drv: &mut Driver, rep: &mut Report, shrunk: &mut u32) {
    let out = run_unit(toks, dr, dc, drv);
    let input = format!("u:{}:{}:{}", wire(toks), dr, dc);
    let nrefs = toks.iter().filter(|t| matches!(t, Tok::Ref { .. })).count();
    rep.case(&input, nrefs > 0 && (dr, dc) != (0, 0) && out.wf);
    rep.count(&format!("unit.{class}"));
    rep.count(if out.wf { "unit.wf" } else { "unit.not_wf" });
    rep.add("unit.chars", out.text.chars().count() as u64);
    rep.add("unit.refs", nrefs as u64);
    for t in toks {
        match t {
            Tok::Ref { ca, ra, .. } => rep.count(match (ca, ra) {
                (false, false) => "tok.ref_rel",
                (true, true) => "tok.ref_abs",
                _ => "tok.ref_mixed",
            }),
            Tok::Str(_) => rep.count("tok.str"),
            Tok::Sheet(_, true) => rep.count("tok.sheet_quoted"),
            Tok::Sheet(_, false) => rep.count("tok.sheet_plain"),
            Tok::Ident(_) => rep.count("tok.ident"),
            Tok::Num(_) => rep.count("tok.num"),
            Tok::Struct(_) => rep.count("tok.struct"),
            Tok::Punct(_) => {}
        }
    }
    if !out.text.is_ascii() {
        rep.count("unit.non_ascii");
    }
    if dr < 0 || dc < 0 {
        rep.count("unit.negative_offset");
    }
    if out.imp != "unavailable" && out.imp != format!("ok {}", hex(out.text.as_bytes())) {
        rep.count("unit.text_changed");
    }
    for (kind, sig) in &out.fails {
        let (t2, o2) = if *shrunk < 40 {
            *shrunk += 1;
            let t2 = shrink_unit(toks.to_vec(), dr, dc, kind, drv);
            let o2 = run_unit(&t2, dr, dc, drv);
            (t2, o2)
        } else {
            (toks.to_vec(), run_unit(toks, dr, dc, drv))
        };
        let sig2 = o2.fails.iter().find(|f| &f.0 == kind).map(|f| f.1.clone()).unwrap_or(sig.clone());
        rep.fail(kind, &sig2, &format!("u:{}:{}:{}", wire(&t2), dr, dc), &o2.imp, &o2.model, &o2.expect);
    }
}

fn raw_case(s: &str, dr: i64, dc: i64, drv: &mut Driver, rep: &mut Report) {
    let (imp, model) = run_raw(s, dr, dc, drv);
    let input = format!("r:{}:{}:{}", hex(s.as_bytes()), dr, dc);
    rep.case(&input, false);
    rep.count("unit.raw");
    if imp != "unavailable" && imp != model {
        rep.fail("impl_vs_model", "replace:impl_model_differ_raw", &input, &imp, &model, "");
    }
}

fn file_case(items: &[Item], lay: Lay, class: &str, drv: &mut Driver, rep: &mut Report, shrunk: &mut u32) {
    // never build a sheet whose bounding box exceeds 2^21 cells (dense `Range` allocation, ledger D37)
    let (mut r0, mut c0, mut r1, mut c1) = (u32::MAX, u32::MAX, 0u32, 0u32);
    for it in items {
        let (r, c) = it.pos();
        r0 = r0.min(r);
        c0 = c0.min(c);
        r1 = r1.max(r);
        c1 = c1.max(c);
    }
    if !items.is_empty() && (r1 - r0 + 1) as u64 * (c1 - c0 + 1) as u64 > (1 << 21) {
        rep.count("file.skipped_bbox_too_large");
        return;
    }
    let out = run_file(items, lay, drv);
    let input = format!("F:{}:{}", lay.wire(), items_wire(items));
    let members = items.iter().filter(|i| matches!(i, Item::Child { .. })).count();
    rep.case(&input, members > 0 && !out.expect.is_empty());
    rep.count(&format!("file.{class}"));
    rep.count(if out.expect.is_empty() { "file.no_oracle" } else { "file.with_oracle" });
    rep.count(if out.from_events { "file.model_on_xml_events" } else { "file.model_on_cell_list" });
    rep.add("file.members", members as u64);
    for it in items {
        if let Item::Array { kind, .. } = it {
            rep.count(if *kind < 2 { "file.array_formula" } else { "file.data_table_formula" });
        }
        if let Item::Master { r, c, rect, .. } = it {
            rep.count(match (rect.0 != rect.2, rect.1 != rect.3) {
                (true, true) => "group.block",
                (true, false) => "group.column",
                (false, true) => "group.row",
                _ => "group.single",
            });
            if (*r, *c) != (rect.0, rect.1) {
                rep.count("group.master_not_top_left");
            }
        }
    }
    if has_huge_si(items) {
        rep.count("file.huge_si_in_child_process");
    }
    if out.imp.starts_with("err") || out.imp.starts_with("panic") {
        rep.count(&format!("file.impl_{}", &out.imp[..3]));
    }
    for (kind, sig) in &out.fails {
        let small = if *shrunk < 40 {
            *shrunk += 1;
            shrink_file(items.to_vec(), lay, kind, sig, drv)
        } else {
            items.to_vec()
        };
        let o2 = run_file(&small, lay, drv);
        rep.fail(kind, sig, &format!("F:{}:{}", lay.wire(), items_wire(&small)), &o2.imp, &o2.model, &o2.expect);
    }
}

fn replay_one(inp: &str, drv: &mut Driver, rep: &mut Report) {
    let mut shrunk = 1000; // no shrinking on replay
    let p: Vec<&str> = inp.splitn(2, ':').collect();
    match p[0] {
        "u" => {
            let q: Vec<&str> = p[1].rsplitn(3, ':').collect();
            unit_case(&parse_toks(q[2]), q[1].parse().unwrap(), q[0].parse().unwrap(), "replay", drv, rep, &mut shrunk);
        }
        "r" => {
            let q: Vec<&str> = p[1].rsplitn(3, ':').collect();
            raw_case(&String::from_utf8(unhex(q[2])).unwrap(), q[1].parse().unwrap(), q[0].parse().unwrap(), drv, rep);
        }
        "F" => {
            let q: Vec<&str> = p[1].splitn(2, ':').collect();
            let items: Vec<Item> = q[1].split('|').map(Item::parse).collect();
            file_case(&items, Lay::parse(q[0]), "replay", drv, rep, &mut shrunk);
        }
        x => panic!("bad replay input kind {x}"),
    }
}
