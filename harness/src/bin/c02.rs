//! C02 — XLS (BIFF8): every cell record reads back at its position with its value.
//!
//! Four kinds of case, each run three ways (impl = the real calamine, model = the Lean definitions behind
//! Props/C02 through `drv_c02`, oracle = the property written independently here):
//!   K  RK words: `rk_num` through the hook vs `rkNum` vs the MS-XLS 2.5.217 reading; checksummed blocks
//!      (quick: every high half × 8 low halves + 1 M random words; thorough: all 2^32 words)
//!   R  one record payload through the per-record parser hooks vs `step`
//!   F  a logical workbook (1–3 sheets, cells + layout) encoded by the *Lean* encoder (`enc`), wrapped into a
//!      BIFF8 workbook and a compound file, read through `Xls::new` + `worksheet_range`; model = `dec` on the
//!      same substream; oracle = bounding box + values of the logical sheet
//!   M  a worksheet substream built by the Rust record encoder with physical oddities or one structural fault
//!      (impl vs model; the property says nothing about malformed input, panics there are C06 findings)
#[cfg(feature = "hooks")]
use calamine::verif_hooks::formats::CellFormat;
#[cfg(feature = "hooks")]
use calamine::verif_hooks::xls as hk;
use calamine::{Data, Range, Reader, Xls, XlsError};
use std::io::Cursor;
use verif_harness::xlsw::{self, Cached, CellV, XlsBook, XlsCell, XlsSheet};
use verif_harness::{driver::Driver, guarded, hex, report::Report, rng::Rng, unhex, Args};

// ---------------------------------------------------------------- canonical forms

fn scalars(s: &str) -> String {
    s.chars().map(|c| format!("{:x}", c as u32)).collect::<Vec<_>>().join(".")
}

fn canon_data(d: &Data) -> String {
    match d {
        Data::Empty => "_".into(),
        Data::Int(i) => format!("I{i}"),
        Data::Float(f) => format!("F{:016x}", f.to_bits()),
        Data::String(s) => format!("S{}", scalars(s)),
        Data::Bool(b) => format!("B{}", *b as u8),
        Data::Error(e) => format!("E{e:?}"),
        Data::DateTime(dt) => format!(
            "D{:016x}/{}/{}",
            dt.as_f64().to_bits(),
            if dt.is_duration() { "t" } else { "d" },
            format!("{dt:?}").contains("is_1904: true") as u8
        ),
        other => format!("?{other:?}"),
    }
}

fn canon_cells(cells: &[(u32, u32, String)]) -> String {
    cells.iter().map(|(r, c, v)| format!("{r}:{c}:{v}")).collect::<Vec<_>>().join(",")
}

fn canon_range(r: &Range<Data>) -> String {
    match (r.start(), r.end()) {
        (Some(s), Some(e)) => {
            let used: Vec<(u32, u32, String)> =
                r.used_cells().map(|(i, j, v)| (s.0 + i as u32, s.1 + j as u32, canon_data(v))).collect();
            format!("{},{},{},{} {}", s.0, s.1, e.0, e.1, canon_cells(&used))
        }
        _ => "-".into(),
    }
}

fn err_class(e: &XlsError) -> String {
    match e {
        XlsError::Len { typ, .. } => format!("err:Len:{typ}"),
        XlsError::Unrecognized { typ, .. } => format!("err:Unrecognized:{typ}"),
        XlsError::EoStream(s) => format!("err:EoStream:{s}"),
        other => {
            let d = format!("{other:?}");
            format!("err:{}", d.split(|c: char| !c.is_alphanumeric()).next().unwrap_or(""))
        }
    }
}

/// "panic…" replies compare equal whatever the site / message
fn same(a: &str, b: &str) -> bool {
    a == b || (a.starts_with("panic") && b.starts_with("panic"))
}

// ---------------------------------------------------------------- RK words

#[derive(Clone, Copy, PartialEq, Debug)]
enum Num {
    I(i64),
    F(u64),
}

impl Num {
    fn show(&self) -> String {
        match self {
            Num::I(v) => format!("I{v}"),
            Num::F(b) => format!("F{b:016x}"),
        }
    }
    fn fnv(&self, mut h: u64) -> u64 {
        let (tag, v) = match self {
            Num::I(v) => (0u8, *v as u64),
            Num::F(b) => (1u8, *b),
        };
        h = (h ^ tag as u64).wrapping_mul(0x100000001b3);
        for b in v.to_le_bytes() {
            h = (h ^ b as u64).wrapping_mul(0x100000001b3);
        }
        h
    }
}

const FNV0: u64 = 0xcbf29ce484222325;

#[cfg(feature = "hooks")]
fn rk_impl(w: u32) -> Num {
    match hk::c02_rk_word(w) {
        Data::Int(v) => Num::I(v),
        Data::Float(f) => Num::F(f.to_bits()),
        other => panic!("rk_num returned {other:?}"),
    }
}

/// [MS-XLS] 2.5.217 RkNumber, read from the specification: bit 0 fX100, bit 1 fInt, bits 2..31 num
fn rk_oracle(w: u32) -> Num {
    let x100 = w & 1 == 1;
    let num = w >> 2;
    if w & 2 == 2 {
        let v: i64 = if num < (1 << 29) { num as i64 } else { num as i64 - (1 << 30) };
        if x100 {
            if v.rem_euclid(100) == 0 {
                Num::I(v.div_euclid(100))
            } else {
                Num::F((v as f64 / 100.0).to_bits())
            }
        } else {
            Num::I(v)
        }
    } else {
        let f = f64::from_bits((num as u64) << 34);
        Num::F(if x100 { f / 100.0 } else { f }.to_bits())
    }
}

#[cfg(feature = "hooks")]
/// one word three ways; records a failure and returns false on any disagreement
fn rk_case(w: u32, drv: &mut Driver, rep: &mut Report) -> bool {
    let i = guarded(|| rk_impl(w)).map(|n| n.show()).unwrap_or_else(|m| format!("panic {m}"));
    let m = drv.ask(&format!("rk {w}"));
    let o = rk_oracle(w).show();
    let input = format!("K {w}");
    let mut ok = true;
    if i != m {
        rep.fail("impl_vs_model", "rk", &input, &i, &m, &o);
        ok = false;
    }
    if i != o {
        rep.fail("impl_vs_spec", "rk", &input, &i, &m, &o);
        ok = false;
    } else if m != o {
        rep.fail("model_vs_spec", "rk", &input, &i, &m, &o);
        ok = false;
    }
    ok
}

#[cfg(feature = "hooks")]
/// block `start + i·stride`, i < count: checksum of impl and oracle here, of the model in the driver
fn rk_block(start: u64, count: u64, stride: u64, drv: &mut Driver) -> (bool, u64) {
    let mut hi = FNV0;
    let mut ho = FNV0;
    let mut w = start;
    let mut ints = 0;
    for _ in 0..count {
        let x = rk_impl(w as u32);
        hi = x.fnv(hi);
        ho = rk_oracle(w as u32).fnv(ho);
        if w & 2 == 2 {
            ints += 1;
        }
        w += stride;
    }
    let hm: u64 = drv.ask(&format!("sweep {start} {count} {stride}")).parse().unwrap_or(0);
    (hi == hm && hi == ho, ints)
}

#[cfg(feature = "hooks")]
fn rk_sweeps(args: &Args, rep: &mut Report, drv: &mut Driver) {
    // boundary words one by one (also the replay format of this family)
    let mut edge: Vec<u32> = vec![0, 1, 2, 3, 4, 5, 6, 7, 0xFFFF_FFFF, 0xFFFF_FFFE, 0xFFFF_FFFD, 0xFFFF_FFFC, 0x7FFF_FFFE, 0x8000_0002, 0x8000_0003];
    for v in [100i32, -100, 150, -150, 12345, -12345, (1 << 29) - 1, -(1 << 29), 99, -99, 200, -200] {
        edge.push(xlsw::rk_int(v, false));
        edge.push(xlsw::rk_int(v, true));
    }
    for x in [1.0f64, -1.0, 0.5, 100.0, 1e300, -0.0, f64::INFINITY, f64::NAN] {
        for x100 in [false, true] {
            if let Some(w) = xlsw::rk_float(x, x100) {
                edge.push(w);
            }
        }
    }
    for w in edge {
        rep.case(&format!("K {w}"), true);
        rep.count("rk.edge_words");
        rk_case(w, drv, rep);
    }
    let mut blocks: Vec<(u64, u64, u64)> = vec![];
    if args.thorough() && args.n.is_none() {
        for b in 0..256u64 {
            blocks.push((b << 24, 1 << 24, 1));
        }
        rep.exhaustive = true;
        rep.notes.push("rk_num compared with rkNum and the MS-XLS reading on all 2^32 RK words (256 checksummed blocks)".into());
    } else {
        for low in [0u64, 1, 2, 3, 0xFFFC, 0xFFFD, 0xFFFE, 0xFFFF] {
            blocks.push((low, 65536, 65536));
        }
    }
    // blocks in parallel, one driver per worker
    let nthreads = std::thread::available_parallelism().map(|n| n.get()).unwrap_or(4).min(blocks.len()).max(1);
    let blocks = std::sync::Arc::new(std::sync::Mutex::new(blocks));
    let path = args.driver.clone();
    let mut handles = vec![];
    for _ in 0..nthreads {
        let blocks = blocks.clone();
        let path = path.clone();
        handles.push(std::thread::spawn(move || {
            let mut drv = Driver::spawn(&path);
            let mut out = vec![];
            loop {
                let b = blocks.lock().unwrap().pop();
                let Some((s, c, st)) = b else { break };
                let (ok, ints) = rk_block(s, c, st, &mut drv);
                out.push((s, c, st, ok, ints));
            }
            out
        }));
    }
    let mut bad_blocks = vec![];
    for h in handles {
        for (s, c, st, ok, ints) in h.join().expect("sweep worker") {
            rep.bulk(c, c, &format!("sweep {s} {c} {st}"));
            rep.add("rk.swept_words", c);
            rep.add("rk.swept_int_words", ints);
            if !ok {
                bad_blocks.push((s, c, st));
            }
        }
    }
    // a disagreeing block is searched word by word for the failing inputs
    for (s, c, st) in bad_blocks {
        let mut found = 0;
        let mut w = s;
        for _ in 0..c {
            if !rk_case(w as u32, drv, rep) {
                found += 1;
                if found >= 3 {
                    break;
                }
            }
            w += st;
        }
        if found == 0 {
            rep.fail("model_vs_spec", "rk-checksum", &format!("sweep {s} {c} {st}"), "", "checksums differ but no word does", "");
        }
    }
    // random words in batches
    let n = if args.thorough() { 4_000_000 } else { 1_000_000 };
    let n = args.n.map(|x| x * 100).unwrap_or(n);
    let mut rng = Rng::new(args.seed ^ 0x52_4B);
    let mut done = 0;
    while done < n {
        let batch: Vec<u32> = (0..2000.min(n - done)).map(|_| rng.next() as u32).collect();
        let mut hi = FNV0;
        let mut ho = FNV0;
        for w in &batch {
            hi = rk_impl(*w).fnv(hi);
            ho = rk_oracle(*w).fnv(ho);
        }
        let line = format!("rks {}", batch.iter().map(|w| w.to_string()).collect::<Vec<_>>().join(" "));
        let hm: u64 = drv.ask(&line).parse().unwrap_or(0);
        if hi != hm || hi != ho {
            let mut found = 0;
            for w in &batch {
                if !rk_case(*w, drv, rep) {
                    found += 1;
                    if found >= 3 {
                        break;
                    }
                }
            }
        }
        done += batch.len() as u64;
        rep.bulk(batch.len() as u64, batch.len() as u64, &format!("rks {} …", batch[0]));
        rep.add("rk.random_words", batch.len() as u64);
    }
}

// ---------------------------------------------------------------- environments (formats, SST)

#[derive(Clone)]
struct EnvD {
    /// one letter per XF: o other, d date-time, t time-delta
    fmts: Vec<char>,
    is1904: bool,
    sst: Vec<String>,
}

impl EnvD {
    fn fmts_wire(&self) -> String {
        if self.fmts.is_empty() {
            "-".into()
        } else {
            self.fmts.iter().collect()
        }
    }
    fn sst_wire(&self) -> String {
        if self.sst.is_empty() {
            "-".into()
        } else {
            self.sst.iter().map(|s| if s.is_empty() { "_".to_string() } else { scalars(s) }).collect::<Vec<_>>().join("/")
        }
    }
    #[cfg(feature = "hooks")]
    fn formats(&self) -> Vec<CellFormat> {
        self.fmts
            .iter()
            .map(|c| match c {
                'd' => CellFormat::DateTime,
                't' => CellFormat::TimeDelta,
                _ => CellFormat::Other,
            })
            .collect()
    }
    fn parse(fmts: &str, f1904: &str, sst: &str) -> EnvD {
        EnvD {
            fmts: if fmts == "-" { vec![] } else { fmts.chars().collect() },
            is1904: f1904 == "1",
            sst: if sst == "-" { vec![] } else { sst.split('/').map(|s| if s == "_" { String::new() } else { unscalars(s) }).collect() },
        }
    }
    /// XF / FORMAT records realising `fmts`: built-in ids or custom format strings
    fn apply(&self, book: &mut XlsBook, rng: &mut Rng) {
        book.date1904 = self.is1904;
        book.sst = self.sst.clone();
        book.xfs.clear();
        let mut next_custom = 164u16;
        for c in &self.fmts {
            let (builtin, text) = match c {
                'd' => (*rng.pick(&[14u16, 15, 20, 22, 45, 47]), "yyyy\\-mm\\-dd"),
                't' => (46, "[h]:mm:ss"),
                _ => (*rng.pick(&[0u16, 1, 2, 4, 9, 49]), "0.00"),
            };
            match rng.below(4) {
                0 => {
                    book.formats.push((next_custom, text.to_string()));
                    book.xfs.push(next_custom);
                    next_custom += 1;
                }
                1 => {
                    // a FORMAT record may redefine a built-in / locale slot (ids below 164): the definition in the file
                    // wins over the built-in table. The slots are ones whose built-in class differs from the new one
                    // and that the plain built-in choice above never uses.
                    let slot = match c {
                        'd' => *rng.pick(&[3u16, 10, 23, 63]),
                        't' => *rng.pick(&[5u16, 18, 37]),
                        _ => *rng.pick(&[16u16, 17, 21]),
                    };
                    book.formats.push((slot, text.to_string()));
                    book.xfs.push(slot);
                }
                _ => book.xfs.push(builtin),
            }
        }
    }
}

fn unscalars(s: &str) -> String {
    if s.is_empty() {
        return String::new();
    }
    s.split('.').map(|h| char::from_u32(u32::from_str_radix(h, 16).unwrap()).unwrap()).collect()
}

fn gen_string(rng: &mut Rng) -> String {
    let n = *rng.pick(&[0usize, 1, 1, 2, 3, 5, 8, 12, 40]);
    let alpha: Vec<char> = match rng.below(10) {
        0..=4 => "abcXYZ 019&<>\"'".chars().collect(),
        5..=7 => "abcé ü£ÿ".chars().collect(),
        _ => "aЖы中文😀é𝄞".chars().collect(),
    };
    (0..n).map(|_| *rng.pick(&alpha)).collect()
}

fn gen_env(rng: &mut Rng) -> EnvD {
    let nf = *rng.pick(&[1usize, 2, 3, 3, 5, 6]);
    let mut fmts = vec!['o'];
    for _ in 1..nf {
        fmts.push(*rng.pick(&['o', 'd', 't']));
    }
    let ns = rng.below(9) as usize;
    EnvD { fmts, is1904: rng.chance(1, 4), sst: (0..ns).map(|_| gen_string(rng)).collect() }
}

// ---------------------------------------------------------------- R: single records

#[cfg(feature = "hooks")]
fn impl_cells(cells: Vec<calamine::Cell<Data>>) -> String {
    let v: Vec<(u32, u32, String)> = cells.iter().map(|c| (c.get_position().0, c.get_position().1, canon_data(c.get_value()))).collect();
    format!("ok {}", canon_cells(&v))
}

#[cfg(feature = "hooks")]
fn rec_impl(env: &EnvD, typ: u16, d: &[u8]) -> String {
    let f = env.formats();
    let r = guarded(|| -> Result<Vec<calamine::Cell<Data>>, XlsError> {
        Ok(match typ {
            0x0203 => vec![hk::c02_parse_number(d, &f, env.is1904)?],
            0x027E => vec![hk::c02_parse_rk(d, &f, env.is1904)?],
            0x00BD => hk::c02_parse_mul_rk(d, &f, env.is1904)?,
            0x0205 => vec![hk::c02_parse_bool_err(d)?],
            0x00FD => hk::c02_parse_label_sst(d, &env.sst)?.into_iter().collect(),
            0x0204 => hk::c02_parse_label(d, 1200)?.into_iter().collect(),
            0x0200 => {
                hk::c02_parse_dimensions(d)?;
                vec![]
            }
            _ => unreachable!(),
        })
    });
    match r {
        Ok(Ok(cells)) => impl_cells(cells),
        Ok(Err(e)) => err_class(&e),
        Err(m) => format!("panic {m}"),
    }
}

#[cfg(feature = "hooks")]
fn gen_record(rng: &mut Rng, env: &EnvD) -> (u16, Vec<u8>, Option<String>) {
    // (typ, payload, oracle when the payload is a well-formed record)
    let row = *rng.pick(&[0u16, 1, 2, 255, 256, 40000, 65534, 65535]);
    let col = *rng.pick(&[0u16, 1, 2, 25, 26, 254, 255, 256, 65535]);
    let xf = rng.below(env.fmts.len() as u64 + 2) as u16;
    let plain = env.fmts.get(xf as usize).map_or(true, |c| *c == 'o');
    let typ = *rng.pick(&[0x0203u16, 0x027E, 0x00BD, 0x0205, 0x00FD, 0x0204, 0x0200]);
    let hdr = xlsw::cell_hdr(row, col, xf);
    let (mut d, mut oracle): (Vec<u8>, Option<String>) = match typ {
        0x0203 => {
            let bits = gen_bits(rng);
            let mut d = hdr;
            d.extend_from_slice(&bits.to_le_bytes());
            (d, plain.then(|| format!("ok {row}:{col}:F{bits:016x}")))
        }
        0x027E => {
            let w = gen_rk_word(rng);
            let mut d = hdr;
            d.extend_from_slice(&w.to_le_bytes());
            (d, plain.then(|| format!("ok {row}:{col}:{}", rk_oracle(w).show())))
        }
        0x00BD => {
            let n = rng.range(1, 5) as u16;
            let col = col.min(65535 - n);
            let mut d = row.to_le_bytes().to_vec();
            d.extend_from_slice(&col.to_le_bytes());
            let mut exp = vec![];
            let n = if rng.chance(1, 3) { n + 3 } else { n };
            let col = col.min(65535 - n);
            d.truncate(2);
            d.extend_from_slice(&col.to_le_bytes());
            let mut words: Vec<u32> = vec![];
            let mut xfs: Vec<u16> = vec![];
            for i in 0..n {
                // a run often repeats a number (same 4 RK bytes) under another XF, and keeps an XF over other numbers
                let w = match rng.below(6) {
                    0 | 1 if i >= 1 => words[i as usize - 1],
                    2 if i >= 2 => words[i as usize - 2],
                    _ => gen_rk_word(rng),
                };
                let exf = match rng.below(5) {
                    0 if i >= 1 => xfs[i as usize - 1],
                    _ => rng.below(env.fmts.len() as u64 + 1) as u16,
                };
                words.push(w);
                xfs.push(exf);
                d.extend_from_slice(&exf.to_le_bytes());
                d.extend_from_slice(&w.to_le_bytes());
                let fmt = env.fmts.get(exf as usize).copied().unwrap_or('o');
                exp.push(format!("{row}:{}:{}", col + i, show_typed(rk_oracle(w), fmt, env.is1904)));
            }
            d.extend_from_slice(&(col + n - 1).to_le_bytes());
            (d, Some(format!("ok {}", exp.join(","))))
        }
        0x0205 => {
            let mut d = hdr;
            if rng.chance(1, 2) {
                let b = rng.below(3) as u8;
                d.extend_from_slice(&[b, 0]);
                (d, Some(format!("ok {row}:{col}:B{}", (b != 0) as u8)))
            } else {
                let (code, name) = *rng.pick(&xlsw::ERR_CODES);
                d.extend_from_slice(&[code, 1]);
                (d, Some(format!("ok {row}:{col}:E{name}")))
            }
        }
        0x00FD => {
            let i = rng.below(env.sst.len() as u64 + 2) as u32;
            let mut d = hdr;
            d.extend_from_slice(&i.to_le_bytes());
            let o = match env.sst.get(i as usize) {
                Some(s) if !s.is_empty() => Some(format!("ok {row}:{col}:S{}", scalars(s))),
                Some(_) => Some(format!("ok {row}:{col}:S")), // the empty shared string reads String(""), like an empty LABEL
                None => None,
            };
            (d, o)
        }
        0x0204 => {
            let s = gen_string(rng);
            let mut d = hdr;
            d.extend(xlsw::xl_unicode_string(&s, None, rng));
            (d, Some(format!("ok {row}:{col}:S{}", scalars(&s))))
        }
        _ => {
            let (r0, r1, c0, c1) = (rng.below(100) as u32, rng.below(200) as u32, rng.below(20) as u16, rng.below(40) as u16);
            let d = if rng.chance(1, 2) {
                xlsw::dimensions_payload(r0, r1, c0, c1)
            } else {
                let mut d = (r0 as u16).to_le_bytes().to_vec();
                d.extend_from_slice(&(r1 as u16).to_le_bytes());
                d.extend_from_slice(&c0.to_le_bytes());
                d.extend_from_slice(&c1.to_le_bytes());
                d.extend_from_slice(&[0, 0]);
                d
            };
            (d, Some("ok ".to_string()))
        }
    };
    // one payload out of three is damaged: truncated, extended, or a byte changed (then no oracle)
    match rng.below(9) {
        0 => {
            let k = rng.below(d.len() as u64 + 1) as usize;
            d.truncate(k);
            oracle = None;
        }
        1 => {
            d.extend({ let k = rng.range(1, 7) as usize; rng.bytes(k) });
            if typ != 0x0204 {
                oracle = None;
            }
            if matches!(typ, 0x0203 | 0x027E | 0x0205 | 0x00FD) {
                // trailing bytes after a fixed-size cell record are ignored by the reader; the record is not well-formed
                oracle = None;
            }
        }
        2 if !d.is_empty() => {
            let k = rng.below(d.len() as u64) as usize;
            d[k] = rng.next() as u8;
            oracle = None;
        }
        _ => {}
    }
    (typ, d, oracle)
}

#[cfg(feature = "hooks")]
fn rec_case(env: &EnvD, typ: u16, d: &[u8], oracle: Option<&str>, drv: &mut Driver, rep: &mut Report) {
    let input = format!("R {} {} {} {} {}", env.fmts_wire(), env.is1904 as u8, env.sst_wire(), typ, hex(d));
    let i = rec_impl(env, typ, d);
    let m = drv.ask(&format!("rec {} {} {} {} {}", env.fmts_wire(), env.is1904 as u8, env.sst_wire(), typ, hex(d)));
    // LABEL text: the model yields scalar values of a lossy UTF-16 decode; a damaged payload may hold a BOM-like
    // first unit, which encoding_rs strips or reinterprets (not modelled, C12/C19)
    rep.case(&input, oracle.is_some());
    rep.count(&format!("rec.{typ:#06x}.{}", i.split([' ', ':']).next().unwrap_or("")));
    let sig = format!("rec-{typ:#06x}");
    if !same(&i, &m) {
        if typ == 0x0204 && oracle.is_none() && i.starts_with("ok") && m.starts_with("ok") {
            rep.count("rec.label_damaged_text_skipped");
        } else if i.starts_with("panic") {
            rep.fail("impl_vs_model", &format!("{sig}-panic"), &input, &i, &m, oracle.unwrap_or(""));
        } else {
            rep.fail("impl_vs_model", &sig, &input, &i, &m, oracle.unwrap_or(""));
        }
    }
    if let Some(o) = oracle {
        if i != o {
            rep.fail("impl_vs_spec", &sig, &input, &i, &m, o);
        } else if m != o {
            rep.fail("model_vs_spec", &sig, &input, &i, &m, o);
        }
    }
}

// ---------------------------------------------------------------- F: logical workbooks

#[derive(Clone, Debug)]
enum LV {
    Num(u64),
    Str(String),
    Bool(bool),
    Err(usize),
}

type Junk = Vec<(u16, Vec<u8>)>;

#[derive(Clone, Debug)]
enum Enc {
    N,
    K(u32),
    L(bool),
    T(u32),
    B,
    F { wide: bool, blank3: bool, rgce: Vec<u8>, between: Junk },
}

#[derive(Clone, Debug)]
struct LCell {
    row: u16,
    col: u16,
    xf: u16,
    join: bool,
    v: LV,
    enc: Enc,
    before: Junk,
}

fn junk_wire(j: &Junk) -> String {
    if j.is_empty() {
        "-".into()
    } else {
        j.iter().map(|(t, d)| format!("{t}={}", hex(d))).collect::<Vec<_>>().join("+")
    }
}

fn junk_parse(s: &str) -> Junk {
    if s == "-" {
        return vec![];
    }
    s.split('+')
        .map(|x| {
            let (t, d) = x.split_once('=').unwrap();
            (t.parse().unwrap(), unhex(d))
        })
        .collect()
}

impl LCell {
    fn wire(&self) -> String {
        let v = match &self.v {
            LV::Num(b) => format!("n{b:016x}"),
            LV::Str(s) => format!("s{}", scalars(s)),
            LV::Bool(b) => format!("b{}", *b as u8),
            LV::Err(k) => format!("e{k}"),
        };
        let e = match &self.enc {
            Enc::N => "N".to_string(),
            Enc::K(w) => format!("K{w}"),
            Enc::L(w) => format!("L{}", *w as u8),
            Enc::T(i) => format!("T{i}"),
            Enc::B => "B".to_string(),
            Enc::F { wide, blank3, rgce, between } => format!("F{}{}/{}/{}", *wide as u8, *blank3 as u8, hex(rgce), junk_wire(between)),
        };
        format!("{},{},{},{},{v},{e},{}", self.row, self.col, self.xf, self.join as u8, junk_wire(&self.before))
    }
    fn parse(s: &str) -> LCell {
        let p: Vec<&str> = s.split(',').collect();
        let v = match p[4].split_at(1) {
            ("n", h) => LV::Num(u64::from_str_radix(h, 16).unwrap()),
            ("s", t) => LV::Str(unscalars(t)),
            ("b", t) => LV::Bool(t == "1"),
            ("e", t) => LV::Err(t.parse().unwrap()),
            _ => panic!("bad value {}", p[4]),
        };
        let enc = match p[5].split_at(1) {
            ("N", _) => Enc::N,
            ("K", w) => Enc::K(w.parse().unwrap()),
            ("L", w) => Enc::L(w == "1"),
            ("T", i) => Enc::T(i.parse().unwrap()),
            ("B", _) => Enc::B,
            ("F", t) => {
                let q: Vec<&str> = t.split('/').collect();
                Enc::F { wide: &q[0][0..1] == "1", blank3: &q[0][1..2] == "1", rgce: unhex(q[1]), between: junk_parse(q[2]) }
            }
            _ => panic!("bad enc {}", p[5]),
        };
        LCell { row: p[0].parse().unwrap(), col: p[1].parse().unwrap(), xf: p[2].parse().unwrap(), join: p[3] == "1", v, enc, before: junk_parse(p[6]) }
    }
}

fn cells_wire(cells: &[LCell]) -> String {
    if cells.is_empty() {
        "-".into()
    } else {
        cells.iter().map(|c| c.wire()).collect::<Vec<_>>().join(";")
    }
}

fn gen_bits(rng: &mut Rng) -> u64 {
    match rng.below(12) {
        0 => (rng.range(0, 2000) as i64 - 1000) as f64,
        1 => (rng.range(0, 200_000) as i64 - 100_000) as f64 / 100.0,
        2 => *rng.pick(&[0.0, -0.0, 1.0, -1.0, 0.5, 1.5, -2.25, 100.0, 1e300, 1e-300, 5e-324, 123456.789, 536870911.0, -536870912.0, 536870912.0, 5368709.11, -5368709.12]),
        3 => f64::from_bits(rng.next() & 0xFFFF_FFFC_0000_0000),
        4 => (rng.next() as i32 >> rng.below(30)) as f64,
        5 => ((rng.next() as i32 >> rng.below(30)) as f64) / 100.0,
        6 => *rng.pick(&[f64::INFINITY, f64::NEG_INFINITY, f64::NAN, f64::from_bits(0xFFFF_0000_0000_0001), f64::from_bits(0xFFFF_FFFF_FFFF_FFFF)]),
        7 => (rng.range(0, 60000) as f64) + (rng.below(86400) as f64) / 86400.0,
        _ => f64::from_bits(rng.next()),
    }
    .to_bits()
}

fn gen_rk_word(rng: &mut Rng) -> u32 {
    match rng.below(6) {
        0 => xlsw::rk_int(rng.range(0, 2000) as i32 - 1000, rng.chance(1, 2)),
        1 => xlsw::rk_int((rng.next() as i32) >> 2 >> rng.below(28), rng.chance(1, 2)),
        2 => xlsw::rk_int(100 * (rng.range(0, 2000) as i32 - 1000), true),
        3 => ((f64::from_bits(gen_bits(rng)).to_bits() >> 32) as u32 & !3) | rng.below(2) as u32,
        _ => rng.next() as u32,
    }
}

/// every RK word that denotes the double `bits` (integer, ×100 integer, float, ×100 float)
fn rk_candidates(bits: u64) -> Vec<u32> {
    let x = f64::from_bits(bits);
    let mut out = vec![];
    let lim = (1i64 << 29) as f64;
    if x.fract() == 0.0 && x >= -lim && x < lim && !(x == 0.0 && x.is_sign_negative()) {
        out.push(xlsw::rk_int(x as i32, false));
    }
    let y = x * 100.0;
    if y.fract() == 0.0 && y >= -lim && y < lim {
        out.push(xlsw::rk_int(y as i32, true));
    }
    if let Some(w) = xlsw::rk_float(x, false) {
        out.push(w);
    }
    if let Some(w) = xlsw::rk_float(y, true) {
        out.push(w);
    }
    // keep those the specification reading maps back to the same double
    out.retain(|w| num_bits(rk_oracle(*w)) == bits);
    out
}

/// a decoded number as the cell's XF types it: `Int`/`Float` under a plain format (or an ixfe beyond the table),
/// `DateTime(serial, kind, is1904)` under a date / duration format
fn show_typed(n: Num, fmt: char, is1904: bool) -> String {
    if fmt == 'o' {
        n.show()
    } else {
        format!("D{:016x}/{fmt}/{}", num_bits(n), is1904 as u8)
    }
}

fn num_bits(n: Num) -> u64 {
    match n {
        Num::I(v) => (v as f64).to_bits(),
        Num::F(b) => b,
    }
}

fn gen_junk(rng: &mut Rng) -> Junk {
    let mut j = vec![];
    while rng.chance(1, 7) && j.len() < 3 {
        let t = *rng.pick(&[0x0201u16, 0x0208, 0x00D7, 0x0200, 0x1234, 0x00BE, 0x0809, 0x04BC, 0x003D]);
        let d = match t {
            0x0200 => {
                // well-formed: last row/col (exclusive) beyond the first, or the all-zero record of an empty sheet
                if rng.chance(1, 6) {
                    xlsw::dimensions_payload(0, 0, 0, 0)
                } else {
                    let (r0, c0) = (rng.below(50) as u32, rng.below(10) as u16);
                    xlsw::dimensions_payload(r0, r0 + 1 + rng.below(300) as u32, c0, c0 + 1 + rng.below(60) as u16)
                }
            }
            0x0201 => xlsw::cell_hdr(rng.next() as u16, rng.below(256) as u16, 0),
            _ => { let k = rng.below(21) as usize; rng.bytes(k) },
        };
        j.push((t, d));
    }
    j
}

fn gen_sheet(rng: &mut Rng, env: &EnvD) -> Vec<LCell> {
    // window with area ≤ 2^21 (dense Range allocation, D37); the Lean model of from_sparse copies list prefixes,
    // so the big windows are rare and sparsely filled
    let big = rng.chance(1, 40);
    let cap: u32 = if big { 1 << 21 } else { 1 << 17 };
    let h = *rng.pick(&[1u32, 2, 3, 8, 8, 50, 300, 8192, 65536]);
    let wmax = (cap / h).min(256);
    let w = (*rng.pick(&[1u32, 2, 3, 8, 26, 27, 256])).min(wmax);
    let r0 = (*rng.pick(&[0u32, 0, 1, 7, 255, 256, 40000, 65535])).min(65536 - h);
    let c0 = (*rng.pick(&[0u32, 0, 1, 25, 250, 255])).min(256 - w);
    let ncells = if big { *rng.pick(&[1usize, 2, 5]) } else { *rng.pick(&[0usize, 1, 2, 5, 10, 30, 100, 300]) };
    let mut pos = std::collections::BTreeSet::new();
    for _ in 0..ncells {
        let r = match rng.below(5) {
            0 => r0,
            1 => r0 + h - 1,
            _ => r0 + rng.below(h as u64).min(rng.below(h as u64 + 6)) as u32,
        };
        let c = match rng.below(6) {
            0 => c0,
            1 => c0 + w - 1,
            _ => c0 + rng.below(w as u64) as u32,
        };
        pos.insert((r as u16, c as u16));
        // runs of adjacent columns make MULRK possible
        if rng.chance(1, 2) {
            for k in 1..rng.range(1, 5) as u32 {
                if c + k < c0 + w {
                    pos.insert((r as u16, (c + k) as u16));
                }
            }
        }
    }
    let plain_xfs: Vec<u16> = (0..env.fmts.len() as u16).filter(|i| env.fmts[*i as usize] == 'o').collect();
    let mut cells: Vec<LCell> = vec![];
    for (row, col) in pos {
        let xf = if rng.chance(1, 6) { rng.below(env.fmts.len() as u64) as u16 } else { *rng.pick(&plain_xfs) };
        let (v, enc) = match rng.below(10) {
            0..=4 => {
                let bits = gen_bits(rng);
                let cands = rk_candidates(bits);
                let enc = match rng.below(8) {
                    0 => Enc::N,
                    1 => Enc::F { wide: false, blank3: false, rgce: xlsw::rgce_int(rng.next() as u16), between: vec![] },
                    2 => Enc::K(rng.next() as u32), // usually not a valid choice: the encoder must fall back
                    _ if !cands.is_empty() => Enc::K(*rng.pick(&cands)),
                    _ => Enc::N,
                };
                (LV::Num(bits), enc)
            }
            5..=7 => {
                let from_sst = !env.sst.is_empty() && rng.chance(1, 2);
                if from_sst {
                    let i = rng.below(env.sst.len() as u64) as usize;
                    (LV::Str(env.sst[i].clone()), if rng.chance(1, 8) { Enc::T(rng.below(env.sst.len() as u64 + 1) as u32) } else { Enc::T(i as u32) })
                } else {
                    let s = gen_string(rng);
                    let enc = if rng.chance(1, 3) {
                        Enc::F { wide: rng.chance(1, 2), blank3: rng.chance(1, 2), rgce: xlsw::rgce_int(7), between: gen_junk(rng) }
                    } else {
                        Enc::L(rng.chance(1, 2))
                    };
                    (LV::Str(s), enc)
                }
            }
            8 => (LV::Bool(rng.chance(1, 2)), if rng.chance(1, 3) { Enc::F { wide: false, blank3: false, rgce: xlsw::rgce_int(1), between: vec![] } } else { Enc::B }),
            _ => (LV::Err(rng.below(8) as usize), if rng.chance(1, 3) { Enc::F { wide: false, blank3: false, rgce: xlsw::rgce_int(1), between: vec![] } } else { Enc::B }),
        };
        // repetition: the same number in the same encoding as the previous cell (or the one before it) under an XF
        // drawn from the whole table (neighbouring cells of a MULRK run / consecutive RK / NUMBER records with
        // bit-identical numbers and different format classes), and the converse (same XF, another number)
        let (mut xf, mut v, mut enc) = (xf, v, enc);
        let n = cells.len();
        let back = match rng.below(8) {
            0 | 1 if n >= 1 => Some(1),
            2 if n >= 2 => Some(2),
            _ => None,
        };
        if let Some(k) = back {
            let p: &LCell = &cells[n - k];
            if matches!(p.v, LV::Num(_)) && matches!(p.enc, Enc::K(_) | Enc::N) {
                v = p.v.clone();
                enc = p.enc.clone();
                xf = rng.below(env.fmts.len() as u64) as u16;
            }
        } else if n >= 1 && rng.chance(1, 6) {
            xf = cells[n - 1].xf;
        }
        let prev_adjacent = cells.last().map_or(false, |p| p.row == row && p.col + 1 == col && matches!(p.enc, Enc::K(_)));
        let join = matches!(enc, Enc::K(_)) && prev_adjacent && rng.chance(2, 3);
        let before = if join && rng.chance(9, 10) { vec![] } else { gen_junk(rng) };
        cells.push(LCell { row, col, xf, join, v, enc, before });
    }
    cells
}

/// the property, read off the logical sheet: bounding box of the cells, each value at its position;
/// a number stored in an RK record that denotes it reads as the RK rules say (Int / Float), otherwise as the double
fn oracle_sheet(env: &EnvD, cells: &[LCell]) -> String {
    if cells.is_empty() {
        return "ok -".into();
    }
    let r0 = cells.iter().map(|c| c.row).min().unwrap();
    let r1 = cells.iter().map(|c| c.row).max().unwrap();
    let c0 = cells.iter().map(|c| c.col).min().unwrap();
    let c1 = cells.iter().map(|c| c.col).max().unwrap();
    let mut out = vec![];
    for c in cells {
        let fmt = env.fmts.get(c.xf as usize).copied().unwrap_or('o');
        let v = match (&c.v, &c.enc) {
            (LV::Num(bits), enc) => {
                let n = match enc {
                    Enc::K(w) if num_bits(rk_oracle(*w)) == *bits => rk_oracle(*w),
                    _ => Num::F(*bits),
                };
                show_typed(n, fmt, env.is1904)
            }
            (LV::Str(s), _) => format!("S{}", scalars(s)),
            (LV::Bool(b), _) => format!("B{}", *b as u8),
            (LV::Err(k), _) => format!("E{}", xlsw::ERR_CODES[*k].1),
        };
        out.push((c.row as u32, c.col as u32, v));
    }
    format!("ok {r0},{c0},{r1},{c1} {}", canon_cells(&out))
}

struct Book {
    env: EnvD,
    sheets: Vec<Vec<LCell>>,
    seed: u64,
}

impl Book {
    fn wire(&self) -> String {
        let mut s = format!("F {} {} {} {}", self.seed, self.env.fmts_wire(), self.env.is1904 as u8, self.env.sst_wire());
        for sh in &self.sheets {
            s.push(' ');
            s.push_str(&cells_wire(sh));
        }
        s
    }
    fn parse(p: &[&str]) -> Book {
        Book {
            seed: p[1].parse().unwrap(),
            env: EnvD::parse(p[2], p[3], p[4]),
            sheets: p[5..].iter().map(|s| if *s == "-" { vec![] } else { s.split(';').map(LCell::parse).collect() }).collect(),
        }
    }
}

const NAMES: [&str; 3] = ["Sheet1", "Ŝ 2 é", "третий😀"];

/// MS-OVBA container of literal-only chunks (decodable by construction)
fn ovba_literal(data: &[u8]) -> Vec<u8> {
    let mut out = vec![1u8];
    for block in data.chunks(3000) {
        let mut body = vec![];
        for g in block.chunks(8) {
            body.push(0u8);
            body.extend_from_slice(g);
        }
        let h = 0xB000u16 | (body.len() as u16 - 1);
        out.extend_from_slice(&h.to_le_bytes());
        out.extend(body);
    }
    out
}

/// a minimal VBA project as flat compound-file entries: the `_VBA_PROJECT_CUR` entry, the `dir` stream (one
/// procedural module, code page 1252, no references) and the module stream, whose compressed source is longer
/// than 4096 bytes so that it lives in regular sectors
fn vba_project_streams(rng: &mut Rng) -> Vec<(String, Vec<u8>)> {
    fn var(out: &mut Vec<u8>, id: u16, payload: &[u8]) {
        out.extend_from_slice(&id.to_le_bytes());
        out.extend_from_slice(&(payload.len() as u32).to_le_bytes());
        out.extend_from_slice(payload);
    }
    let mut d = vec![];
    var(&mut d, 0x0001, &1u32.to_le_bytes()); // PROJECTSYSKIND
    var(&mut d, 0x0002, &0x0409u32.to_le_bytes()); // PROJECTLCID
    var(&mut d, 0x0014, &0x0409u32.to_le_bytes()); // PROJECTLCIDINVOKE
    var(&mut d, 0x0003, &1252u16.to_le_bytes()); // PROJECTCODEPAGE
    var(&mut d, 0x0004, b"VBAProject"); // PROJECTNAME
    var(&mut d, 0x0005, b""); // PROJECTDOCSTRING
    var(&mut d, 0x0040, b"");
    var(&mut d, 0x0006, b""); // PROJECTHELPFILEPATH
    var(&mut d, 0x003D, b"");
    var(&mut d, 0x0007, &0u32.to_le_bytes()); // PROJECTHELPCONTEXT
    var(&mut d, 0x0008, &0u32.to_le_bytes()); // PROJECTLIBFLAGS
    d.extend_from_slice(&[0x09, 0x00, 0x04, 0x00, 0x00, 0x00, 1, 0, 0, 0, 1, 0]); // PROJECTVERSION (12 bytes)
    var(&mut d, 0x000C, b""); // PROJECTCONSTANTS
    var(&mut d, 0x003C, b"");
    var(&mut d, 0x000F, &1u16.to_le_bytes()); // PROJECTMODULES: one module
    var(&mut d, 0x0013, &0xFFFFu16.to_le_bytes()); // PROJECTCOOKIE
    var(&mut d, 0x0019, b"Module1"); // MODULENAME
    var(&mut d, 0x0047, &"Module1".encode_utf16().flat_map(|u| u.to_le_bytes()).collect::<Vec<u8>>());
    var(&mut d, 0x001A, b"Module1"); // MODULESTREAMNAME
    var(&mut d, 0x0032, &"Module1".encode_utf16().flat_map(|u| u.to_le_bytes()).collect::<Vec<u8>>());
    var(&mut d, 0x001C, b""); // MODULEDOCSTRING
    var(&mut d, 0x0048, b"");
    var(&mut d, 0x0031, &0u32.to_le_bytes()); // MODULEOFFSET: the source starts at 0
    var(&mut d, 0x001E, &0u32.to_le_bytes()); // MODULEHELPCONTEXT
    var(&mut d, 0x002C, &0xFFFFu16.to_le_bytes()); // MODULECOOKIE
    var(&mut d, 0x0021, b""); // procedural module
    var(&mut d, 0x002B, b""); // module terminator
    var(&mut d, 0x0010, b""); // dir terminator
    let mut src = b"Attribute VB_Name = \"Module1\"\r\nSub Hello()\r\n".to_vec();
    let n = 4200 + rng.below(6000) as usize;
    while src.len() < n {
        src.extend_from_slice(format!("    ' {:016x}\r\n", rng.next()).as_bytes());
    }
    src.extend_from_slice(b"End Sub\r\n");
    vec![("_VBA_PROJECT_CUR".to_string(), vec![]), ("dir".to_string(), ovba_literal(&d)), ("Module1".to_string(), ovba_literal(&src))]
}

/// run one workbook; returns the failures (kind, sig, impl, model, expect) of its first failing sheet
fn run_book(b: &Book, drv: &mut Driver, substreams: Option<Vec<Vec<u8>>>) -> Vec<(String, String, String, String, String)> {
    let mut rng = Rng::new(b.seed);
    let mut book = XlsBook::new();
    b.env.apply(&mut book, &mut rng);
    book.sst_frag = *rng.pick(&[16usize, 40, 200, xlsw::MAX_REC]);
    let mut models = vec![];
    let mut oracles = vec![];
    for (i, cells) in b.sheets.iter().enumerate() {
        let sub = match &substreams {
            Some(s) => s[i].clone(),
            None => unhex(&drv.ask(&format!("enc {} {}", b.env.sst_wire(), cells_wire(cells)))),
        };
        models.push(drv.ask(&format!("dec {} {} {} {}", b.env.fmts_wire(), b.env.is1904 as u8, b.env.sst_wire(), hex(&sub))));
        oracles.push(if substreams.is_some() { String::new() } else { oracle_sheet(&b.env, cells) });
        book.sheets.push(XlsSheet::raw(NAMES[i], sub));
    }
    if rng.chance(1, 4) {
        book.trailing = vec![0; *rng.pick(&[1usize, 4, 100, 4096])];
    }
    let n = b.sheets.len();
    // physical order of the sheet substreams: any permutation of the tab order (BOUNDSHEET8 keeps the tab order,
    // lbPlyPos points at each substream)
    if n >= 2 && substreams.is_none() && rng.chance(1, 2) {
        let mut order: Vec<usize> = (0..n).collect();
        while order.iter().enumerate().all(|(i, o)| i == *o) {
            rng.shuffle(&mut order);
        }
        book.substream_order = Some(order);
    }
    // container: usually the workbook stream alone; sometimes with a decoy stream — a second `Workbook` stream
    // (an embedded object's) AFTER the real one in directory order, or a `Book` stream before / after it.
    // The reader must take the first stream entry named `Workbook` (Model/Cfb.lean), `Book` only when there is none.
    let bytes = match if substreams.is_none() { rng.below(8) } else { 7 } {
        mode @ 0..=2 => {
            let wb = book.workbook_stream(&mut rng);
            let mut decoy_book = XlsBook::new();
            for name in NAMES.iter().take(n.max(1)) {
                let mut sh = XlsSheet::new(name);
                sh.cells.push(XlsCell::new(0, 0, CellV::Number(-12345.5)));
                sh.cells.push(XlsCell::new(7, 3, CellV::Label("decoy".into(), None)));
                decoy_book.sheets.push(sh);
            }
            let decoy = decoy_book.workbook_stream(&mut rng);
            let mut opts = verif_harness::cfbw::CfbOpts::random(&mut rng);
            opts.dir_shuffle = false;
            if wb.len() >= 4096 {
                opts.sector_size = 512;
            }
            let streams: Vec<(String, Vec<u8>)> = match mode {
                0 => vec![("Workbook".into(), wb), ("Workbook".into(), decoy)],
                1 => vec![("Book".into(), decoy), ("Workbook".into(), wb)],
                _ => vec![("Workbook".into(), wb), ("Book".into(), decoy)],
            };
            verif_harness::cfbw::write_cfb(&streams, &opts, &mut rng)
        }
        3 => {
            // the workbook next to a VBA project (`_VBA_PROJECT_CUR`, `dir`, one module stream in regular sectors),
            // both streams >= 4096 bytes, allocation table / directory / mini stream in FRONT of them (sequential
            // layout, tables first): `Xls::new` reads the project first and the workbook afterwards from the same
            // container — the cells must not depend on the project being there
            let mut wb = book.workbook_stream(&mut rng);
            if wb.len() < 4200 {
                let pad = 4200 - wb.len() + rng.below(3000) as usize;
                wb.extend(vec![0u8; pad]);
            }
            let mut streams: Vec<(String, Vec<u8>)> = vba_project_streams(&mut rng);
            let at = rng.below(streams.len() as u64 + 1) as usize;
            streams.insert(at, ("Workbook".into(), wb));
            let mut opts = verif_harness::cfbw::CfbOpts::default();
            opts.dir_first = rng.chance(3, 4);
            opts.placement = if rng.chance(3, 4) { 0 } else { rng.below(3) as u8 };
            opts.unused_dirs = rng.below(3) as usize;
            verif_harness::cfbw::write_cfb(&streams, &opts, &mut rng)
        }
        _ => book.to_bytes(&mut rng),
    };
    let impls: Vec<String> = match guarded(|| match Xls::new(Cursor::new(bytes)) {
        Err(e) => vec![err_class(&e); n],
        Ok(mut wb) => (0..n)
            .map(|i| match wb.worksheet_range(NAMES[i]) {
                Ok(r) => format!("ok {}", canon_range(&r)),
                Err(e) => err_class(&e),
            })
            .collect(),
    }) {
        Ok(v) => v,
        Err(m) => vec![format!("panic {m}"); n],
    };
    // `Xls::new` parses every sheet: the first sheet that fails decides the outcome of the whole workbook
    let lift = |v: &Vec<String>| -> Vec<String> {
        match v.iter().find(|x| !x.starts_with("ok")) {
            Some(bad) => vec![bad.clone(); v.len()],
            None => v.clone(),
        }
    };
    let models = lift(&models);
    let oracles = lift(&oracles);
    let mut fails = vec![];
    for i in 0..n {
        let sig_of = |a: &str| -> String {
            if a.starts_with("panic") {
                "file-panic".into()
            } else if a.starts_with("err") {
                format!("file-{}", a.replace(' ', "_"))
            } else {
                "file-value".into()
            }
        };
        if !same(&impls[i], &models[i]) {
            fails.push(("impl_vs_model".to_string(), sig_of(&impls[i]), impls[i].clone(), models[i].clone(), oracles[i].clone()));
        }
        if substreams.is_none() {
            if impls[i] != oracles[i] {
                fails.push(("impl_vs_spec".to_string(), sig_of(&impls[i]), impls[i].clone(), models[i].clone(), oracles[i].clone()));
            } else if models[i] != oracles[i] {
                fails.push(("model_vs_spec".to_string(), sig_of(&models[i]), impls[i].clone(), models[i].clone(), oracles[i].clone()));
            }
        } else if models[i].starts_with("panic") && impls[i].starts_with("panic") {
            // both panic on a malformed record: an unchecked read of the implementation, known class (C06 / D31)
            fails.push(("impl_vs_spec".to_string(), format!("malformed-{}", models[i]), impls[i].clone(), models[i].clone(), "an error, not a panic (C06)".into()));
        }
        if !fails.is_empty() {
            break;
        }
    }
    fails
}

fn shrink_book(mut b: Book, kind: &str, sig: &str, drv: &mut Driver) -> Book {
    let fails = |b: &Book, drv: &mut Driver| run_book(b, drv, None).iter().any(|f| f.0 == kind && f.1 == sig);
    // drop whole sheets, then cells
    let mut i = 0;
    while b.sheets.len() > 1 && i < b.sheets.len() {
        let mut c = Book { env: b.env.clone(), sheets: b.sheets.clone(), seed: b.seed };
        c.sheets.remove(i);
        if fails(&c, drv) {
            b = c;
        } else {
            i += 1;
        }
    }
    for s in 0..b.sheets.len() {
        let mut step = b.sheets[s].len().max(1) / 2;
        while step >= 1 {
            let mut i = 0;
            while i < b.sheets[s].len() {
                let mut c = Book { env: b.env.clone(), sheets: b.sheets.clone(), seed: b.seed };
                let hi = (i + step).min(c.sheets[s].len());
                c.sheets[s].drain(i..hi);
                if let Some(next) = c.sheets[s].get_mut(i) {
                    next.join = false;
                }
                if fails(&c, drv) {
                    b = c;
                } else {
                    i += step;
                }
            }
            step /= 2;
        }
        for c in b.sheets[s].iter_mut() {
            c.before.clear();
        }
        if !fails(&b, drv) {
            // junk mattered: keep the unshrunk junk by re-running is not possible here; accept the cell-level shrink only
        }
    }
    b
}

// ---------------------------------------------------------------- M: physical substreams, oddities and faults

fn gen_phys_cells(rng: &mut Rng, env: &EnvD) -> Vec<XlsCell> {
    let mut cells = vec![];
    let n = *rng.pick(&[1usize, 2, 4, 8, 20]);
    // Bounding-box discipline (D37): all rows lie in a band of ≤ 41 rows and all columns below 32, so that even
    // after one damaged row or column field the dense range stays below 2^22 cells. A STRING record without a
    // FORMULA lands at (0,0): it is only generated when the band starts at row 0.
    let base = *rng.pick(&[0u16, 0, 1, 300, 65490]);
    let mut row = base;
    let mut col = 0u16;
    for _ in 0..n {
        if rng.chance(1, 3) {
            row = row.saturating_add(rng.range(1, 2) as u16);
            col = rng.below(3) as u16;
        }
        let xf = rng.below(env.fmts.len() as u64 + 1) as u16;
        let v = match rng.below(12) {
            0 => CellV::Number(f64::from_bits(gen_bits(rng))),
            1 => CellV::Rk(gen_rk_word(rng)),
            2 => {
                let mut run: Vec<(u16, u32)> = vec![];
                for i in 0..rng.range(1, 4) as usize {
                    let w = match rng.below(5) {
                        0 | 1 if i >= 1 => run[i - 1].1,
                        2 if i >= 2 => run[i - 2].1,
                        _ => gen_rk_word(rng),
                    };
                    run.push((rng.below(env.fmts.len() as u64 + 1) as u16, w));
                }
                CellV::MulRk(run)
            }
            3 => CellV::Label(gen_string(rng), None),
            4 => CellV::LabelSst(rng.below(env.sst.len() as u64 + 2) as u32),
            5 => CellV::Bool(rng.chance(1, 2)),
            6 => CellV::Err(xlsw::ERR_CODES[rng.below(8) as usize].0),
            7 => CellV::Formula {
                rgce: xlsw::rgce_int(3),
                cached: match rng.below(5) {
                    0 => Cached::Num(f64::from_bits(gen_bits(rng))),
                    1 => Cached::Str(gen_string(rng)),
                    2 => Cached::Bool(rng.chance(1, 2)),
                    3 => Cached::Err(xlsw::ERR_CODES[rng.below(8) as usize].0),
                    _ => Cached::Blank,
                },
            },
            8 if base == 0 => CellV::Raw(xlsw::STRING, xlsw::xl_unicode_string(&gen_string(rng), None, rng)), // STRING with no FORMULA before it
            9 => CellV::Raw(xlsw::MERGECELLS, {
                let k = rng.below(3) as u16;
                let mut d = k.to_le_bytes().to_vec();
                d.extend(rng.bytes(8 * k as usize));
                d
            }),
            10 => CellV::Raw(xlsw::CONTINUE, { let k = rng.below(9) as usize; rng.bytes(k) }),
            _ => CellV::Blank,
        };
        let width = if let CellV::MulRk(r) = &v { r.len() as u16 } else { 1 };
        cells.push(XlsCell { row, col, xf, v });
        col = (col + width + rng.below(2) as u16).min(28);
    }
    cells
}

/// one structural fault applied to the record list; returns its name
fn apply_fault(recs: &mut Vec<(u16, Vec<u8>)>, rng: &mut Rng) -> String {
    let idx = rng.below(recs.len() as u64) as usize;
    let (typ, d) = &mut recs[idx];
    let name = match rng.below(8) {
        0 => {
            let k = rng.below(d.len() as u64 + 1) as usize;
            d.truncate(k);
            "truncate-payload"
        }
        1 if d.len() >= 2 && *typ == xlsw::MULRK => {
            let n = d.len();
            let first = u16::from_le_bytes([d[2], d[3]]);
            let last = match rng.below(4) {
                0 => first.wrapping_sub(1),
                1 => first.wrapping_sub(rng.range(1, 300) as u16),
                2 => 65535,
                _ => u16::from_le_bytes([d[n - 2], d[n - 1]]).wrapping_add(1),
            };
            d[n - 2..].copy_from_slice(&last.to_le_bytes());
            if rng.chance(1, 3) {
                d[2..4].copy_from_slice(&(*rng.pick(&[0u16, 1, 65535])).to_le_bytes());
            }
            "mulrk-columns"
        }
        2 if *typ == xlsw::BOOLERR && d.len() >= 8 => {
            if rng.chance(1, 2) {
                d[7] = rng.range(2, 255) as u8;
            } else {
                d[7] = 1;
                d[6] = rng.next() as u8;
            }
            "boolerr-code"
        }
        3 if *typ == xlsw::FORMULA && d.len() >= 22 => {
            match rng.below(4) {
                0 => d[6] = rng.range(4, 255) as u8,
                1 => {
                    d[6] = rng.below(4) as u8;
                    d[12] = 0xFF;
                    d[13] = 0xFF;
                    d[8] = rng.next() as u8;
                }
                2 => {
                    let k = rng.range(18, 23) as usize;
                    d.truncate(k.min(d.len()));
                }
                _ => d[20..22].copy_from_slice(&(rng.range(4, 40) as u16).to_le_bytes()),
            }
            "formula-fields"
        }
        4 => {
            // DIMENSIONS whose last row/col lies before the first, or of an odd size
            *typ = xlsw::DIMENSIONS;
            *d = match rng.below(3) {
                0 => xlsw::dimensions_payload(rng.range(1, 50) as u32, rng.range(0, 50) as u32, rng.range(1, 9) as u16, rng.range(0, 9) as u16),
                1 => {
                    let mut v = (rng.range(1, 50) as u16).to_le_bytes().to_vec();
                    v.extend_from_slice(&(rng.range(0, 50) as u16).to_le_bytes());
                    v.extend_from_slice(&(rng.range(1, 9) as u16).to_le_bytes());
                    v.extend_from_slice(&(rng.range(0, 9) as u16).to_le_bytes());
                    v.extend_from_slice(&[0, 0]);
                    v
                }
                _ => { let k = *rng.pick(&[0usize, 9, 11, 12, 13, 15]); rng.bytes(k) },
            };
            "dimensions"
        }
        5 if *typ == xlsw::MERGECELLS && d.len() >= 2 => {
            d[0] = d[0].wrapping_add(rng.range(1, 3) as u8);
            "mergecells-count"
        }
        6 => {
            d.extend({ let k = rng.range(1, 4) as usize; rng.bytes(k) });
            "extend-payload"
        }
        _ => {
            if !d.is_empty() {
                let k = rng.below(d.len() as u64) as usize;
                d[k] = rng.next() as u8;
            }
            // a garbled FORMULA token string is C14's business: keep the rgce intact
            "flip-byte"
        }
    };
    name.to_string()
}

/// is this record list inside the modelled space? (FORMULA token strings must stay well-formed: `parse_formula`
/// itself is not modelled here, only its `rgce[2..2 + cce]` slice)
fn formula_tokens_intact(recs: &[(u16, Vec<u8>)]) -> bool {
    recs.iter().all(|(t, d)| {
        *t != xlsw::FORMULA || d.len() < 22 || {
            let cce = u16::from_le_bytes([d[20], d[21]]) as usize;
            d.len() < 22 + cce || (cce == 3 && d[22] == 0x1E) || cce == 0
        }
    })
}

struct Phys {
    env: EnvD,
    seed: u64,
    sub: Vec<u8>,
}

impl Phys {
    fn wire(&self) -> String {
        format!("M {} {} {} {} {}", self.seed, self.env.fmts_wire(), self.env.is1904 as u8, self.env.sst_wire(), hex(&self.sub))
    }
}

fn gen_phys(rng: &mut Rng) -> (Phys, String) {
    let env = gen_env(rng);
    loop {
        let cells = gen_phys_cells(rng, &env);
        let mut recs: Vec<(u16, Vec<u8>)> = cells.iter().flat_map(|c| xlsw::encode_cell(c, rng)).collect();
        let fault = if rng.chance(2, 3) { apply_fault(&mut recs, rng) } else { "none".to_string() };
        if !formula_tokens_intact(&recs) {
            continue;
        }
        let mut sub = xlsw::bof(0x0010);
        sub.extend(xlsw::frame(&recs));
        let mut fault = fault;
        match rng.below(10) {
            0 => {
                // no EOF: the loop ends with the stream
                fault.push_str("+no-eof");
            }
            1 => {
                // stream cut inside a record header / payload
                sub.extend(xlsw::rec(xlsw::EOF, &[]));
                let k = rng.range(1, 6) as usize;
                sub.truncate(sub.len().saturating_sub(k).max(20));
                fault.push_str("+cut-stream");
            }
            _ => sub.extend(xlsw::rec(xlsw::EOF, &[])),
        }
        return (Phys { env, seed: rng.next(), sub }, fault);
    }
}

fn run_phys(p: &Phys, drv: &mut Driver) -> Vec<(String, String, String, String, String)> {
    let b = Book { env: p.env.clone(), sheets: vec![vec![]], seed: p.seed };
    // the sheet must be the last thing in the stream (the reader runs on to the end of the stream when EOF is missing)
    run_book_notrail(&b, drv, p.sub.clone())
}

fn run_book_notrail(b: &Book, drv: &mut Driver, sub: Vec<u8>) -> Vec<(String, String, String, String, String)> {
    // same as run_book with one given substream, but never any trailing bytes: seed chosen so that none are added
    let mut b2 = Book { env: b.env.clone(), sheets: b.sheets.clone(), seed: b.seed };
    loop {
        let mut rng = Rng::new(b2.seed);
        let mut book = XlsBook::new();
        b2.env.apply(&mut book, &mut rng);
        let _ = *rng.pick(&[16usize, 40, 200, xlsw::MAX_REC]);
        if !rng.chance(1, 4) {
            break;
        }
        b2.seed = b2.seed.wrapping_add(1);
    }
    run_book(&b2, drv, Some(vec![sub]))
}

// ---------------------------------------------------------------- main

fn corpus() -> Vec<&'static str> {
    vec![
        // D36: LABEL holding the empty string (3-byte XLUnicodeString)
        "F 1 o 0 - 0,0,0,0,s,L0,-",
        // D36: FORMULA with an empty string result in a STRING record
        "F 1 o 0 - 2,3,0,0,s,F00/1e0700/-,-",
        // RK: negative integer, ×100 exact and inexact, float, ×100 float; MULRK run of three
        "F 2 o 0 - 0,0,0,0,nc014000000000000,K4294967278,-;0,1,0,1,n4028000000000000,K4803,-;0,2,0,1,n3ff3ae147ae147ae,K495,-;1,0,0,0,n3ff8000000000000,K1073217536,-;1,1,0,0,n3f8eb851eb851eb8,K1073217537,-",
        // corners of the grid (two sheets), LABELSST, BOOLERR, FORMULA bool / error
        "F 3 o 0 61.62/e9 65535,0,0,0,s61.62,T0,-;65535,31,0,0,b1,B,- 0,255,0,0,e6,B,-;8191,255,0,0,e2,F00/1e0100/-,-",
        // D31: MULRK whose last column precedes the first
        "M 1 o 0 - 0908100000061000000000000000000000000000bd000c000000050000000600000004000a000000",
        // D31: DIMENSIONS whose last row precedes the first
        "M 1 o 0 - 090810000006100000000000000000000000000000020e0005000000030000000200010000000a000000",
        // D31 (fixed b5774ce): MERGECELLS shorter than its own count; FORMULA shorter than its own cce
        "M 13303923515016307808 od 1 _ 0908100000061000000000000000000000000000e5000200d3000a000000",
        "M 13611103415883870042 ooooo 0 ff.a3/30.39.31.62.61.3e.3c.59 090810000006100000000000000000000000000006001900000000000000ed2c4235dcbf9b5e000000000000031a1e03000a000000",
        // FORMULA records out of row order: the formula range's from_sparse panics (known finding, found by the thorough tier)
        "M 17632450602671588669 oo 0 - 090810000006100000000000000000000000000004020f000000000002000300013dd800de160406001900020701000200010001000000ffff00000000000003001e030006001900040000000100030000000000ffff00000000000003001e03000502080004000200020001000a000000",
        // FORMULA with a numeric result under a date XF (typed by the XF since 0b12e07)
        "F 5 od 0 - 1,1,1,0,n40e5700000000000,F00/1e0100/-,-",
        // LABELSST naming the empty shared string reads String("") (was dropped: C19's finding, fixed from here)
        "F 6 o 0 _ 0,0,0,0,s,T0,-",
        "F 6 o 0 61/_ 0,0,0,0,s61,T0,-;2,3,0,0,s,T1,-",
        // MULRK run repeating one number under XFs of different classes, and the same XF over different numbers
        // (seed C02-m7: a "decode repeated entries once" cache keyed on the 4 RK bytes only)
        "F 7 ood 0 - 0,243,2,0,nc1527e2a00000000,K4275576162,-;0,244,1,1,nc1527e2a00000000,K4275576162,-;0,245,2,1,nc1527e2a00000000,K4275576162,-;0,246,2,1,n4014000000000000,K22,-",
        "R ot 0 - 189 ffff010001001ff4ffff02001ff4ffff00001ff4ffff0300",
        // date / time-delta XFs on NUMBER and RK cells, 1904 workbook
        "F 4 odt 1 - 0,0,1,0,n40e5700000000000,N,-;0,1,2,0,n3fe0000000000000,K1071644672,-;0,2,1,0,n4059000000000000,K402,-",
    ]
}

fn run_input(input: &str, drv: &mut Driver, rep: &mut Report, shrink_budget: &mut u32) {
    let p: Vec<&str> = input.split(' ').collect();
    match p[0] {
        #[cfg(feature = "hooks")]
        "K" => {
            rep.case(input, true);
            rk_case(p[1].parse().unwrap(), drv, rep);
        }
        #[cfg(feature = "hooks")]
        "R" => {
            let env = EnvD::parse(p[1], p[2], p[3]);
            rec_case(&env, p[4].parse().unwrap(), &unhex(p[5]), None, drv, rep);
        }
        #[cfg(not(feature = "hooks"))]
        "K" | "R" => rep.count("skipped.hooks_unavailable"),
        "F" => {
            let b = Book::parse(&p);
            book_case(b, drv, rep, shrink_budget);
        }
        "O" => overlap_case(p[1].parse().unwrap(), input, drv, rep),
        "B" => {
            let b = big_sst_book(p[1].parse().unwrap());
            rep.count("file.big_sst");
            book_case_named(b, Some(input.to_string()), drv, rep, shrink_budget);
        }
        "M" => {
            let ph = Phys { seed: p[1].parse().unwrap(), env: EnvD::parse(p[2], p[3], p[4]), sub: unhex(p[5]) };
            phys_case(&ph, "replay", drv, rep);
        }
        x => panic!("unknown case kind {x}"),
    }
}

/// the big-SST family `B <seed>`: a shared string table of 65536 + k distinct short strings (k = 1..8) and LABELSST
/// cells naming entries on both sides of the 16-bit boundary (isst is a 32-bit field: entry 65536 + j must not read
/// as entry j). The case text is the seed only; the workbook is rebuilt from it.
fn big_sst_book(seed: u64) -> Book {
    let mut rng = Rng::new(seed ^ 0xB165_57);
    let k = 1 + rng.below(8) as usize;
    let sst: Vec<String> = (0..65536 + k).map(|i| format!("s{i:x}")).collect();
    let mut cells = vec![];
    let mk = |row: u16, col: u16, i: usize, sst: &Vec<String>| LCell {
        row,
        col,
        xf: 0,
        join: false,
        v: LV::Str(sst[i].clone()),
        enc: Enc::T(i as u32),
        before: vec![],
    };
    cells.push(mk(0, 0, 65535, &sst));
    for j in 0..k {
        cells.push(mk(1 + j as u16, 0, j, &sst));
        cells.push(mk(1 + j as u16, 1, 65536 + j, &sst));
    }
    Book { env: EnvD { fmts: vec!['o'], is1904: false, sst }, sheets: vec![cells], seed }
}

/// the overlapping-offsets family `O <seed>`: k BoundSheet8 records whose offsets point at record boundaries inside ONE
/// worksheet substream (and inside the globals, at the end of the stream, beyond it), so that the sheets overlap. The
/// reader scans each sheet from its offset to the EOF record and keeps a workbook-wide byte counter (fix edc415f): the
/// outcome must be the ranges of all sheets, or `EoStream("overlapping sheet substreams")` once the counter passes
/// 8·len + 65536 — the same in the implementation and in the model (`workbookSheets`). Rebuilt from the seed.
fn overlap_case(seed: u64, input: &str, drv: &mut Driver, rep: &mut Report) {
    let mut rng = Rng::new(seed ^ 0x0E7A_11);
    // one case in three sits on the limit itself: every sheet points at the real start, and the padding behind the
    // sheet is chosen so that the total lands within 8 bytes of the limit, on either side
    let boundary = rng.chance(1, 3);
    let nrec = if boundary { *rng.pick(&[20usize, 60, 300, 1500]) } else { *rng.pick(&[3usize, 20, 60, 300, 1500]) };
    let mut k = *rng.pick(&[1usize, 2, 5, 9, 12, 20, 40, 100, 1000, 3000]);
    // the worksheet: BOF, nrec cell records in one column (rows ascending), EOF; remember every record boundary
    let mut sheet = xlsw::bof(0x0010);
    let mut bounds = vec![0usize];
    for i in 0..nrec {
        bounds.push(sheet.len());
        let c = match rng.below(4) {
            0 => XlsCell::new(i as u16, 0, CellV::Rk(xlsw::rk_int(i as i32 - 7, rng.chance(1, 2)))),
            1 => XlsCell::new(i as u16, 0, CellV::Bool(i % 2 == 0)),
            _ => XlsCell::new(i as u16, 0, CellV::Number(i as f64 / 4.0)),
        };
        sheet.extend(xlsw::frame(&xlsw::encode_cell(&c, &mut rng)));
    }
    if boundary {
        // an ignorable record pads the substream to a multiple of 8 bytes, so that the total can EQUAL the limit
        let p = (8 - (sheet.len() + 8) % 8) % 8;
        sheet.extend(xlsw::rec(0x1234, &vec![0u8; p]));
    }
    bounds.push(sheet.len()); // the EOF record itself
    sheet.extend(xlsw::rec(xlsw::EOF, &[]));
    if boundary {
        let l = sheet.len();
        k = (8 * (50 + l) + 65536) / (l - 8 * 17) + 3;
    }
    // globals with k BOUNDSHEET8 records (offsets patched below)
    let mut g = xlsw::bof(0x0005);
    let mut gbounds = vec![0usize];
    gbounds.push(g.len());
    g.extend(xlsw::rec(xlsw::CODEPAGE, &1200u16.to_le_bytes()));
    gbounds.push(g.len());
    g.extend(xlsw::rec(xlsw::XF, &[0u8; 20]));
    let mut patch_at = vec![];
    for j in 0..k {
        gbounds.push(g.len());
        let mut d = vec![0u8; 6];
        d.extend(xlsw::short_xl_unicode_string(&format!("S{j}"), Some(false), &mut rng));
        patch_at.push(g.len() + 4);
        g.extend(xlsw::rec(xlsw::BOUNDSHEET, &d));
    }
    g.extend(xlsw::rec(xlsw::EOF, &[]));
    let glen = g.len();
    let mut stream = g;
    stream.extend(&sheet);
    if boundary {
        let total = k * sheet.len();
        let t0 = (total.saturating_sub(65536) / 8).saturating_sub(glen + sheet.len()) as i64;
        let t = (t0 + rng.below(3) as i64 - 1).max(0) as usize;
        stream.extend(vec![0u8; t]);
        rep.count("overlap.boundary");
    } else if rng.chance(1, 4) {
        stream.extend(vec![0u8; *rng.pick(&[1usize, 4, 100])]);
    }
    let mut offsets = vec![];
    for j in 0..k {
        let off = match if boundary { 0 } else { rng.below(20) } {
            0 => glen,                                              // the real start
            1 => *rng.pick(&gbounds),                               // inside the globals
            2 => stream.len(),                                      // empty sheet
            3 if k < 30 && rng.chance(1, 3) => stream.len() + 1 + rng.below(9) as usize, // beyond the stream: error
            _ => glen + *rng.pick(&bounds),
        };
        stream[patch_at[j]..patch_at[j] + 4].copy_from_slice(&(off as u32).to_le_bytes());
        offsets.push(off);
    }
    rep.case(input, true);
    rep.count(&format!("overlap.k.{}", match k { 0..=9 => "1-9", 10..=99 => "10-99", _ => "100+" }));
    let bytes = verif_harness::cfbw::write_cfb(&[("Workbook".to_string(), stream.clone())], &verif_harness::cfbw::CfbOpts::default(), &mut rng);
    let clip = |text: String, n: usize| -> String {
        if text.len() > 4000 {
            format!("ok #{}:{n}", verif_harness::fnv64(text.as_bytes()))
        } else {
            format!("ok {text}")
        }
    };
    let i = match guarded(|| match Xls::new(Cursor::new(bytes)) {
        Err(e) => err_class(&e),
        Ok(mut wb) => {
            let mut parts = vec![];
            for j in 0..k {
                match wb.worksheet_range(&format!("S{j}")) {
                    Ok(r) => parts.push(canon_range(&r)),
                    Err(e) => return err_class(&e),
                }
            }
            clip(parts.join("|"), k)
        }
    }) {
        Ok(v) => v,
        Err(m) => format!("panic {m}"),
    };
    let offs: Vec<String> = offsets.iter().map(|o| o.to_string()).collect();
    let m = drv.ask(&format!("wb o 0 - {} {}", offs.join(","), hex(&stream)));
    rep.count(&format!("overlap.outcome.{}", i.split([' ', '#']).next().unwrap_or("")));
    if !same(&i, &m) {
        rep.fail("impl_vs_model", "overlap", input, &i, &m, "");
    }
    // the oracle of this family: never a panic, and either every sheet or the documented error
    if i.starts_with("panic") {
        rep.fail("impl_vs_spec", "overlap-panic", input, &i, &m, "ranges or an error");
    }
}

fn book_case(b: Book, drv: &mut Driver, rep: &mut Report, shrink_budget: &mut u32) {
    book_case_named(b, None, drv, rep, shrink_budget)
}

fn book_case_named(b: Book, label: Option<String>, drv: &mut Driver, rep: &mut Report, shrink_budget: &mut u32) {
    let named = label.is_some();
    let input = label.unwrap_or_else(|| b.wire());
    let ncells: usize = b.sheets.iter().map(|s| s.len()).sum();
    rep.case(&input, ncells >= 2);
    rep.add("file.cells", ncells as u64);
    rep.count(&format!("file.sheets.{}", b.sheets.len()));
    for sh in &b.sheets {
        rep.count(&format!("file.size.{}", match sh.len() { 0 => "0", 1..=9 => "1-9", 10..=99 => "10-99", _ => "100+" }));
        for c in sh {
            let k = match (&c.v, &c.enc) {
                (LV::Num(_), Enc::N) => "num.NUMBER",
                (LV::Num(b), Enc::K(w)) if num_bits(rk_oracle(*w)) == *b => {
                    if c.join {
                        "num.RK-valid-joined"
                    } else {
                        match w & 3 {
                            0 => "num.RK-float",
                            1 => "num.RK-float-x100",
                            2 => "num.RK-int",
                            _ => "num.RK-int-x100",
                        }
                    }
                }
                (LV::Num(_), Enc::K(_)) => "num.RK-invalid-fallback",
                (LV::Num(_), Enc::F { .. }) => "num.FORMULA",
                (LV::Str(_), Enc::L(_)) => "str.LABEL",
                (LV::Str(_), Enc::T(_)) => "str.LABELSST",
                (LV::Str(_), Enc::F { .. }) => "str.FORMULA+STRING",
                (LV::Bool(_), Enc::F { .. }) => "bool.FORMULA",
                (LV::Bool(_), _) => "bool.BOOLERR",
                (LV::Err(_), Enc::F { .. }) => "err.FORMULA",
                (LV::Err(_), _) => "err.BOOLERR",
                _ => "other",
            };
            rep.count(&format!("cell.{k}"));
            if !c.before.is_empty() {
                rep.count("cell.with-ignorable-records-before");
            }
            if c.row == 65535 || c.col == 255 {
                rep.count("cell.at-last-row-or-col");
            }
        }
    }
    let fails = run_book(&b, drv, None);
    for (kind, sig, i, m, e) in fails {
        if *shrink_budget > 0 && !named {
            *shrink_budget -= 1;
            let small = shrink_book(Book { env: b.env.clone(), sheets: b.sheets.clone(), seed: b.seed }, &kind, &sig, drv);
            let f2 = run_book(&small, drv, None);
            if let Some(f) = f2.iter().find(|f| f.0 == kind && f.1 == sig) {
                rep.fail(&kind, &sig, &small.wire(), &f.2, &f.3, &f.4);
                continue;
            }
        }
        rep.fail(&kind, &sig, &input, &i, &m, &e);
    }
}

fn phys_case(p: &Phys, fault: &str, drv: &mut Driver, rep: &mut Report) {
    let input = p.wire();
    rep.case(&input, true);
    rep.count(&format!("phys.fault.{fault}"));
    let fails = run_phys(p, drv);
    if fails.is_empty() {
        rep.count("phys.agree");
    }
    for (kind, sig, i, m, e) in fails {
        rep.count(&format!("phys.outcome.{sig}"));
        rep.fail(&kind, &sig, &input, &i, &m, &e);
    }
}

fn main() {
    let args = Args::parse();
    let mut drv = Driver::spawn(&args.driver);
    let mut rep = Report::new(
        "C02",
        "K: RK words (rk_num via hook vs Lean rkNum vs MS-XLS 2.5.217 oracle): boundary words, every high half x 8 low halves \
         + 1M random (quick) or all 2^32 (thorough), as FNV checksums over (tag, 8 bytes). R: single record payloads \
         (NUMBER/RK/MULRK/BOOLERR/LABELSST/LABEL/DIMENSIONS; two thirds well-formed with an oracle, the rest truncated/extended/garbled) \
         through the parser hooks vs Lean `step`. F: logical workbooks (1-3 sheets, 0-300 cells in a window of <= 2^21 cells placed anywhere \
         in 65536x256 with bias to the first/last row and column, values: doubles of 9 classes, strings of 3 alphabets, booleans, 8 errors; \
         layout: NUMBER / RK word of any of the 4 kinds that denotes the number / invalid RK word (fallback) / MULRK joins / LABEL 8|16 bit / \
         LABELSST / BOOLERR / FORMULA(+STRING, blank-string type 3) / ignorable records before cells and between FORMULA and STRING; \
         XF table with date and duration formats given by built-in ids, custom FORMAT ids >= 164 or FORMAT records redefining a built-in slot, 1904 flag, SST with CONTINUE cuts, sheet substreams stored in any permutation of the tab order, in 1 file of 8 a VBA project (module stream and workbook stream both in regular sectors, allocation table and directory in front of them) in the same container, in 3 files of 8 a decoy stream in the container: a second `Workbook` stream after the real one, or a `Book` stream before / after it) encoded by the Lean encoder, wrapped by xlsw+cfbw with a \
         random container layout, read by Xls::new + worksheet_range, compared with Lean `dec` and with the bounding-box/value oracle. \
         B: one workbook per run (3 in thorough) with a shared string table of 65536 + k strings and LABELSST cells on both sides of the 16-bit boundary. \
         MULRK runs, consecutive RK and NUMBER records repeat numbers (same bytes) under XFs of different format classes and keep an XF over different numbers (adjacent and at distance 2). \
         O: 12 (thorough 200) workbooks with 1..3000 BoundSheet8 records whose offsets point into one worksheet's records, the globals, the end of the stream or beyond it (overlapping substreams): impl vs the model's workbook-wide scan counter, outcome = all ranges or the overlap error, never a panic. \
         M: Rust-encoded substreams with physical oddities (STRING without FORMULA, CONTINUE, MERGECELLS, 1-cell MULRK, LABELSST beyond the table) \
         and one structural fault (impl vs model only). Non-trivial = a file with >= 2 cells, a record with an oracle, any K/M case; distinct by input text. \
         Generator restrictions: FORMULA token strings are always `PtgInt` (the token decoder is C14's); strings never start with a BOM-like unit.",
    );
    let mut shrink_budget = 10u32;
    if let Some(inp) = &args.replay {
        run_input(inp, &mut drv, &mut rep, &mut shrink_budget);
    } else {
        for c in corpus() {
            run_input(c, &mut drv, &mut rep, &mut shrink_budget);
        }
        for j in 0..if args.thorough() { 3 } else { 1 } {
            run_input(&format!("B {}", args.seed.wrapping_add(j)), &mut drv, &mut rep, &mut shrink_budget);
        }
        for j in 0..args.count(12, 200) {
            run_input(&format!("O {}", args.seed.wrapping_mul(1000).wrapping_add(j)), &mut drv, &mut rep, &mut shrink_budget);
        }
        #[cfg(feature = "hooks")]
        rk_sweeps(&args, &mut rep, &mut drv);
        #[cfg(not(feature = "hooks"))]
        rep.notes.push("built without the verif-hooks feature: the RK sweeps (K) and the record-level cases (R) are unavailable; the file-level correspondences (F, M) ran".into());
        // the generated cases, spread over worker threads (one driver and one local report each); every case
        // draws from its own PRNG stream `(seed, family, index)`, so the run does not depend on the thread count
        let nrec = args.count(40_000, 2_000_000);
        let nfile = args.count(4_000, 200_000);
        let nphys = args.count(6_000, 300_000);
        let nthreads = std::thread::available_parallelism().map(|n| n.get()).unwrap_or(4).clamp(1, 16) as u64;
        let mut handles = vec![];
        for t in 0..nthreads {
            let path = args.driver.clone();
            let seed = args.seed;
            handles.push(std::thread::spawn(move || {
                let mut drv = Driver::spawn(&path);
                let mut rep = Report::new("C02", "");
                let mut shrink_budget = if t == 0 { 6u32 } else { 1 };
                let stream = |family: u64, i: u64| Rng::new(seed ^ (family << 60) ^ i.wrapping_mul(0x9E37_79B9_7F4A_7C15));
                #[cfg(feature = "hooks")]
                {
                    let mut i = t;
                    while i < nrec {
                        let mut rng = stream(1, i);
                        let env = gen_env(&mut rng);
                        let (typ, d, oracle) = gen_record(&mut rng, &env);
                        rec_case(&env, typ, &d, oracle.as_deref(), &mut drv, &mut rep);
                        i += nthreads;
                    }
                }
                let _ = nrec;
                let mut i = t;
                while i < nfile {
                    let mut rng = stream(2, i);
                    let env = gen_env(&mut rng);
                    let ns = *rng.pick(&[1usize, 1, 2, 3]);
                    let sheets = (0..ns).map(|_| gen_sheet(&mut rng, &env)).collect();
                    let b = Book { env, sheets, seed: rng.next() };
                    book_case(b, &mut drv, &mut rep, &mut shrink_budget);
                    i += nthreads;
                }
                let mut i = t;
                while i < nphys {
                    let mut rng = stream(3, i);
                    let (p, fault) = gen_phys(&mut rng);
                    phys_case(&p, &fault, &mut drv, &mut rep);
                    i += nthreads;
                }
                rep.add("driver_requests", drv.requests);
                rep
            }));
        }
        for h in handles {
            let local = h.join().expect("case worker");
            let distinct = local.to_json()["distinct_nontrivial"].as_u64().unwrap_or(0);
            let sample = local.samples.first().cloned().unwrap_or_default();
            rep.bulk(local.evaluations, distinct, &sample);
            for s in local.samples.iter().skip(1).take(1) {
                if rep.samples.len() < 8 {
                    rep.samples.push(s.clone());
                }
            }
            for (k, v) in &local.counters {
                if k != "bulk_distinct" {
                    rep.add(k, *v);
                }
            }
            for (k, v) in &local.failure_count {
                *rep.failure_count.entry(k.clone()).or_insert(0) += v;
            }
            for f in &local.failures {
                match rep.failures.iter_mut().find(|g| g.kind == f.kind && g.sig == f.sig) {
                    Some(g) => {
                        if f.input.len() < g.input.len() {
                            *g = f.clone();
                        }
                    }
                    None => rep.failures.push(f.clone()),
                }
            }
        }
    }
    rep.add("driver_requests", drv.requests);
    rep.write(&args.out);
}
