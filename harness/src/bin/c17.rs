//! C17 — merged regions and tables are reported with the geometry the file declares.
//!
//! Three levels, every case run three ways (impl = real calamine in-process, model = Lean `drv_c17`,
//! oracle = the declared geometry computed independently here):
//!   dim:<hex>    `get_dimension` on a reference text (hook)                      — unit sweep
//!   xlsmc:<hex>  xls `parse_merge_cells` on a MERGEDCELLS payload (hook)         — unit sweep
//!   xlsx {json}  generated workbook: sheets × merged regions × tables            — file level
//!   xls {json}   generated BIFF8 workbook with MERGEDCELLS records               — file level
use calamine::{Data, DataRef, Range, Reader, Xls, Xlsx, XlsxError};
use serde_derive::{Deserialize, Serialize};
use std::collections::BTreeMap;
use std::io::Cursor;
use verif_harness::xlsw::{self, CellV, XlsBook, XlsCell, XlsSheet};
use verif_harness::xlsxw::{self, Ev, Layout, XCell, XlsxBook, XlsxSheet};
use verif_harness::{driver::Driver, guarded, hex, report::Report, rng::Rng, unhex, Args};

const MAX_ROW: u32 = 1_048_575;
const MAX_COL: u32 = 16_383;
const TABLE_REL: &str = "http://schemas.openxmlformats.org/officeDocument/2006/relationships/table";

// ------------------------------------------------------------------------------------------------
// case descriptions (JSON on the wire, so that a replay is readable and editable)
// ------------------------------------------------------------------------------------------------

/// one `<mergeCell>`: a rectangle `[sr, sc, er, ec]` and how its reference is spelled, or a raw text
#[derive(Clone, Debug, Serialize, Deserialize, PartialEq)]
struct Merge {
    r: [u32; 4],
    /// bit 0: two-corner form even for one cell (`B2:B2`); bit 1: lower-case letters;
    /// bit 2: an unrelated attribute before `ref`; bit 3: whitespace text after the element;
    /// bit 4: unrelated attributes after `ref`
    f: u8,
    /// verbatim `ref` text (malformed / reversed references); the oracle is silent for these
    #[serde(default, skip_serializing_if = "Option::is_none")]
    raw: Option<String>,
}

#[derive(Clone, Debug, Serialize, Deserialize, PartialEq)]
struct SheetSpec {
    name: String,
    /// `[row, col, value]`, value ≥ 1, numeric cells
    cells: Vec<[u32; 3]>,
    merges: Vec<Merge>,
    /// write an (empty) `<mergeCells>` element even without regions
    #[serde(default)]
    mc_empty: bool,
    /// `count` attribute of `<mergeCells>`: `None` = the true count, `Some(-1)` = attribute omitted,
    /// `Some(k)` = the (wrong) number k — the attribute must not influence what is reported
    #[serde(default, skip_serializing_if = "Option::is_none")]
    cnt: Option<i64>,
    /// other CT_Worksheet children, in schema order, none of which declares a merged region:
    /// bit 0 before `sheetData`: sheetPr, sheetViews, sheetFormatPr, cols;
    /// bit 1 between `sheetData` and `mergeCells`: sheetCalcPr, sheetProtection, protectedRanges, autoFilter;
    /// bit 2 `customSheetViews` whose views nest pane/selection/rowBreaks/pageMargins/printOptions/pageSetup/
    ///       headerFooter/autoFilter (names of later siblings, one level down);
    /// bit 3 after `mergeCells`: phoneticPr, conditionalFormatting, dataValidations, hyperlinks;
    /// bit 4 print settings: printOptions, pageMargins, pageSetup, headerFooter, rowBreaks, colBreaks;
    /// bit 5 after `tableParts`: extLst
    #[serde(default)]
    kids: u8,
}

#[derive(Clone, Debug, Serialize, Deserialize, PartialEq)]
struct TableSpec {
    sheet: usize,
    name: String,
    r: [u32; 4],
    /// `None`: attribute omitted (schema default 1)
    hdr: Option<u32>,
    /// `None`: attribute omitted (schema default 0)
    tot: Option<u32>,
    /// `insertRow` attribute text
    #[serde(default, skip_serializing_if = "Option::is_none")]
    ins: Option<String>,
    cols: Vec<String>,
    /// relationship `Target` is the absolute part name `/xl/tables/tableN.xml` (else `../tables/tableN.xml`)
    abs: bool,
    /// further legal attributes of `<table>` that must not influence name, columns or geometry
    /// (`totalsRowShown`, `headerRowDxfId`, `published`, `tableType`, `insertRowShift`, …)
    #[serde(default, skip_serializing_if = "Vec::is_empty")]
    x: Vec<[String; 2]>,
    /// verbatim `ref` text instead of `r` (garbled / reversed references): no expectation except "no panic"
    #[serde(default, skip_serializing_if = "Option::is_none")]
    rr: Option<String>,
    /// the `name` attribute when it differs from `displayName` (the table's name is its `displayName`)
    #[serde(default, skip_serializing_if = "Option::is_none")]
    alt: Option<String>,
    /// non-zero: the attributes of `<table>` (after the namespace declaration) are shuffled with this seed
    #[serde(default)]
    ord: u64,
    /// inert children: bit 0 `sortState`/`filterColumn` inside `autoFilter` (each with a `ref`); bit 1 no
    /// `autoFilter`; bit 2 `tableColumn` with `uniqueName`/`totalsRowFunction`/… attributes and formula
    /// children; bit 3 no `tableStyleInfo`; bit 4 an `extLst`; bit 5 whitespace text between the children;
    /// bit 6 extensions nesting elements whose local names repeat outer ones (`x14:table` with the
    /// Alternative Text after the columns, `x15:tableColumn(s)`, `x14/x15:autoFilter`, `filterColumn`)
    #[serde(default)]
    kids: u8,
}

#[derive(Clone, Debug, Serialize, Deserialize, PartialEq)]
struct XlsxSpec {
    /// seed of the physical layout (0 = the plain layout)
    layout: u64,
    sheets: Vec<SheetSpec>,
    tables: Vec<TableSpec>,
    /// (single-sheet workbooks) the sheet part sits directly in `xl/`: the workbook relationship has the
    /// Target `worksheets`, the part is `xl/worksheets`, its relationships `xl/_rels/worksheets.rels`; a
    /// relative table target `../tables/tableN.xml` then resolves against the package root (`tables/tableN.xml`)
    #[serde(default)]
    flat: bool,
}

#[derive(Clone, Debug, Serialize, Deserialize, PartialEq)]
enum XlsItem {
    /// `[row, col, value]`
    C([u32; 3]),
    /// one MERGEDCELLS record declaring these rectangles `[sr, sc, er, ec]`
    M(Vec<[u32; 4]>),
    /// any other record `(type, payload hex)` between the cells
    R(u16, String),
}

#[derive(Clone, Debug, Serialize, Deserialize, PartialEq)]
struct XlsSheetSpec {
    name: String,
    items: Vec<XlsItem>,
    /// BoundSheet8 `dt` / substream kind: 0 worksheet, 1 macro sheet, 2 chart, 6 VBA module; every kind is a
    /// sheet of `sheet_names()` and counts for the index of `worksheet_merge_cells_at`
    #[serde(default)]
    kind: u8,
}

#[derive(Clone, Debug, Serialize, Deserialize, PartialEq)]
struct XlsSpec {
    seed: u64,
    sheets: Vec<XlsSheetSpec>,
    /// physical order of the sheet substreams in the Workbook stream (a permutation of the sheet indices; the
    /// BoundSheet8 records stay in tab order, each pointing at its own substream); `None` = tab order
    #[serde(default, skip_serializing_if = "Option::is_none")]
    order: Option<Vec<usize>>,
    /// dual-format container: besides `Workbook` a `Book` stream (the BIFF5 copy Excel 97 writes in "5.0/95 &
    /// 97" files: same sheets and cells, no MERGEDCELLS records), 1 = before, 2 = after `Workbook` in directory
    /// order; the regions must come from `Workbook`
    #[serde(default)]
    dual: u8,
}

#[derive(Clone, Debug)]
enum Case {
    Dim(Vec<u8>),
    XlsMc(Vec<u8>),
    Xlsx(XlsxSpec),
    Xls(XlsSpec),
}

impl Case {
    fn text(&self) -> String {
        match self {
            Case::Dim(b) => format!("dim:{}", hex(b)),
            Case::XlsMc(b) => format!("xlsmc:{}", hex(b)),
            Case::Xlsx(s) => format!("xlsx {}", serde_json::to_string(s).unwrap()),
            Case::Xls(s) => format!("xls {}", serde_json::to_string(s).unwrap()),
        }
    }
    fn parse(s: &str) -> Case {
        if let Some(h) = s.strip_prefix("dim:") {
            Case::Dim(unhex(h))
        } else if let Some(h) = s.strip_prefix("xlsmc:") {
            Case::XlsMc(unhex(h))
        } else if let Some(j) = s.strip_prefix("xlsx ") {
            Case::Xlsx(serde_json::from_str(j).expect("xlsx case json"))
        } else if let Some(j) = s.strip_prefix("xls ") {
            Case::Xls(serde_json::from_str(j).expect("xls case json"))
        } else {
            panic!("bad case text {s}")
        }
    }
}

/// one finding: (kind, sig, impl, model, expect)
type Fail = (String, String, String, String, String);

#[derive(Default)]
struct Outcome {
    fails: Vec<Fail>,
    nontrivial: bool,
    counters: Vec<String>,
}

fn fail(out: &mut Outcome, kind: &str, sig: &str, i: &str, m: &str, e: &str) {
    out.fails.push((kind.into(), sig.into(), i.into(), m.into(), e.into()));
}

/// compare the three views of one observation
fn judge(out: &mut Outcome, sig: &str, imp: &str, model: &str, expect: Option<&str>) {
    if imp != model {
        fail(out, "impl_vs_model", sig, imp, model, expect.unwrap_or(""));
    }
    if let Some(e) = expect {
        if imp != e {
            fail(out, "impl_vs_spec", sig, imp, model, e);
        } else if model != e {
            fail(out, "model_vs_spec", sig, imp, model, e);
        }
    }
}

// ------------------------------------------------------------------------------------------------
// text forms shared with the driver
// ------------------------------------------------------------------------------------------------

fn show_rect(s: (u32, u32), e: (u32, u32)) -> String {
    format!("{},{},{},{}", s.0, s.1, e.0, e.1)
}

fn show_rects(l: &[((u32, u32), (u32, u32))]) -> String {
    if l.is_empty() {
        "-".into()
    } else {
        l.iter().map(|d| show_rect(d.0, d.1)).collect::<Vec<_>>().join(";")
    }
}

fn err_tag(e: &XlsxError) -> String {
    match e {
        XlsxError::Alphanumeric(_) => "err:Alphanumeric".into(),
        XlsxError::NumericColumn(_) => "err:NumericColumn".into(),
        XlsxError::DimensionCount(_) => "err:DimensionCount".into(),
        XlsxError::RangeWithoutColumnComponent => "err:RangeWithoutColumnComponent".into(),
        XlsxError::RangeWithoutRowComponent => "err:RangeWithoutRowComponent".into(),
        XlsxError::XmlEof(_) => "err:XmlEof".into(),
        XlsxError::ParseInt(_) => "err:ParseInt".into(),
        XlsxError::TableNotFound(_) => "err:TableNotFound".into(),
        other => format!("err:other:{other:?}"),
    }
}

fn a1(row: u32, col: u32, lower: bool) -> String {
    let c = xlsxw::col_name(col);
    format!("{}{}", if lower { c.to_lowercase() } else { c }, row as u64 + 1)
}

fn ref_text(r: [u32; 4], two: bool, lower: bool) -> String {
    if !two && r[0] == r[2] && r[1] == r[3] {
        a1(r[0], r[1], lower)
    } else {
        format!("{}:{}", a1(r[0], r[1], lower), a1(r[2], r[3], lower))
    }
}

impl Merge {
    fn text(&self) -> String {
        match &self.raw {
            Some(t) => t.clone(),
            None => ref_text(self.r, self.f & 1 != 0, self.f & 2 != 0),
        }
    }
}

// ------------------------------------------------------------------------------------------------
// unit level
// ------------------------------------------------------------------------------------------------

/// independent reading of a well-formed reference text `[A-Za-z]{1,3}[0-9]{1,7}(:…)?` inside the grid
fn oracle_dim(b: &[u8]) -> Option<String> {
    fn cell(p: &[u8]) -> Option<(u32, u32)> {
        let nl = p.iter().take_while(|c| c.is_ascii_alphabetic()).count();
        let (l, d) = p.split_at(nl);
        if l.is_empty() || l.len() > 3 || d.is_empty() || d.len() > 7 || !d.iter().all(|c| c.is_ascii_digit()) {
            return None;
        }
        let mut col: u64 = 0;
        for c in l {
            col = col * 26 + (c.to_ascii_uppercase() - b'A') as u64 + 1;
        }
        let row: u64 = std::str::from_utf8(d).ok()?.parse().ok()?;
        if row == 0 || row > MAX_ROW as u64 + 1 || col > MAX_COL as u64 + 1 {
            return None;
        }
        Some((row as u32 - 1, col as u32 - 1))
    }
    let parts: Vec<&[u8]> = b.split(|c| *c == b':').collect();
    match parts.len() {
        1 => cell(parts[0]).map(|p| format!("ok {}", show_rect(p, p))),
        2 => {
            let (s, e) = (cell(parts[0])?, cell(parts[1])?);
            if s.0 <= e.0 && s.1 <= e.1 {
                Some(format!("ok {}", show_rect(s, e)))
            } else {
                None // a reversed reference declares nothing (its handling is a C06 matter)
            }
        }
        _ => None,
    }
}

/// `get_dimension` on a reference text. `None`: the case cannot be evaluated in this build.
#[cfg(feature = "hooks")]
fn impl_dim(b: &[u8]) -> Option<String> {
    Some(match guarded(|| calamine::verif_hooks::xlsx::get_dimension(b)) {
        Ok(Ok((s, e))) => format!("ok {}", show_rect(s, e)),
        Ok(Err(e)) => err_tag(&e),
        Err(_) => "panic".into(),
    })
}

/// Without the hooks the same function is reached through the public API: a one-sheet workbook whose only
/// `<mergeCell ref>` is the text, read by `load_merged_regions` (which returns `get_dimension`'s result or
/// error as it is). Only texts that can stand verbatim in an XML attribute are expressible that way.
#[cfg(not(feature = "hooks"))]
fn impl_dim(b: &[u8]) -> Option<String> {
    if !b.iter().all(|c| (0x20..0x7f).contains(c) && !b"&<>\"'".contains(c)) {
        return None;
    }
    let text = std::str::from_utf8(b).ok()?;
    let mut book = XlsxBook::new();
    let mut sh = XlsxSheet::new("S");
    sh.extra_after_sheet_data = format!("<mergeCells count=\"1\"><mergeCell ref=\"{text}\"/></mergeCells>");
    book.sheets.push(sh);
    let bytes = book.build(&Layout::plain()).bytes;
    Some(match guarded(|| {
        let mut wb: Xlsx<_> = Xlsx::new(Cursor::new(bytes)).map_err(|e| format!("open-err:{e:?}"))?;
        Ok::<_, String>(match wb.load_merged_regions() {
            Ok(()) => match wb.merged_regions().first() {
                Some((_, _, d)) => format!("ok {}", show_rect(d.start, d.end)),
                None => "no-region".to_string(),
            },
            Err(e) => err_tag(&e),
        })
    }) {
        Ok(Ok(s)) => s,
        Ok(Err(e)) => e,
        Err(_) => "panic".into(),
    })
}

/// xls `parse_merge_cells` on a MERGEDCELLS payload
#[cfg(feature = "hooks")]
fn impl_xlsmc(b: &[u8]) -> Option<Result<Result<Vec<((u32, u32), (u32, u32))>, String>, String>> {
    Some(guarded(|| calamine::verif_hooks::xls::c17_parse_merge_cells(b)))
}

/// Without the hooks: a one-sheet workbook whose sheet substream holds one MERGEDCELLS record with the payload
/// (payloads that fit a BIFF8 record only); `Xls::new` fails with the function's error, else the regions are read back.
#[cfg(not(feature = "hooks"))]
fn impl_xlsmc(b: &[u8]) -> Option<Result<Result<Vec<((u32, u32), (u32, u32))>, String>, String>> {
    if b.len() > xlsw::MAX_REC {
        return None;
    }
    let mut book = XlsBook::new();
    let mut sh = XlsSheet::new("S");
    sh.cells.push(XlsCell::raw(xlsw::MERGECELLS, b.to_vec()));
    book.sheets.push(sh);
    let bytes = book.to_bytes_plain(&mut Rng::new(1));
    Some(guarded(|| {
        let wb: Xls<_> = Xls::new(Cursor::new(bytes)).map_err(|e| format!("{e:?}"))?;
        Ok(wb.worksheet_merge_cells("S").unwrap_or_default().iter().map(|d| (d.start, d.end)).collect())
    }))
}

fn eval_dim(b: &[u8], drv: &mut Driver, mode: &str) -> Outcome {
    let mut out = Outcome::default();
    let imp = match impl_dim(b) {
        Some(i) => i,
        None => {
            out.counters.push("dim.skipped_without_hooks".into());
            return out;
        }
    };
    let model = drv.ask(&format!("dim {mode} {}", hex(b)));
    let exp = oracle_dim(b);
    out.nontrivial = exp.is_some();
    out.counters.push(format!("dim.{}", if exp.is_some() { "wellformed" } else { imp.split(' ').next().unwrap_or("?") }));
    judge(&mut out, "dim", &imp, &model, exp.as_deref());
    // the Lean encoder `renderRef`/`renderRef2` (the one the theorems quantify over) must produce exactly the
    // canonical upper-case text of the same rectangle
    if let Some(e) = &exp {
        if !b.iter().any(|c| c.is_ascii_lowercase()) {
            let nums = e.trim_start_matches("ok ").replace(',', " ");
            let single = !b.contains(&b':');
            let v: Vec<u32> = nums.split(' ').map(|x| x.parse().unwrap()).collect();
            let canonical = ref_text([v[0], v[1], v[2], v[3]], !single, false).into_bytes() == b;
            let rendered = if canonical { drv.ask(&format!("render {nums} {}", if single { 0 } else { 1 })) } else { hex(b) };
            if rendered != hex(b) {
                fail(&mut out, "model_vs_spec", "dim.render", &hex(b), &rendered, e);
            }
            if canonical {
                out.counters.push("dim.render_checked".into());
            }
        }
    }
    out
}

/// independent reading of a complete MERGEDCELLS payload (count, then count × 8 bytes, maybe trailing bytes)
fn oracle_xlsmc(b: &[u8]) -> Option<String> {
    if b.len() < 2 {
        return None;
    }
    let n = u16::from_le_bytes([b[0], b[1]]) as usize;
    if b.len() < 2 + 8 * n {
        return None; // truncated record: no declared geometry
    }
    let w = |o: usize| u16::from_le_bytes([b[o], b[o + 1]]) as u32;
    let l: Vec<_> = (0..n).map(|i| ((w(2 + 8 * i), w(6 + 8 * i)), (w(4 + 8 * i), w(8 + 8 * i)))).collect();
    Some(format!("ok {}", show_rects(&l)))
}

fn eval_xlsmc(b: &[u8], drv: &mut Driver) -> Outcome {
    let mut out = Outcome::default();
    let res = match impl_xlsmc(b) {
        Some(r) => r,
        None => {
            out.counters.push("xlsmc.skipped_without_hooks".into());
            return out;
        }
    };
    let imp = match res {
        Ok(Ok(l)) => format!("ok {}", show_rects(&l)),
        // `Len { expected, found, typ: "merge cells" }` (Debug text from the hook) → `err:Len:merge cells`
        Ok(Err(e)) => match (e.starts_with("Len"), e.find("typ: \"")) {
            (true, Some(i)) => format!("err:Len:{}", e[i + 6..].chars().take_while(|c| *c != '"').collect::<String>()),
            _ => format!("err:{e}"),
        },
        Err(_) => "panic".into(),
    };
    let model = drv.ask(&format!("xlsmc {}", hex(b)));
    let exp = oracle_xlsmc(b);
    out.nontrivial = exp.is_some() && b.len() >= 10;
    out.counters.push(format!("xlsmc.{}", if exp.is_some() { "complete" } else { "truncated" }));
    judge(&mut out, "xlsmc", &imp, &model, exp.as_deref());
    out
}

// ------------------------------------------------------------------------------------------------
// xlsx files
// ------------------------------------------------------------------------------------------------

struct BuiltX {
    bytes: Vec<u8>,
    /// complete event list of every sheet part (the `<mergeCells>`/`<tableParts>` events spliced in)
    sheet_events: Vec<Vec<Ev>>,
    sheet_paths: Vec<String>,
    /// `.rels` and table parts in archive order: (entry name as written, events as calamine sees them)
    parts: Vec<(String, Vec<Ev>)>,
    layout: String,
}

fn q(pre: &str, n: &str) -> String {
    if pre.is_empty() {
        n.to_string()
    } else {
        format!("{pre}:{n}")
    }
}

/// `<name a="v" …>` children `</name>`
fn el(pre: &str, name: &str, attrs: &[(&str, &str)], children: Vec<Ev>) -> Vec<Ev> {
    let mut v = vec![Ev::Start(q(pre, name), attrs.iter().map(|(k, x)| (k.to_string(), x.to_string())).collect())];
    v.extend(children);
    v.push(Ev::End(q(pre, name)));
    v
}

/// CT_Worksheet children that precede `sheetData`
fn sheet_children_before(pre: &str, kids: u8) -> Vec<Ev> {
    let mut v = vec![];
    if kids & 1 != 0 {
        v.extend(el(pre, "sheetPr", &[("codeName", "mergeCells")], [el(pre, "tabColor", &[("rgb", "FFFF0000")], vec![]), el(pre, "pageSetUpPr", &[("fitToPage", "1")], vec![])].concat()));
        let sel = el(pre, "selection", &[("activeCell", "B2"), ("sqref", "B2:C3")], vec![]);
        let view = el(pre, "sheetView", &[("workbookViewId", "0")], [el(pre, "pane", &[("ySplit", "1"), ("topLeftCell", "A2"), ("state", "frozen")], vec![]), sel].concat());
        v.extend(el(pre, "sheetViews", &[], view));
        v.extend(el(pre, "sheetFormatPr", &[("defaultRowHeight", "15")], vec![]));
        v.extend(el(pre, "cols", &[], el(pre, "col", &[("min", "1"), ("max", "3"), ("width", "12.5"), ("customWidth", "1")], vec![])));
    }
    v
}

/// CT_Worksheet children between `sheetData` and `mergeCells`
fn sheet_children_mid(pre: &str, kids: u8) -> Vec<Ev> {
    let mut v = vec![];
    if kids & 2 != 0 {
        v.extend(el(pre, "sheetCalcPr", &[("fullCalcOnLoad", "1")], vec![]));
        v.extend(el(pre, "sheetProtection", &[("sheet", "1"), ("objects", "1")], vec![]));
        v.extend(el(pre, "protectedRanges", &[], el(pre, "protectedRange", &[("sqref", "A1:B2"), ("name", "mergeCell")], vec![])));
        v.extend(el(pre, "autoFilter", &[("ref", "A1:C9")], el(pre, "filterColumn", &[("colId", "0")], vec![])));
    }
    if kids & 4 != 0 {
        let inner = [
            el(pre, "pane", &[("ySplit", "2")], vec![]),
            el(pre, "selection", &[("sqref", "A1")], vec![]),
            el(pre, "rowBreaks", &[("count", "1")], el(pre, "brk", &[("id", "5"), ("man", "1")], vec![])),
            el(pre, "pageMargins", &[("left", "0.7"), ("right", "0.7"), ("top", "0.75"), ("bottom", "0.75"), ("header", "0.3"), ("footer", "0.3")], vec![]),
            el(pre, "printOptions", &[("gridLines", "1")], vec![]),
            el(pre, "pageSetup", &[("orientation", "landscape")], vec![]),
            el(pre, "headerFooter", &[], el(pre, "oddHeader", &[], vec![Ev::Text("&C mergeCells".into())])),
            el(pre, "autoFilter", &[("ref", "A1:B5")], vec![]),
        ]
        .concat();
        let view = el(pre, "customSheetView", &[("guid", "{7F2B1C5A-0000-4000-8000-000000000001}"), ("scale", "85")], inner);
        v.extend(el(pre, "customSheetViews", &[], view));
    }
    v
}

/// CT_Worksheet children after `mergeCells` (and before `tableParts`)
fn sheet_children_after(pre: &str, kids: u8) -> Vec<Ev> {
    let mut v = vec![];
    if kids & 8 != 0 {
        v.extend(el(pre, "phoneticPr", &[("fontId", "1")], vec![]));
        let rule = el(pre, "cfRule", &[("type", "cellIs"), ("priority", "1"), ("operator", "greaterThan")], el(pre, "formula", &[], vec![Ev::Text("5".into())]));
        v.extend(el(pre, "conditionalFormatting", &[("sqref", "A1:C3")], rule));
        v.extend(el(pre, "dataValidations", &[("count", "1")], el(pre, "dataValidation", &[("type", "whole"), ("sqref", "D4:D9")], vec![])));
        v.extend(el(pre, "hyperlinks", &[], el(pre, "hyperlink", &[("ref", "A1:B2"), ("location", "Sheet1!A1")], vec![])));
    }
    if kids & 16 != 0 {
        v.extend(el(pre, "printOptions", &[("horizontalCentered", "1")], vec![]));
        v.extend(el(pre, "pageMargins", &[("left", "0.7"), ("right", "0.7"), ("top", "0.75"), ("bottom", "0.75"), ("header", "0.3"), ("footer", "0.3")], vec![]));
        v.extend(el(pre, "pageSetup", &[("paperSize", "9")], vec![]));
        v.extend(el(pre, "headerFooter", &[], el(pre, "oddFooter", &[], vec![Ev::Text("&P".into())])));
        v.extend(el(pre, "rowBreaks", &[("count", "1"), ("manualBreakCount", "1")], el(pre, "brk", &[("id", "3"), ("max", "16383"), ("man", "1")], vec![])));
        v.extend(el(pre, "colBreaks", &[("count", "1")], el(pre, "brk", &[("id", "2"), ("max", "1048575"), ("man", "1")], vec![])));
    }
    v
}

fn build_xlsx(spec: &XlsxSpec) -> BuiltX {
    let flat = spec.flat && spec.sheets.len() == 1;
    let mut l = if spec.layout == 0 { Layout::plain() } else { Layout::random(&mut Rng::new(spec.layout)) };
    // knobs that expose defects owned by other properties (C01/C16/C19) stay on their plain setting
    l.rel_prefix = "r".into();
    l.pct_rich = 0;
    l.pct_swap_string_store = 0;
    let mut cos = Rng::new(spec.layout ^ 0xC17);
    let pre = l.prefix.clone();
    let mut book = XlsxBook::new();
    let mut extras: Vec<Vec<Ev>> = vec![];
    let mut extras_before: Vec<Vec<Ev>> = vec![];
    let mut my_parts: Vec<(String, Vec<Ev>)> = vec![];
    for (i, sh) in spec.sheets.iter().enumerate() {
        let mut xs = XlsxSheet::new(&sh.name);
        for c in &sh.cells {
            xs.set(c[0], c[1], XCell::num(&c[2].to_string()));
        }
        let before = sheet_children_before(&pre, sh.kids);
        if !before.is_empty() {
            let mut r2 = cos.fork();
            xs.extra_before_sheet_data = xlsxw::serialize(&before, || r2.chance(1, 2));
        }
        extras_before.push(before);
        let mut evs: Vec<Ev> = sheet_children_mid(&pre, sh.kids);
        if !sh.merges.is_empty() || sh.mc_empty {
            let mc_attrs = match sh.cnt {
                None => vec![("count".to_string(), sh.merges.len().to_string())],
                Some(k) if k < 0 => vec![],
                Some(k) => vec![("count".to_string(), k.to_string())],
            };
            evs.push(Ev::Start(q(&pre, "mergeCells"), mc_attrs));
            for m in &sh.merges {
                let mut attrs = vec![];
                if m.f & 4 != 0 {
                    attrs.push(("xr:uid".to_string(), "{00000000-0001-0000-0000-000000000000}".to_string()));
                }
                attrs.push(("ref".to_string(), m.text()));
                if m.f & 16 != 0 {
                    attrs.push(("refs".to_string(), "A1".to_string()));
                    attrs.push(("x:ref".to_string(), "Z9:Z10".to_string()));
                }
                evs.push(Ev::Start(q(&pre, "mergeCell"), attrs));
                evs.push(Ev::End(q(&pre, "mergeCell")));
                if m.f & 8 != 0 {
                    evs.push(Ev::Text("\n    ".into()));
                }
            }
            evs.push(Ev::End(q(&pre, "mergeCells")));
        }
        evs.extend(sheet_children_after(&pre, sh.kids));
        let tabs: Vec<usize> = (0..spec.tables.len()).filter(|k| spec.tables[*k].sheet == i).collect();
        if !tabs.is_empty() {
            evs.push(Ev::Start(q(&pre, "tableParts"), vec![("count".into(), tabs.len().to_string())]));
            let mut rels = vec![Ev::Start("Relationships".into(), vec![("xmlns".into(), xlsxw::NS_PKG_REL.into())])];
            // an unrelated relationship first: its Type must not be taken for a table
            if cos.chance(1, 3) {
                rels.push(Ev::Start(
                    "Relationship".into(),
                    vec![
                        ("Id".into(), "rId90".into()),
                        ("Type".into(), format!("{}/hyperlink", xlsxw::NS_REL)),
                        ("Target".into(), "../tables/table1.xml".into()),
                        ("TargetMode".into(), "External".into()),
                    ],
                ));
                rels.push(Ev::End("Relationship".into()));
            }
            for (j, k) in tabs.iter().enumerate() {
                let t = &spec.tables[*k];
                evs.push(Ev::Start(q(&pre, "tablePart"), vec![("r:id".into(), format!("rId{}", j + 1))]));
                evs.push(Ev::End(q(&pre, "tablePart")));
                let target = if t.abs { format!("/xl/tables/table{}.xml", k + 1) } else { format!("../tables/table{}.xml", k + 1) };
                let mut attrs = vec![
                    ("Id".to_string(), format!("rId{}", j + 1)),
                    ("Type".to_string(), TABLE_REL.to_string()),
                    ("Target".to_string(), target),
                ];
                if cos.chance(1, 3) {
                    attrs.swap(1, 2);
                }
                rels.push(Ev::Start("Relationship".into(), attrs));
                rels.push(Ev::End("Relationship".into()));
            }
            rels.push(Ev::End("Relationships".into()));
            evs.push(Ev::End(q(&pre, "tableParts")));
            my_parts.push((if flat { "xl/_rels/worksheets.rels".to_string() } else { format!("xl/worksheets/_rels/sheet{}.xml.rels", i + 1) }, rels));
        }
        if sh.kids & 32 != 0 {
            evs.extend(el(&pre, "extLst", &[], el(&pre, "ext", &[("uri", "{78C0D931-6437-407d-A8EE-F0AAD7539E65}")], vec![])));
        }
        if !evs.is_empty() {
            let mut r2 = cos.fork();
            xs.extra_after_sheet_data = xlsxw::serialize(&evs, || r2.chance(1, 2));
        }
        extras.push(evs);
        book.sheets.push(xs);
    }
    for (k, t) in spec.tables.iter().enumerate() {
        let mut attrs: Vec<(String, String)> = vec![
            (if pre.is_empty() { "xmlns".to_string() } else { format!("xmlns:{pre}") }, xlsxw::NS_MAIN.to_string()),
            ("id".into(), (k + 1).to_string()),
            ("name".into(), t.alt.clone().unwrap_or_else(|| t.name.clone())),
            ("displayName".into(), t.name.clone()),
            ("ref".into(), t.rr.clone().unwrap_or_else(|| ref_text(t.r, true, false))),
        ];
        if let Some(h) = t.hdr {
            attrs.push(("headerRowCount".into(), h.to_string()));
        }
        if let Some(v) = &t.ins {
            attrs.push(("insertRow".into(), v.clone()));
        }
        if let Some(n) = t.tot {
            attrs.push(("totalsRowCount".into(), n.to_string()));
        }
        for a in &t.x {
            attrs.push((a[0].clone(), a[1].clone()));
        }
        if t.ord != 0 {
            let n = attrs.len();
            Rng::new(t.ord).shuffle(&mut attrs[1..n]);
        }
        let mut evs = vec![Ev::Start(q(&pre, "table"), attrs)];
        let ws = |evs: &mut Vec<Ev>| {
            if t.kids & 32 != 0 {
                evs.push(Ev::Text("\n  ".into()));
            }
        };
        ws(&mut evs);
        // the autoFilter carries its own `ref` (header + data rows), which is not the table's
        let af = [t.r[0], t.r[1], t.r[2].saturating_sub(t.tot.unwrap_or(0)).max(t.r[0]), t.r[3]];
        if t.kids & 2 == 0 {
            evs.push(Ev::Start(q(&pre, "autoFilter"), vec![("ref".into(), ref_text(af, true, false))]));
            if t.kids & 1 != 0 {
                evs.push(Ev::Start(q(&pre, "filterColumn"), vec![("colId".into(), "0".into())]));
                evs.push(Ev::Start(q(&pre, "filters"), vec![]));
                evs.push(Ev::Start(q(&pre, "filter"), vec![("val".into(), "table".into())]));
                evs.push(Ev::End(q(&pre, "filter")));
                evs.push(Ev::End(q(&pre, "filters")));
                evs.push(Ev::End(q(&pre, "filterColumn")));
                let ss = [(af[0] + 1).min(af[2]), af[1], af[2], af[3]];
                evs.push(Ev::Start(q(&pre, "sortState"), vec![("ref".into(), ref_text(ss, true, false))]));
                evs.push(Ev::Start(q(&pre, "sortCondition"), vec![("descending".into(), "1".into()), ("ref".into(), ref_text([ss[0], ss[1], ss[2], ss[1]], true, false))]));
                evs.push(Ev::End(q(&pre, "sortCondition")));
                evs.push(Ev::End(q(&pre, "sortState")));
            }
            if t.kids & 64 != 0 {
                // before the columns: an extension inside autoFilter nesting `autoFilter` / `filterColumn` again
                evs.push(Ev::Start(q(&pre, "extLst"), vec![]));
                evs.push(Ev::Start(q(&pre, "ext"), vec![("uri".into(), "{22222222-2222-4333-8444-555555555555}".into())]));
                evs.push(Ev::Start("x14:autoFilter".into(), vec![("ref".into(), "Y1:Y9".into())]));
                evs.push(Ev::Start("x14:filterColumn".into(), vec![("colId".into(), "1".into()), ("name".into(), "filterColumn".into())]));
                evs.push(Ev::End("x14:filterColumn".into()));
                evs.push(Ev::End("x14:autoFilter".into()));
                evs.push(Ev::End(q(&pre, "ext")));
                evs.push(Ev::End(q(&pre, "extLst")));
            }
            evs.push(Ev::End(q(&pre, "autoFilter")));
            ws(&mut evs);
        }
        evs.push(Ev::Start(q(&pre, "tableColumns"), vec![("count".into(), t.cols.len().to_string())]));
        for (j, c) in t.cols.iter().enumerate() {
            let mut ca: Vec<(String, String)> = vec![("id".into(), (j + 1).to_string())];
            if t.kids & 4 != 0 {
                ca.push(("uniqueName".into(), format!("u{}", j + 1)));
            }
            ca.push(("name".into(), c.clone()));
            if t.kids & 4 != 0 {
                ca.push(("totalsRowFunction".into(), "sum".into()));
                ca.push(("totalsRowLabel".into(), "name".into()));
                ca.push(("dataDxfId".into(), j.to_string()));
                ca.push(("queryTableFieldId".into(), (j + 1).to_string()));
            }
            evs.push(Ev::Start(q(&pre, "tableColumn"), ca));
            if t.kids & 4 != 0 {
                evs.push(Ev::Start(q(&pre, "calculatedColumnFormula"), vec![]));
                evs.push(Ev::Text("Table1[[#This Row],[name]]*2".into()));
                evs.push(Ev::End(q(&pre, "calculatedColumnFormula")));
                evs.push(Ev::Start(q(&pre, "totalsRowFormula"), vec![]));
                evs.push(Ev::Text("SUM(A1:A2)".into()));
                evs.push(Ev::End(q(&pre, "totalsRowFormula")));
            }
            evs.push(Ev::End(q(&pre, "tableColumn")));
            ws(&mut evs);
        }
        evs.push(Ev::End(q(&pre, "tableColumns")));
        ws(&mut evs);
        if t.kids & 8 == 0 {
            evs.push(Ev::Start(
                q(&pre, "tableStyleInfo"),
                vec![("name".into(), "TableStyleMedium2".into()), ("showFirstColumn".into(), "0".into()), ("showRowStripes".into(), "1".into())],
            ));
            evs.push(Ev::End(q(&pre, "tableStyleInfo")));
        }
        if t.kids & (16 | 64) != 0 {
            evs.push(Ev::Start(q(&pre, "extLst"), vec![]));
            evs.push(Ev::Start(q(&pre, "ext"), vec![("uri".into(), "{504A1905-F514-4f6f-8877-14C23A59335A}".into()), ("name".into(), "ext".into())]));
            if t.kids & 64 != 0 {
                // Alternative Text: an element whose LOCAL name is `table` again, after the columns; further
                // nested elements repeating the local names of outer ones (none of them declares anything)
                evs.push(Ev::Start("x14:table".into(), vec![("altText".into(), "R&D totals".into()), ("altTextSummary".into(), "ref=A1:B2".into())]));
                evs.push(Ev::End("x14:table".into()));
            }
            evs.push(Ev::End(q(&pre, "ext")));
            if t.kids & 64 != 0 {
                evs.push(Ev::Start(q(&pre, "ext"), vec![("uri".into(), "{11111111-2222-4333-8444-555555555555}".into())]));
                evs.push(Ev::Start("x15:tableColumns".into(), vec![("count".into(), "1".into())]));
                evs.push(Ev::Start("x15:tableColumn".into(), vec![("id".into(), "99".into()), ("uniqueName".into(), "shadow".into())]));
                evs.push(Ev::End("x15:tableColumn".into()));
                evs.push(Ev::End("x15:tableColumns".into()));
                evs.push(Ev::Start("x15:autoFilter".into(), vec![("ref".into(), "Z1:Z2".into())]));
                evs.push(Ev::Start("x15:filterColumn".into(), vec![("colId".into(), "0".into())]));
                evs.push(Ev::End("x15:filterColumn".into()));
                evs.push(Ev::End("x15:autoFilter".into()));
                evs.push(Ev::End(q(&pre, "ext")));
            }
            evs.push(Ev::End(q(&pre, "extLst")));
        }
        ws(&mut evs);
        evs.push(Ev::End(q(&pre, "table")));
        my_parts.push((if flat && !t.abs { format!("tables/table{}.xml", k + 1) } else { format!("xl/tables/table{}.xml", k + 1) }, evs));
    }
    for (name, evs) in &my_parts {
        let mut r2 = cos.fork();
        let body = xlsxw::serialize(evs, || r2.chance(2, 3));
        let text = format!("<?xml version=\"1.0\" encoding=\"UTF-8\" standalone=\"yes\"?>\n{body}");
        book.extra_parts.push((name.clone(), text.into_bytes()));
    }
    let mut built = book.build(&l);
    let mut sheet_paths = built.sheet_paths.clone();
    if flat {
        // move the sheet part to `xl/worksheets`, point the workbook relationship at it, zip again
        let mut parts = built.parts.clone();
        for (name, body) in parts.iter_mut() {
            if name.eq_ignore_ascii_case("xl/worksheets/sheet1.xml") {
                *name = "xl/worksheets".to_string();
            } else if name.eq_ignore_ascii_case("xl/_rels/workbook.xml.rels") {
                let text = String::from_utf8(body.clone()).expect("rels text");
                assert!(text.contains("worksheets/sheet1.xml\""));
                *body = text.replace("worksheets/sheet1.xml\"", "worksheets\"").into_bytes();
            }
        }
        let mut zr = Rng::new(spec.layout ^ 0xF1A7);
        built.bytes = xlsxw::zip_parts(&parts, l.compression, &mut zr);
        built.parts = parts;
        sheet_paths = vec!["xl/worksheets".to_string()];
    }
    // splice the events of the raw extras into the sheet event lists
    let mut sheet_events = vec![];
    for (i, evs) in built.sheet_events.iter().enumerate() {
        let mut full = vec![];
        for e in evs {
            match e {
                Ev::Other(raw) if !extras[i].is_empty() && *raw == book.sheets[i].extra_after_sheet_data => full.extend(extras[i].iter().cloned()),
                Ev::Other(raw) if !extras_before[i].is_empty() && *raw == book.sheets[i].extra_before_sheet_data => full.extend(extras_before[i].iter().cloned()),
                e => full.push(e.clone()),
            }
        }
        sheet_events.push(full);
    }
    let mut parts = vec![];
    for (zname, _) in &built.parts {
        if let Some((_, evs)) = my_parts.iter().find(|(n, _)| n.eq_ignore_ascii_case(zname)) {
            parts.push((zname.clone(), evs.clone()));
        }
    }
    BuiltX { bytes: built.bytes, sheet_events, sheet_paths, parts, layout: l.describe() }
}

fn data_num(d: &Data) -> u64 {
    match d {
        Data::Empty => 0,
        Data::Float(f) if *f >= 1.0 && f.fract() == 0.0 => *f as u64,
        Data::Int(i) if *i >= 1 => *i as u64,
        _ => 999_999_999,
    }
}

fn dataref_num(d: &DataRef) -> u64 {
    match d {
        DataRef::Empty => 0,
        DataRef::Float(f) if *f >= 1.0 && f.fract() == 0.0 => *f as u64,
        DataRef::Int(i) if *i >= 1 => *i as u64,
        _ => 999_999_999,
    }
}

fn dump_range<T: calamine::CellType>(r: &Range<T>, num: impl Fn(&T) -> u64) -> String {
    let se = match (r.start(), r.end()) {
        (Some(s), Some(e)) => format!("S={},{} E={},{}", s.0, s.1, e.0, e.1),
        _ => "S=- E=-".to_string(),
    };
    let rows: Vec<String> = r.rows().map(|row| row.iter().map(|v| num(v).to_string()).collect::<Vec<_>>().join(",")).collect();
    format!("{se} ROWS={}", rows.join("/"))
}

fn cols_text(cols: &[String]) -> String {
    if cols.is_empty() {
        ".".into()
    } else {
        cols.iter().map(|c| hex(c.as_bytes())).collect::<Vec<_>>().join(":")
    }
}

/// everything C17 observes of an opened workbook, as text
#[derive(Default, Debug, Clone, PartialEq)]
struct XView {
    open: String,
    mregions: String,
    by_sheet: Vec<String>,
    wmc: Vec<String>,
    wmc_at: Vec<String>,
    names: String,
    in_sheet: Vec<String>,
    /// per table name: `name,sheet,cols | data dump`
    tables: Vec<String>,
    tables_ref: Vec<String>,
    /// `Range::from(table)` per table name: the dump of the range (or the lookup's error)
    into_range: Vec<String>,
    /// `worksheet_merge_cells_at(number of sheets)`
    wmc_at_end: String,
    /// per table name: is the borrowed table, cell-wise converted, equal to the owned one?
    ref_conv: Vec<String>,
}

fn region_text(l: &[(String, String, ((u32, u32), (u32, u32)))]) -> String {
    if l.is_empty() {
        "-".into()
    } else {
        l.iter().map(|(n, p, d)| format!("{},{},{}", hex(n.as_bytes()), hex(p.as_bytes()), show_rect(d.0, d.1))).collect::<Vec<_>>().join(";")
    }
}

fn names_text(l: &[String]) -> String {
    if l.is_empty() {
        "-".into()
    } else {
        l.iter().map(|n| hex(n.as_bytes())).collect::<Vec<_>>().join(";")
    }
}

fn impl_xlsx(bytes: &[u8], spec: &XlsxSpec, table_names: &[String]) -> XView {
    let mut v = XView::default();
    let mut wb: Xlsx<_> = match guarded(|| Xlsx::new(Cursor::new(bytes.to_vec()))) {
        Ok(Ok(w)) => w,
        Ok(Err(e)) => {
            v.open = format!("open-err:{e:?}");
            return v;
        }
        Err(_) => {
            v.open = "open-panic".into();
            return v;
        }
    };
    v.open = "ok".into();
    v.mregions = match guarded(|| wb.load_merged_regions()) {
        Ok(Ok(())) => {
            let l: Vec<_> = wb.merged_regions().iter().map(|(n, p, d)| (n.clone(), p.clone(), (d.start, d.end))).collect();
            for sh in &spec.sheets {
                let bs: Vec<_> = wb.merged_regions_by_sheet(&sh.name).iter().map(|(n, p, d)| ((*n).clone(), (*p).clone(), (d.start, d.end))).collect();
                v.by_sheet.push(region_text(&bs));
            }
            format!("ok {}", region_text(&l))
        }
        Ok(Err(e)) => err_tag(&e),
        Err(_) => "panic".into(),
    };
    let wmc_text = |r: Result<Option<Result<Vec<calamine::Dimensions>, XlsxError>>, String>| match r {
        Ok(None) => "none".to_string(),
        Ok(Some(Ok(l))) => format!("ok {}", show_rects(&l.iter().map(|d| (d.start, d.end)).collect::<Vec<_>>())),
        Ok(Some(Err(e))) => err_tag(&e),
        Err(_) => "panic".to_string(),
    };
    for (i, sh) in spec.sheets.iter().enumerate() {
        v.wmc.push(wmc_text(guarded(|| wb.worksheet_merge_cells(&sh.name))));
        v.wmc_at.push(wmc_text(guarded(|| wb.worksheet_merge_cells_at(i))));
    }
    v.wmc_at_end = wmc_text(guarded(|| wb.worksheet_merge_cells_at(spec.sheets.len())));
    match guarded(|| wb.load_tables()) {
        Ok(Ok(())) => {
            let names: Vec<String> = wb.table_names().into_iter().cloned().collect();
            v.names = format!("ok {}", names_text(&names));
            for sh in &spec.sheets {
                let l: Vec<String> = wb.table_names_in_sheet(&sh.name).into_iter().cloned().collect();
                v.in_sheet.push(names_text(&l));
            }
            for n in table_names {
                v.tables.push(match guarded(|| wb.table_by_name(n)) {
                    Ok(Ok(t)) => format!(
                        "{},{},{} | {}",
                        hex(t.name().as_bytes()),
                        hex(t.sheet_name().as_bytes()),
                        cols_text(t.columns()),
                        dump_range(t.data(), data_num)
                    ),
                    Ok(Err(e)) => err_tag(&e),
                    Err(_) => "panic".into(),
                });
                v.tables_ref.push(match guarded(|| {
                    wb.table_by_name_ref(n).map(|t| {
                        format!(
                            "{},{},{} | {}",
                            hex(t.name().as_bytes()),
                            hex(t.sheet_name().as_bytes()),
                            cols_text(t.columns()),
                            dump_range(t.data(), dataref_num)
                        )
                    })
                }) {
                    Ok(Ok(s)) => s,
                    Ok(Err(e)) => err_tag(&e),
                    Err(_) => "panic".into(),
                });
                // `impl From<Table<T>> for Range<T>`
                v.into_range.push(match guarded(|| {
                    wb.table_by_name(n).map(|t| {
                        let r: Range<Data> = t.into();
                        dump_range(&r, data_num)
                    })
                }) {
                    Ok(Ok(s)) => s,
                    Ok(Err(e)) => err_tag(&e),
                    Err(_) => "panic".into(),
                });
                // the borrowed table, converted cell by cell with `Data::from(DataRef)`, is the owned table
                let owned: Option<(Option<(u32, u32)>, Option<(u32, u32)>, Vec<Data>)> = guarded(|| {
                    wb.table_by_name(n).ok().map(|t| (t.data().start(), t.data().end(), t.data().cells().map(|c| c.2.clone()).collect()))
                })
                .ok()
                .flatten();
                let conv: Option<(Option<(u32, u32)>, Option<(u32, u32)>, Vec<Data>)> = guarded(|| {
                    wb.table_by_name_ref(n).ok().map(|t| (t.data().start(), t.data().end(), t.data().cells().map(|c| Data::from(c.2.clone())).collect()))
                })
                .ok()
                .flatten();
                v.ref_conv.push(if owned == conv { "same".into() } else { format!("differs: owned {:?} / from ref {:?}", owned.map(|o| (o.0, o.1, o.2.len())), conv.map(|o| (o.0, o.1, o.2.len()))) });
            }
        }
        Ok(Err(e)) => v.names = err_tag(&e),
        Err(_) => v.names = "panic".into(),
    }
    v
}

/// attribute values as `read_table_metadata` sees them: `displayName` and `tableColumn name` unescaped
/// (after the fix found by this check), everything else raw. `ref`, counts and relationship attributes
/// never contain characters that need escaping, so the event list is sent as it was written.
fn wire(evs: &[Ev]) -> String {
    xlsxw::ev_wire(evs)
}

fn model_xlsx(b: &BuiltX, spec: &XlsxSpec, table_names: &[String], drv: &mut Driver, mode: &str) -> XView {
    let mut v = XView { open: "ok".into(), ..Default::default() };
    // merged regions: the Lean `mergedRegions`, `mergedRegionsBySheet`, `worksheetMergeCellsByName`, `worksheetMergeCellsAt`
    let mut req = format!("sheetsview {mode}");
    for (i, sh) in spec.sheets.iter().enumerate() {
        req.push_str(&format!(" S {} {} {} |", hex(sh.name.as_bytes()), hex(b.sheet_paths[i].as_bytes()), wire(&b.sheet_events[i])));
    }
    let reply = drv.ask(&req);
    let parts: Vec<&str> = reply.split(" ## ").collect();
    if parts.len() != 5 {
        v.mregions = format!("driver-protocol:{reply}");
        return v;
    }
    let list = |s: &str| -> Vec<String> { s.split(" ;; ").map(|x| x.to_string()).collect() };
    v.mregions = parts[0].to_string();
    if v.mregions.starts_with("ok") {
        v.by_sheet = list(parts[1]);
    }
    v.wmc = list(parts[2]);
    v.wmc_at = list(parts[3]);
    v.wmc_at_end = parts[4].to_string();
    // tables: the Lean `readTableMetadata`, `tableNames`, `tableNamesInSheet`, `tableByName`, `Table.toRange`
    let mut req = format!("tablesview {mode}");
    for (i, sh) in spec.sheets.iter().enumerate() {
        req.push_str(&format!(" S {} {} {} |", hex(sh.name.as_bytes()), hex(b.sheet_paths[i].as_bytes()), cells_wire(&sh.cells)));
    }
    req.push_str(" ||");
    for (n, evs) in &b.parts {
        req.push_str(&format!(" P {} {} |", hex(n.as_bytes()), wire(evs)));
    }
    req.push_str(" || N");
    for n in table_names {
        req.push_str(&format!(" {}", hex(n.as_bytes())));
    }
    let reply = drv.ask(&req);
    let parts: Vec<&str> = reply.split(" ## ").collect();
    if parts.len() != 4 {
        v.names = reply; // err:… / panic of read_table_metadata
        return v;
    }
    v.names = format!("ok {}", parts[1]);
    v.in_sheet = list(parts[2]);
    for t in list(parts[3]) {
        let seg: Vec<&str> = t.split(" | ").collect();
        if seg.len() == 3 {
            v.tables.push(format!("{} | {}", seg[0], seg[1]));
            v.tables_ref.push(format!("{} | {}", seg[0], seg[1]));
            v.into_range.push(seg[2].to_string());
        } else {
            v.tables.push(t.clone());
            v.tables_ref.push(t.clone());
            v.into_range.push(t);
        }
    }
    v
}

fn cells_wire(cells: &[[u32; 3]]) -> String {
    let m: BTreeMap<(u32, u32), u32> = cells.iter().map(|c| ((c[0], c[1]), c[2])).collect();
    if m.is_empty() {
        "-".into()
    } else {
        m.iter().map(|((r, c), v)| format!("{r}:{c}:{v}")).collect::<Vec<_>>().join(",")
    }
}

/// the property as stated: the declared geometry. `None` fields = the declaration is not a valid one
/// (malformed / reversed reference, a table without data rows, an `insertRow` table): no expectation.
fn oracle_xlsx(b: &BuiltX, spec: &XlsxSpec, table_names: &[String]) -> (Option<XView>, Vec<Option<String>>) {
    let mut v = XView { open: "ok".into(), ..Default::default() };
    let wellformed = |m: &Merge| m.raw.is_none() && m.r[0] <= m.r[2] && m.r[1] <= m.r[3];
    let all_ok = spec.sheets.iter().all(|s| s.merges.iter().all(wellformed));
    let mut all = vec![];
    for (i, sh) in spec.sheets.iter().enumerate() {
        let mine: Vec<_> = sh.merges.iter().map(|m| (sh.name.clone(), b.sheet_paths[i].clone(), ((m.r[0], m.r[1]), (m.r[2], m.r[3])))).collect();
        v.by_sheet.push(region_text(&mine));
        let w = format!("ok {}", show_rects(&mine.iter().map(|x| x.2).collect::<Vec<_>>()));
        v.wmc.push(w.clone());
        v.wmc_at.push(w);
        all.extend(mine);
    }
    v.mregions = format!("ok {}", region_text(&all));
    // tables in sheet order, then relationship order (= declaration order within a sheet)
    let mut order: Vec<&TableSpec> = vec![];
    for i in 0..spec.sheets.len() {
        order.extend(spec.tables.iter().filter(|t| t.sheet == i));
    }
    let names: Vec<String> = order.iter().map(|t| t.name.clone()).collect();
    v.names = format!("ok {}", names_text(&names));
    for (i, _) in spec.sheets.iter().enumerate() {
        let l: Vec<String> = order.iter().filter(|t| t.sheet == i).map(|t| t.name.clone()).collect();
        v.in_sheet.push(names_text(&l));
    }
    let mut per_table = vec![];
    for n in table_names {
        let t = match spec.tables.iter().find(|t| &t.name == n) {
            Some(t) => t,
            None => {
                per_table.push(Some("err:TableNotFound".to_string()));
                continue;
            }
        };
        let h = t.hdr.unwrap_or(1);
        let tot = t.tot.unwrap_or(0);
        let ins = matches!(t.ins.as_deref(), Some("1") | Some("true"));
        let valid = h <= 1 && tot <= 1 && !ins && t.rr.is_none() && t.r[0] <= t.r[2] && t.r[1] <= t.r[3];
        if !valid {
            per_table.push(None);
            continue;
        }
        let sh = &spec.sheets[t.sheet];
        if t.r[0] as u64 + h as u64 + tot as u64 > t.r[2] as u64 {
            // header and totals rows leave no data row: the table is reported, with an empty data range
            per_table.push(Some(format!("{},{},{} | S=- E=- ROWS=", hex(t.name.as_bytes()), hex(sh.name.as_bytes()), cols_text(&t.cols))));
            continue;
        }
        let (sr, er) = (t.r[0] + h, t.r[2] - tot);
        let m: BTreeMap<(u32, u32), u32> = sh.cells.iter().map(|c| ((c[0], c[1]), c[2])).collect();
        let rows: Vec<String> = (sr..=er)
            .map(|r| (t.r[1]..=t.r[3]).map(|c| m.get(&(r, c)).copied().unwrap_or(0).to_string()).collect::<Vec<_>>().join(","))
            .collect();
        per_table.push(Some(format!(
            "{},{},{} | S={},{} E={},{} ROWS={}",
            hex(t.name.as_bytes()),
            hex(sh.name.as_bytes()),
            cols_text(&t.cols),
            sr,
            t.r[1],
            er,
            t.r[3],
            rows.join("/")
        )));
    }
    (if all_ok { Some(v.clone()) } else { Some(XView { mregions: String::new(), by_sheet: vec![], wmc: vec![], wmc_at: vec![], ..v }) }, per_table)
}

/// `(head, cols, dims, rows)` of a full table observation `name,sheet,cols | S=.. E=.. ROWS=..`
fn table_parts(s: &str) -> Option<(String, String, String, String)> {
    let (meta, data) = s.split_once(" | ")?;
    let mut m = meta.rsplitn(2, ',');
    let cols = m.next()?.to_string();
    let head = m.next()?.to_string();
    let (dims, rows) = data.split_once(" ROWS=")?;
    Some((head, cols, dims.to_string(), rows.to_string()))
}

/// one table, three views: component-wise comparison so that every cause has its own signature
fn judge_table(out: &mut Outcome, t: Option<&TableSpec>, imp: &str, model: &str, expect: Option<&str>) {
    let abs = if t.map(|t| t.abs).unwrap_or(false) { ":abs" } else { "" };
    let (pi, pm) = (table_parts(imp), table_parts(model));
    let pe = expect.map(table_parts);
    if pi.is_none() || pm.is_none() || matches!(pe, Some(None)) {
        judge(out, &format!("table.lookup{abs}"), imp, model, expect);
        return;
    }
    let (pi, pm, pe) = (pi.unwrap(), pm.unwrap(), pe.map(|p| p.unwrap()));
    let t = t.expect("a full observation belongs to a declared table");
    let esc = if t.cols.iter().any(|c| c.chars().any(|ch| "&<>\"'".contains(ch))) { ":esc" } else { "" };
    let geo = format!(
        "table.geometry:hdr={},tot={}{}",
        t.hdr.map(|h| h.to_string()).unwrap_or("absent".into()),
        t.tot.map(|h| h.to_string()).unwrap_or("absent".into()),
        t.ins.as_ref().map(|v| format!(",insertRow={v}")).unwrap_or_default()
    );
    judge(out, "table.identity", &pi.0, &pm.0, pe.as_ref().map(|p| p.0.as_str()));
    judge(out, &format!("table.columns{esc}"), &pi.1, &pm.1, pe.as_ref().map(|p| p.1.as_str()));
    judge(out, &geo, &pi.2, &pm.2, pe.as_ref().map(|p| p.2.as_str()));
    let same_dims = pi.2 == pm.2 && pe.as_ref().map(|p| p.2 == pi.2).unwrap_or(true);
    if same_dims {
        judge(out, "table.values", &pi.3, &pm.3, pe.as_ref().map(|p| p.3.as_str()));
    }
}

fn eval_xlsx(spec: &XlsxSpec, drv: &mut Driver, mode: &str) -> Outcome {
    let mut out = Outcome::default();
    let b = build_xlsx(spec);
    let mut table_names: Vec<String> = spec.tables.iter().map(|t| t.name.clone()).collect();
    table_names.push("NoSuchTable".into());
    let imp = impl_xlsx(&b.bytes, spec, &table_names);
    if imp.open != "ok" {
        fail(&mut out, "impl_vs_spec", "xlsx.open", &format!("{} [{}]", imp.open, b.layout), "", "ok");
        return out;
    }
    let model = model_xlsx(&b, spec, &table_names, drv, mode);
    let (orc, per_table) = oracle_xlsx(&b, spec, &table_names);
    let orc = orc.unwrap();
    let regions_expected = !orc.mregions.is_empty();
    judge(&mut out, "xlsx.merged_regions", &imp.mregions, &model.mregions, if regions_expected { Some(&orc.mregions) } else { None });
    for i in 0..spec.sheets.len() {
        let g = |v: &Vec<String>| v.get(i).cloned().unwrap_or_else(|| "(absent)".into());
        if imp.mregions.starts_with("ok") {
            judge(&mut out, "xlsx.merged_regions_by_sheet", &g(&imp.by_sheet), &g(&model.by_sheet), if regions_expected { Some(&orc.by_sheet[i]) } else { None });
        }
        judge(&mut out, "xlsx.worksheet_merge_cells", &g(&imp.wmc), &g(&model.wmc), if regions_expected { Some(&orc.wmc[i]) } else { None });
        judge(&mut out, "xlsx.worksheet_merge_cells_at", &g(&imp.wmc_at), &g(&model.wmc_at), if regions_expected { Some(&orc.wmc_at[i]) } else { None });
    }
    judge(&mut out, "xlsx.worksheet_merge_cells_at", &imp.wmc_at_end, &model.wmc_at_end, Some("none"));
    // tables: the name lists are expected whenever every table declaration parses (always, here)
    // an unparsable `ref` makes load_tables return Err for the workbook: no expectation then
    let tables_loadable = spec.tables.iter().all(|t| t.rr.is_none());
    let any_abs = spec.tables.iter().any(|t| t.abs);
    let names_sig = if any_abs { "table.names:abs" } else { "table.names" };
    judge(&mut out, names_sig, &imp.names, &model.names, if tables_loadable { Some(&orc.names) } else { None });
    if imp.names == "panic" {
        fail(&mut out, "impl_vs_spec", "table.no_panic", &imp.names, &model.names, "Ok or Err");
    }
    if imp.names.starts_with("ok") {
        for i in 0..spec.sheets.len() {
            let g = |v: &Vec<String>| v.get(i).cloned().unwrap_or_else(|| "(absent)".into());
            judge(&mut out, if any_abs { "table.names_in_sheet:abs" } else { "table.names_in_sheet" }, &g(&imp.in_sheet), &g(&model.in_sheet), if tables_loadable { Some(&orc.in_sheet[i]) } else { None });
        }
        for (k, n) in table_names.iter().enumerate() {
            let t = spec.tables.iter().find(|t| &t.name == n);
            let g = |v: &Vec<String>| v.get(k).cloned().unwrap_or_else(|| "(absent)".into());
            let exp = per_table[k].as_deref();
            judge_table(&mut out, t, &g(&imp.tables), &g(&model.tables), exp);
            // robustness (shared with C06): whatever the declaration, a lookup returns, it never unwinds
            if g(&imp.tables) == "panic" || g(&imp.tables_ref) == "panic" {
                fail(&mut out, "impl_vs_spec", "table.no_panic", &g(&imp.tables), &g(&model.tables), "Ok or Err");
            }
            // `Range::from(table)` is the table's data
            let data_of = |s: &str| s.split_once(" | ").map(|x| x.1.to_string()).unwrap_or_else(|| s.to_string());
            judge(&mut out, "table.into_range", &g(&imp.into_range), &g(&model.into_range), Some(&data_of(&g(&imp.tables))));
            if g(&imp.ref_conv) != "same" {
                fail(&mut out, "impl_vs_spec", "table.by_name_ref_conversion", &g(&imp.ref_conv), "", "same");
            }
            // the borrowed variant must observe exactly what the owned one does
            if g(&imp.tables_ref) != g(&imp.tables) {
                fail(&mut out, "impl_vs_spec", "table.by_name_ref_differs", &g(&imp.tables_ref), &g(&model.tables_ref), &g(&imp.tables));
            }
        }
    }
    let nm: usize = spec.sheets.iter().map(|s| s.merges.len()).sum();
    out.nontrivial = nm + spec.tables.len() >= 1;
    out.counters.push(format!("xlsx.sheets={}", spec.sheets.len()));
    out.counters.push(format!("xlsx.regions={}", match nm { 0 => "0", 1..=3 => "1-3", 4..=8 => "4-8", _ => "9+" }));
    out.counters.push(format!("xlsx.tables={}", spec.tables.len()));
    for t in &spec.tables {
        let area = (t.r[2] as u64 - t.r[0] as u64 + 1) * (t.r[3] as u64 - t.r[1] as u64 + 1);
        out.counters.push(format!("table.cells={}", if area >= 4096 { ">=4096" } else { "<4096" }));
    }
    if spec.sheets.iter().any(|s| s.kids != 0) {
        out.counters.push("xlsx.other_worksheet_children".into());
    }
    for t in &spec.tables {
        out.counters.push(format!("table.hdr={},tot={}", t.hdr.map(|h| h.to_string()).unwrap_or("default".into()), t.tot.map(|h| h.to_string()).unwrap_or("default".into())));
        out.counters.push(format!("table.target={}", if t.abs { "absolute" } else { "relative" }));
        let sh = &spec.sheets[t.sheet];
        out.counters.push(format!("table.position={}", position_class(&sh.cells, t.r)));
    }
    if !regions_expected {
        out.counters.push("xlsx.malformed_ref".into());
    }
    out
}

fn position_class(cells: &[[u32; 3]], r: [u32; 4]) -> &'static str {
    if cells.is_empty() {
        return "empty-sheet";
    }
    let r0 = cells.iter().map(|c| c[0]).min().unwrap();
    let r1 = cells.iter().map(|c| c[0]).max().unwrap();
    let c0 = cells.iter().map(|c| c[1]).min().unwrap();
    let c1 = cells.iter().map(|c| c[1]).max().unwrap();
    if r[0] >= r0 && r[2] <= r1 && r[1] >= c0 && r[3] <= c1 {
        "inside"
    } else if r[2] < r0 || r[0] > r1 || r[3] < c0 || r[1] > c1 {
        "outside"
    } else {
        "overlapping"
    }
}

// ------------------------------------------------------------------------------------------------
// xls files
// ------------------------------------------------------------------------------------------------

fn mc_payload(l: &[[u32; 4]]) -> Vec<u8> {
    let mut d = (l.len() as u16).to_le_bytes().to_vec();
    for r in l {
        for x in [r[0], r[2], r[1], r[3]] {
            d.extend_from_slice(&(x as u16).to_le_bytes());
        }
    }
    d
}

fn eval_xls(spec: &XlsSpec, drv: &mut Driver) -> Outcome {
    let mut out = Outcome::default();
    let mut rng = Rng::new(spec.seed);
    let mut book = XlsBook::new();
    let mut model_reqs = vec![];
    for sh in &spec.sheets {
        let mut xs = XlsSheet::new(&sh.name);
        xs.kind = sh.kind;
        let mut recs: Vec<String> = vec![];
        for it in &sh.items {
            match it {
                XlsItem::C(c) => {
                    xs.cells.push(XlsCell::new(c[0] as u16, c[1] as u16, CellV::Number(c[2] as f64)));
                    recs.push(format!("{}:-", xlsw::NUMBER)); // the payload of a cell record is irrelevant to the merge model
                }
                XlsItem::M(l) => {
                    let p = mc_payload(l);
                    // the Lean encoder must produce the same record the harness writes
                    let enc = drv.ask(&format!("encmc {}", if l.is_empty() { "-".to_string() } else { l.iter().map(|r| format!("{},{},{},{}", r[0], r[1], r[2], r[3])).collect::<Vec<_>>().join(";") }));
                    if enc != hex(&p) {
                        fail(&mut out, "model_vs_spec", "xls.encoder", &hex(&p), &enc, "");
                    }
                    recs.push(format!("{}:{}", xlsw::MERGECELLS, hex(&p)));
                    xs.cells.push(XlsCell::raw(xlsw::MERGECELLS, p));
                }
                XlsItem::R(t, h) => {
                    recs.push(format!("{}:{}", t, h));
                    xs.cells.push(XlsCell::raw(*t, unhex(h)));
                }
            }
        }
        model_reqs.push(format!("xlssheet {}", if recs.is_empty() { "10:-".to_string() } else { recs.join(" ") }));
        book.sheets.push(xs);
    }
    book.substream_order = spec.order.clone();
    let bytes = if spec.dual != 0 {
        let wbs = book.workbook_stream(&mut rng);
        let mut copy = book.clone();
        for sh in &mut copy.sheets {
            sh.cells.retain(|c| !matches!(&c.v, CellV::Raw(t, _) if *t == xlsw::MERGECELLS));
        }
        let decoy = copy.workbook_stream(&mut rng);
        let mut opts = if spec.seed == 0 { verif_harness::cfbw::CfbOpts::default() } else { verif_harness::cfbw::CfbOpts::random(&mut rng) };
        opts.dir_shuffle = false;
        if wbs.len() >= 4096 || decoy.len() >= 4096 || wbs.is_empty() {
            opts.sector_size = 512;
        }
        let streams: Vec<(String, Vec<u8>)> =
            if spec.dual == 1 { vec![("Book".into(), decoy), ("Workbook".into(), wbs)] } else { vec![("Workbook".into(), wbs), ("Book".into(), decoy)] };
        verif_harness::cfbw::write_cfb(&streams, &opts, &mut rng)
    } else if spec.seed == 0 {
        book.to_bytes_plain(&mut rng)
    } else {
        book.to_bytes(&mut rng)
    };
    let wb: Xls<_> = match guarded(|| Xls::new(Cursor::new(bytes))) {
        Ok(Ok(w)) => w,
        Ok(Err(e)) => {
            fail(&mut out, "impl_vs_spec", "xls.open", &format!("open-err:{e:?}"), "", "ok");
            return out;
        }
        Err(_) => {
            fail(&mut out, "impl_vs_spec", "xls.open", "open-panic", "", "ok");
            return out;
        }
    };
    // workbook level in Lean: the map the sheet loop fills, `xlsWorksheetMergeCells` and `worksheetMergeCellsAt`
    let book_req = format!(
        "xlsbook {}",
        spec.sheets.iter().zip(&model_reqs).map(|(sh, r)| format!("{} {}", hex(sh.name.as_bytes()), r.trim_start_matches("xlssheet "))).collect::<Vec<_>>().join(" | ")
    );
    let book_reply = drv.ask(&book_req);
    let (book_by_name, book_at): (Vec<String>, Vec<String>) = match book_reply.split_once(" ## ") {
        Some((a, b)) => (a.split(" ;; ").map(|x| x.to_string()).collect(), b.split(" ;; ").map(|x| x.to_string()).collect()),
        None => (vec![book_reply.clone()], vec![book_reply.clone()]),
    };
    let mut total = 0;
    for (i, sh) in spec.sheets.iter().enumerate() {
        let show = |r: Option<Vec<calamine::Dimensions>>| match r {
            None => "none".to_string(),
            Some(l) => format!("ok {}", show_rects(&l.iter().map(|d| (d.start, d.end)).collect::<Vec<_>>())),
        };
        let imp = guarded(|| wb.worksheet_merge_cells(&sh.name)).map(show).unwrap_or("panic".into());
        let imp_at = guarded(|| wb.worksheet_merge_cells_at(i)).map(show).unwrap_or("panic".into());
        let model = drv.ask(&model_reqs[i]);
        let declared: Vec<((u32, u32), (u32, u32))> = sh
            .items
            .iter()
            .flat_map(|it| match it {
                XlsItem::M(l) => l.iter().map(|r| ((r[0], r[1]), (r[2], r[3]))).collect::<Vec<_>>(),
                _ => vec![],
            })
            .collect();
        total += declared.len();
        let exp = format!("ok {}", show_rects(&declared));
        judge(&mut out, "xls.worksheet_merge_cells", &imp, &model, Some(&exp));
        judge(&mut out, "xls.worksheet_merge_cells_at", &imp_at, &model, Some(&exp));
        let g = |v: &Vec<String>| v.get(i).cloned().unwrap_or_else(|| "(absent)".into());
        judge(&mut out, "xls.worksheet_merge_cells:book", &imp, &g(&book_by_name), Some(&exp));
        judge(&mut out, "xls.worksheet_merge_cells_at:book", &imp_at, &g(&book_at), Some(&exp));
    }
    {
        let n = spec.sheets.len();
        let imp_end = guarded(|| wb.worksheet_merge_cells_at(n)).map(|r| if r.is_none() { "none".to_string() } else { "some".to_string() }).unwrap_or("panic".into());
        let model_end = book_at.get(n).cloned().unwrap_or_else(|| "(absent)".into());
        judge(&mut out, "xls.worksheet_merge_cells_at:end", &imp_end, &model_end, Some("none"));
    }
    let imp_none = guarded(|| wb.worksheet_merge_cells("No such sheet")).map(|r| r.is_none().to_string()).unwrap_or("panic".into());
    if imp_none != "true" {
        fail(&mut out, "impl_vs_spec", "xls.unknown_sheet", &imp_none, "", "true");
    }
    out.nontrivial = total >= 1;
    out.counters.push(format!("xls.sheets={}", spec.sheets.len()));
    out.counters.push(format!("xls.regions={}", match total { 0 => "0", 1..=3 => "1-3", 4..=8 => "4-8", 9..=100 => "9-100", _ => "100+" }));
    out
}

// ------------------------------------------------------------------------------------------------
// generators
// ------------------------------------------------------------------------------------------------

const ROWS: [u32; 12] = [0, 0, 1, 2, 8, 9, 98, 99, 65_535, 65_536, 999_999, MAX_ROW];
const COLS: [u32; 14] = [0, 0, 1, 2, 24, 25, 26, 27, 51, 52, 701, 702, 703, MAX_COL];

fn pick_row(rng: &mut Rng) -> u32 {
    match rng.below(4) {
        0 => *rng.pick(&ROWS),
        1 => rng.below(40) as u32,
        _ => rng.below(MAX_ROW as u64 + 1) as u32,
    }
}

fn pick_col(rng: &mut Rng) -> u32 {
    match rng.below(4) {
        0 => *rng.pick(&COLS),
        1 => rng.below(30) as u32,
        _ => rng.below(MAX_COL as u64 + 1) as u32,
    }
}

fn gen_rect(rng: &mut Rng) -> [u32; 4] {
    let (a, b) = (pick_row(rng), pick_row(rng));
    let (c, d) = (pick_col(rng), pick_col(rng));
    if rng.chance(1, 6) {
        [a, c, a, c]
    } else {
        [a.min(b), c.min(d), a.max(b), c.max(d)]
    }
}

fn gen_dim(rng: &mut Rng) -> Vec<u8> {
    let k = rng.below(100);
    if k < 60 {
        let r = gen_rect(rng);
        ref_text(r, rng.chance(1, 3), rng.chance(1, 6)).into_bytes()
    } else if k < 70 {
        // reversed / partly reversed
        let r = gen_rect(rng);
        let r = if rng.chance(1, 2) { [r[2], r[1], r[0], r[3]] } else { [r[0], r[3], r[2], r[1]] };
        ref_text(r, true, false).into_bytes()
    } else if k < 80 {
        // out of the grid, long digit strings, many letters
        let digits = rng.range(1, 13);
        let letters = rng.range(0, 8);
        let mut s: Vec<u8> = (0..letters).map(|_| b'A' + rng.below(26) as u8).collect();
        s.extend((0..digits).map(|i| if i == 0 && rng.chance(1, 2) { b'9' } else { b'0' + rng.below(10) as u8 }));
        if rng.chance(1, 2) {
            s.push(b':');
            s.extend_from_slice(ref_text(gen_rect(rng), false, false).as_bytes());
        }
        s
    } else if k < 90 {
        // mutate a good reference
        let mut s = ref_text(gen_rect(rng), rng.chance(1, 2), false).into_bytes();
        for _ in 0..rng.range(1, 2) {
            let pos = rng.below(s.len() as u64 + 1) as usize;
            match rng.below(3) {
                0 if pos < s.len() => {
                    s.remove(pos);
                }
                1 => s.insert(pos, *rng.pick(&b"$:A1 0z!\xc3"[..])),
                _ if pos < s.len() => s[pos] = *rng.pick(&b"$:Aa09 @[`{/"[..]),
                _ => {}
            }
        }
        s
    } else {
        let pool: [&[u8]; 16] = [b"", b":", b"A", b"1", b"A0", b"0A", b"A1:", b":A1", b"A1:B2:C3", b"A1::B2", b"$A$1", b"A1:B", b"A:B", b"1:2", b"AAAAAAA1", b"A4294967296"];
        rng.pick(&pool).to_vec()
    }
}

fn gen_xlsmc(rng: &mut Rng) -> Vec<u8> {
    let n = match rng.below(100) {
        0..=9 => 0,
        10..=19 => rng.range(9, 40),
        20 => 1027,
        21 => rng.range(41, 1027),
        _ => rng.range(1, 8),
    } as usize;
    let l: Vec<[u32; 4]> = (0..n)
        .map(|_| {
            let v = |rng: &mut Rng, big: u64| -> u32 {
                let x = if rng.chance(1, 4) { *rng.pick(&[0u64, 255, 256, big]) } else { rng.below(big + 1) };
                x as u32
            };
            [v(rng, 65535), v(rng, 65535), v(rng, 65535), v(rng, 65535)]
        })
        .collect();
    let mut p = mc_payload(&l);
    match rng.below(12) {
        0 => {
            // count says more than the payload holds
            let c = n as u16 + rng.range(1, 3) as u16;
            p[0..2].copy_from_slice(&c.to_le_bytes());
        }
        1 => {
            let cut = rng.below(p.len() as u64 + 1) as usize;
            p.truncate(cut);
        }
        2 => {
            let k = rng.range(1, 9) as usize;
            p.extend(rng.bytes(k))
        }
        3 => {
            // count says less
            if n > 0 {
                p[0..2].copy_from_slice(&((n - 1) as u16).to_le_bytes());
            }
        }
        _ => {}
    }
    p
}

const NAMES: [&str; 8] = ["Sheet1", "Data", "Totals & more", "a<b>c", "Übersicht", "S 2", "R'D", "x"];
const COLNAMES: [&str; 12] = ["Name", "Amount", "R&D", "a<b", "x>y", "say \"hi\"", "it's", "Ünï", "col 1", "A&amp;B", "100%", "<>&\"'"];

/// legal `<table>` attributes (CT_Table) that carry no geometry; each with one of its legal values
fn gen_table_attrs(rng: &mut Rng) -> Vec<[String; 2]> {
    const POOL: [(&str, &[&str]); 18] = [
        ("totalsRowShown", &["0", "1", "false", "true"]),
        ("headerRowDxfId", &["0", "3"]),
        ("dataDxfId", &["1", "7"]),
        ("totalsRowDxfId", &["2"]),
        ("headerRowBorderDxfId", &["4"]),
        ("tableBorderDxfId", &["5"]),
        ("totalsRowBorderDxfId", &["6"]),
        ("headerRowCellStyle", &["Heading 1", "R&D <style>"]),
        ("dataCellStyle", &["Normal"]),
        ("totalsRowCellStyle", &["Total"]),
        ("published", &["0", "1"]),
        ("tableType", &["worksheet", "xml", "queryTable"]),
        ("insertRowShift", &["0", "1", "true"]),
        ("comment", &["ref=A1:B2 headerRowCount=0", "x"]),
        ("connectionId", &["1"]),
        ("xr:uid", &["{8A3C9F5B-0000-4000-8000-000000000001}"]),
        ("mc:Ignorable", &["xr xr3"]),
        ("xr3:ref", &["A1:A2"]),
    ];
    if rng.chance(1, 4) {
        return vec![];
    }
    let mut idx: Vec<usize> = (0..POOL.len()).collect();
    rng.shuffle(&mut idx);
    let n = rng.range(1, 6) as usize;
    idx[..n].iter().map(|i| [POOL[*i].0.to_string(), rng.pick(POOL[*i].1).to_string()]).collect()
}

fn gen_xlsx(rng: &mut Rng) -> XlsxSpec {
    let ns = rng.range(1, 4) as usize;
    let mut names: Vec<&str> = NAMES.to_vec();
    rng.shuffle(&mut names);
    let mut sheets = vec![];
    for i in 0..ns {
        // the used range: a window of at most 12 x 10 cells anywhere in the grid
        let r0 = if rng.chance(1, 2) { rng.below(20) as u32 } else { pick_row(rng).min(MAX_ROW - 12) };
        let c0 = if rng.chance(1, 2) { rng.below(10) as u32 } else { pick_col(rng).min(MAX_COL - 10) };
        let nc = if rng.chance(1, 6) { 0 } else { rng.range(1, 14) };
        let mut cells: BTreeMap<(u32, u32), u32> = BTreeMap::new();
        for k in 0..nc {
            cells.insert((r0 + rng.below(12) as u32, c0 + rng.below(10) as u32), 1 + k as u32 + 100 * i as u32);
        }
        let nm = match rng.below(8) {
            0 | 1 => 0,
            7 => rng.range(9, 30),
            _ => rng.range(1, 8),
        };
        let merges = (0..nm)
            .map(|_| {
                let raw = if rng.chance(1, 250) {
                    Some(rng.pick(&["B2:A1", "A0", "1", "", "A1:B2:C3", "C3:A5", "$A$1:$B$2"]).to_string())
                } else {
                    None
                };
                let f = if rng.chance(1, 2) { 0 } else { rng.below(32) as u8 };
                Merge { r: gen_rect(rng), f, raw }
            })
            .collect();
        sheets.push(SheetSpec {
            name: names[i].to_string(),
            cells: cells.into_iter().map(|((r, c), v)| [r, c, v]).collect(),
            merges,
            mc_empty: rng.chance(1, 10),
            cnt: match rng.below(6) {
                0 => Some(-1),
                1 => Some(*rng.pick(&[0i64, 1, 2, 7, 4_294_967_295])),
                _ => None,
            },
            kids: if rng.chance(1, 3) { 0 } else { rng.below(64) as u8 },
        });
    }
    let nt = if rng.chance(1, 4) { 0 } else { rng.range(1, 4) } as usize;
    let mut tables = vec![];
    for k in 0..nt {
        let sheet = rng.below(ns as u64) as usize;
        let sh = &sheets[sheet];
        let hdr = *rng.pick(&[None, Some(1), Some(1), Some(0), Some(0)]);
        let tot = *rng.pick(&[None, Some(0), Some(1), Some(1)]);
        let ncols = rng.range(1, 6) as u32;
        let data_rows = if rng.chance(1, 25) { 0 } else { rng.range(1, 5) as u32 };
        let h = hdr.unwrap_or(1) + tot.unwrap_or(0) + data_rows;
        // a table without a data row: sometimes the reference is even shorter than header + totals
        let h = if data_rows == 0 && rng.chance(1, 2) { 1 } else { h.max(1) };
        let degenerate_top = data_rows == 0 && rng.chance(1, 2);
        // anchor: inside / overlapping the used range, or anywhere (mostly outside), or the far corner
        let (ar, ac) = if !sh.cells.is_empty() && rng.chance(3, 5) {
            let c = rng.pick(&sh.cells);
            ((c[0] + rng.below(5) as u32).saturating_sub(rng.below(5) as u32), (c[1] + rng.below(4) as u32).saturating_sub(rng.below(4) as u32))
        } else if rng.chance(1, 6) {
            (MAX_ROW + 1 - h, MAX_COL + 1 - ncols)
        } else if rng.chance(1, 6) {
            (0, 0)
        } else {
            (pick_row(rng), pick_col(rng))
        };
        let ar = if degenerate_top { 0 } else { ar.min(MAX_ROW + 1 - h) };
        let ac = ac.min(MAX_COL + 1 - ncols);
        let mut cn: Vec<&str> = COLNAMES.to_vec();
        rng.shuffle(&mut cn);
        let plain = rng.chance(1, 2);
        let cols = (0..ncols as usize).map(|j| if plain { format!("Column{}", j + 1) } else { cn[j].to_string() }).collect();
        tables.push(TableSpec {
            sheet,
            name: format!("Table{}{}", k + 1, rng.pick(&["", "_a", "X"])),
            r: [ar, ac, ar + h - 1, ac + ncols - 1],
            hdr,
            tot,
            ins: if rng.chance(1, 20) { Some(rng.pick(&["0", "1", "0", "false", "true"]).to_string()) } else { None },
            cols,
            abs: rng.chance(1, 4),
            x: gen_table_attrs(rng),
            rr: if rng.chance(1, 40) { Some(rng.pick(&["A", "B2:A1", "C1:A5", "", "A1:B2:C3", "A5:A1", "7", "A1:A"]).to_string()) } else { None },
            alt: if rng.chance(1, 4) { Some(rng.pick(&["Table_legacy", "Other", "t", "Tabelle1"]).to_string()) } else { None },
            ord: if rng.chance(1, 2) { rng.next() | 1 } else { 0 },
            kids: if rng.chance(1, 3) { 0 } else { rng.below(128) as u8 },
        });
    }
    XlsxSpec { layout: if rng.chance(1, 8) { 0 } else { rng.next() | 1 }, sheets, tables, flat: ns == 1 && rng.chance(1, 5) }
}

/// a big table (4096 … ~2^15 cells) on a used range of the same width whose columns are shifted against the
/// table's (or equal, or of another width): the data must still be the cells of the table's own rectangle
fn gen_xlsx_big(rng: &mut Rng) -> XlsxSpec {
    let w = rng.range(2, 12) as u32;
    let more = if rng.chance(1, 4) { 3000 } else { 120 };
    let rows = (4096 + w - 1) / w + rng.below(more) as u32;
    let r0 = if rng.chance(1, 2) { rng.below(30) as u32 } else { pick_row(rng).min(MAX_ROW - rows - 40) };
    let c0 = 2 + if rng.chance(1, 2) { rng.below(20) as u32 } else { pick_col(rng).min(MAX_COL - 40) };
    // used range: rows r0 ..= r0+rows+extra, columns c0 ..= c0+uw-1
    let uw = if rng.chance(3, 4) { w } else { w + rng.range(1, 3) as u32 };
    let extra = rng.below(20) as u32;
    let (ur0, ur1) = (r0, r0 + rows + extra);
    let mut cells: BTreeMap<(u32, u32), u32> = BTreeMap::new();
    cells.insert((ur0, c0), 1);
    cells.insert((ur1, c0 + uw - 1), 2);
    for k in 0..rng.range(8, 40) {
        cells.insert((rng.range(ur0 as u64, ur1 as u64) as u32, c0 + rng.below(uw as u64) as u32), 3 + k as u32);
    }
    // the table: as wide as the used range (mostly), shifted left / right by 0..2 columns, rows overlapping
    let shift = *rng.pick(&[-2i64, -1, -1, 0, 1, 1, 2]);
    let tc0 = (c0 as i64 + shift) as u32;
    let hdr = *rng.pick(&[None, Some(1), Some(0)]);
    let tot = *rng.pick(&[None, Some(0), Some(1)]);
    let tr0 = (ur0 + rng.below(extra as u64 + 1) as u32).saturating_sub(rng.below(3) as u32);
    let tr1 = tr0 + rows - 1 + hdr.unwrap_or(1) + tot.unwrap_or(0);
    let cols = (0..w).map(|j| format!("Column{}", j + 1)).collect();
    let table = TableSpec {
        sheet: 0,
        name: "Big".into(),
        r: [tr0, tc0, tr1, tc0 + w - 1],
        hdr,
        tot,
        ins: None,
        cols,
        abs: rng.chance(1, 4),
        x: vec![],
        rr: None,
        alt: None,
        ord: 0,
        kids: 0,
    };
    let sheet = SheetSpec {
        name: "Big".into(),
        cells: cells.into_iter().map(|((r, c), v)| [r, c, v]).collect(),
        merges: vec![],
        mc_empty: false,
        cnt: None,
        kids: if rng.chance(1, 2) { 0 } else { rng.below(64) as u8 },
    };
    XlsxSpec { layout: if rng.chance(1, 4) { 0 } else { rng.next() | 1 }, sheets: vec![sheet], tables: vec![table], flat: false }
}

fn gen_xls(rng: &mut Rng) -> XlsSpec {
    let ns = rng.range(1, 3) as usize;
    let mut names: Vec<&str> = NAMES.to_vec();
    rng.shuffle(&mut names);
    let mut sheets = vec![];
    for i in 0..ns {
        let r0 = if rng.chance(1, 2) { rng.below(20) as u32 } else { rng.below(65_536 - 12) as u32 };
        let c0 = if rng.chance(1, 2) { rng.below(10) as u32 } else { rng.below(256 - 10) as u32 };
        let mut items = vec![];
        let mut cells: BTreeMap<(u32, u32), u32> = BTreeMap::new();
        for k in 0..rng.below(10) {
            cells.insert((r0 + rng.below(12) as u32, c0 + rng.below(10) as u32), 1 + k as u32);
        }
        for ((r, c), v) in cells {
            items.push(XlsItem::C([r, c, v]));
        }
        let nrec = *rng.pick(&[0u64, 1, 1, 1, 2, 3]);
        for _ in 0..nrec {
            let n = match rng.below(60) {
                0..=4 => 0,
                5 => 1027,
                6 => rng.range(61, 1027),
                7..=11 => rng.range(9, 60),
                _ => rng.range(1, 8),
            };
            let l: Vec<[u32; 4]> = (0..n)
                .map(|_| {
                    let row = |rng: &mut Rng| if rng.chance(1, 4) { *rng.pick(&[0u32, 1, 255, 256, 65_534, 65_535]) } else { rng.below(65_536) as u32 };
                    let col = |rng: &mut Rng| if rng.chance(1, 4) { *rng.pick(&[0u32, 1, 25, 26, 254, 255]) } else { rng.below(256) as u32 };
                    let (a, b, c, d) = (row(rng), row(rng), col(rng), col(rng));
                    [a.min(b), c.min(d), a.max(b), c.max(d)]
                })
                .collect();
            // anywhere among the cell records (Excel writes them after the cell table)
            let pos = if rng.chance(1, 2) { items.len() } else { rng.below(items.len() as u64 + 1) as usize };
            items.insert(pos, XlsItem::M(l));
        }
        if rng.chance(1, 5) {
            // an unrelated record with a payload that looks like a MERGEDCELLS one (SELECTION = 0x001D)
            let pos = rng.below(items.len() as u64 + 1) as usize;
            items.insert(pos, XlsItem::R(0x001D, hex(&mc_payload(&[[1, 1, 2, 2]]))));
        }
        // sheets of other kinds before / between the worksheets
        let kind = if rng.chance(1, 4) { *rng.pick(&[1u8, 2, 2, 6]) } else { 0 };
        sheets.push(XlsSheetSpec { name: names[i].to_string(), items, kind });
    }
    // the substreams need not be stored in tab order
    let order = if ns >= 2 && rng.chance(1, 2) {
        let mut o: Vec<usize> = (0..ns).collect();
        rng.shuffle(&mut o);
        Some(o)
    } else {
        None
    };
    let dual = if rng.chance(1, 5) { rng.range(1, 2) as u8 } else { 0 };
    XlsSpec { seed: if rng.chance(1, 6) { 0 } else { rng.next() | 1 }, sheets, order, dual }
}

// ------------------------------------------------------------------------------------------------
// shrinking (file-level cases): drop tables, regions, cells, sheets while the same finding remains
// ------------------------------------------------------------------------------------------------

fn xlsx_candidates(s: &XlsxSpec) -> Vec<XlsxSpec> {
    let mut v = vec![];
    for k in 0..s.tables.len() {
        let mut c = s.clone();
        c.tables.remove(k);
        v.push(c);
    }
    for i in (0..s.sheets.len()).rev() {
        if s.sheets.len() > 1 && !s.tables.iter().any(|t| t.sheet == i) {
            let mut c = s.clone();
            c.sheets.remove(i);
            for t in &mut c.tables {
                if t.sheet > i {
                    t.sheet -= 1;
                }
            }
            v.push(c);
        }
    }
    for i in 0..s.sheets.len() {
        if s.sheets[i].kids != 0 {
            let mut c = s.clone();
            c.sheets[i].kids = 0;
            v.push(c);
            for b in 0..6 {
                if s.sheets[i].kids & (1 << b) != 0 && s.sheets[i].kids != 1 << b {
                    let mut c = s.clone();
                    c.sheets[i].kids = 1 << b;
                    v.push(c);
                }
            }
        }
        if s.sheets[i].cnt.is_some() {
            let mut c = s.clone();
            c.sheets[i].cnt = None;
            v.push(c);
        }
        if !s.sheets[i].merges.is_empty() {
            let mut c = s.clone();
            c.sheets[i].merges.clear();
            v.push(c);
            for k in 0..s.sheets[i].merges.len() {
                let mut c = s.clone();
                c.sheets[i].merges.remove(k);
                v.push(c);
            }
        }
        if !s.sheets[i].cells.is_empty() {
            let mut c = s.clone();
            c.sheets[i].cells.clear();
            v.push(c);
            for k in 0..s.sheets[i].cells.len() {
                let mut c = s.clone();
                c.sheets[i].cells.remove(k);
                v.push(c);
            }
        }
    }
    for k in 0..s.tables.len() {
        if s.tables[k].cols.len() > 1 {
            let mut c = s.clone();
            c.tables[k].cols.truncate(1);
            c.tables[k].r[3] = c.tables[k].r[1];
            v.push(c);
        }
        if s.tables[k].abs {
            let mut c = s.clone();
            c.tables[k].abs = false;
            v.push(c);
        }
        let t = &s.tables[k];
        if t.rr.is_some() {
            let mut c = s.clone();
            c.tables[k].rr = None;
            v.push(c);
        }
        if t.kids != 0 || t.ord != 0 || t.alt.is_some() {
            let mut c = s.clone();
            c.tables[k].kids = 0;
            c.tables[k].ord = 0;
            c.tables[k].alt = None;
            v.push(c);
        }
        if !t.x.is_empty() {
            let mut c = s.clone();
            c.tables[k].x.clear();
            v.push(c);
            for j in 0..t.x.len() {
                let mut c = s.clone();
                c.tables[k].x.remove(j);
                v.push(c);
            }
        }
    }
    if s.layout != 0 {
        let mut c = s.clone();
        c.layout = 0;
        v.push(c);
    }
    if s.flat {
        let mut c = s.clone();
        c.flat = false;
        v.push(c);
    }
    v
}

fn xls_candidates(s: &XlsSpec) -> Vec<XlsSpec> {
    let mut v = vec![];
    for i in (0..s.sheets.len()).rev() {
        if s.sheets.len() > 1 {
            let mut c = s.clone();
            c.sheets.remove(i);
            if let Some(o) = &mut c.order {
                o.retain(|x| *x != i);
                for x in o.iter_mut() {
                    if *x > i {
                        *x -= 1;
                    }
                }
            }
            v.push(c);
        }
        for k in 0..s.sheets[i].items.len() {
            let mut c = s.clone();
            c.sheets[i].items.remove(k);
            v.push(c);
            if let XlsItem::M(l) = &s.sheets[i].items[k] {
                if l.len() > 1 {
                    let mut c = s.clone();
                    c.sheets[i].items[k] = XlsItem::M(l[..l.len() / 2].to_vec());
                    v.push(c);
                }
            }
        }
    }
    if s.seed != 0 {
        let mut c = s.clone();
        c.seed = 0;
        v.push(c);
    }
    if s.order.is_some() {
        let mut c = s.clone();
        c.order = None;
        v.push(c);
    }
    if s.dual != 0 {
        let mut c = s.clone();
        c.dual = 0;
        v.push(c);
    }
    v
}

fn eval(case: &Case, drv: &mut Driver, mode: &str) -> Outcome {
    match case {
        Case::Dim(b) => eval_dim(b, drv, mode),
        Case::XlsMc(b) => eval_xlsmc(b, drv),
        Case::Xlsx(s) => eval_xlsx(s, drv, mode),
        Case::Xls(s) => eval_xls(s, drv),
    }
}

fn shrink(case: Case, kind: &str, sig: &str, drv: &mut Driver, mode: &str) -> Case {
    let still = |c: &Case, drv: &mut Driver| eval(c, drv, mode).fails.iter().any(|f| f.0 == kind && f.1 == sig);
    let mut cur = case;
    let mut budget = 400;
    loop {
        let cands: Vec<Case> = match &cur {
            Case::Xlsx(s) => xlsx_candidates(s).into_iter().map(Case::Xlsx).collect(),
            Case::Xls(s) => xls_candidates(s).into_iter().map(Case::Xls).collect(),
            _ => vec![],
        };
        let mut improved = false;
        for c in cands {
            if budget == 0 {
                return cur;
            }
            budget -= 1;
            if still(&c, drv) {
                cur = c;
                improved = true;
                break;
            }
        }
        if !improved {
            return cur;
        }
    }
}

// ------------------------------------------------------------------------------------------------
// corpus: every defect this check ever reported, minimal; then boundary cases
// ------------------------------------------------------------------------------------------------

fn corpus() -> Vec<String> {
    let mut v: Vec<String> = vec![
        // D17: totals row subtracted with the header row count (headerRowCount=0, totalsRowCount=1, ref B2:C5)
        r#"xlsx {"layout":0,"sheets":[{"name":"Sheet1","cells":[[1,1,1],[2,1,2],[3,2,3],[4,1,4],[4,2,5]],"merges":[]}],"tables":[{"sheet":0,"name":"Table1","r":[1,1,4,2],"hdr":0,"tot":1,"cols":["a","b"],"abs":false}]}"#.into(),
        // header and totals row, table partly outside the used range
        r#"xlsx {"layout":0,"sheets":[{"name":"Sheet1","cells":[[1,1,1],[2,1,2],[3,2,3]],"merges":[{"r":[0,0,1,1],"f":0}]}],"tables":[{"sheet":0,"name":"Table1","r":[1,1,6,3],"hdr":1,"tot":1,"cols":["a","b","c"],"abs":false}]}"#.into(),
        // column names with XML-special characters
        r#"xlsx {"layout":0,"sheets":[{"name":"Sheet1","cells":[[0,0,1],[1,0,2]],"merges":[]}],"tables":[{"sheet":0,"name":"Table1","r":[0,0,1,0],"hdr":1,"tot":null,"cols":["R&D"],"abs":false}]}"#.into(),
        // absolute relationship target
        r#"xlsx {"layout":0,"sheets":[{"name":"Sheet1","cells":[[0,0,1],[1,0,2]],"merges":[]}],"tables":[{"sheet":0,"name":"Table1","r":[0,0,1,0],"hdr":1,"tot":null,"cols":["a"],"abs":true}]}"#.into(),
        // insertRow="false"
        r#"xlsx {"layout":0,"sheets":[{"name":"Sheet1","cells":[[0,0,1],[1,0,2],[2,0,3]],"merges":[]}],"tables":[{"sheet":0,"name":"Table1","r":[0,0,2,0],"hdr":1,"tot":null,"ins":"false","cols":["a"],"abs":false}]}"#.into(),
        // seeded change C17-m1: totalsRowShown (a UI history flag) must not decide whether the totals row is data
        r#"xlsx {"layout":0,"sheets":[{"name":"Sheet1","cells":[[1,1,1],[2,1,2],[3,1,3],[4,1,4]],"merges":[]}],"tables":[{"sheet":0,"name":"Table1","r":[1,1,4,1],"hdr":0,"tot":1,"cols":["a"],"abs":false,"x":[["totalsRowShown","0"]]}]}"#.into(),
        // every inert attribute / child at once, shuffled attribute order, name != displayName, wrong mergeCells count
        r#"xlsx {"layout":0,"sheets":[{"name":"Sheet1","cells":[[0,0,1],[1,0,2],[2,1,3],[3,0,4]],"merges":[{"r":[5,5,6,6],"f":20},{"r":[7,7,7,7],"f":16}],"cnt":7}],"tables":[{"sheet":0,"name":"Table1","r":[0,0,3,1],"hdr":1,"tot":1,"cols":["a","name"],"abs":false,"x":[["totalsRowShown","false"],["headerRowDxfId","3"],["insertRowShift","1"],["tableType","worksheet"],["published","1"],["xr3:ref","A1:A2"]],"alt":"Other","ord":12345,"kids":61}]}"#.into(),
        // no data row (found by C06's fault search / this check): header + totals only; totals row on a
        // reference ending in row 1; header-only one-row table: reported with an empty data range, no panic
        r#"xlsx {"layout":0,"sheets":[{"name":"Sheet1","cells":[[0,0,1],[1,0,2]],"merges":[]}],"tables":[{"sheet":0,"name":"Table1","r":[0,0,1,0],"hdr":1,"tot":1,"cols":["a"],"abs":false}]}"#.into(),
        r#"xlsx {"layout":0,"sheets":[{"name":"Sheet1","cells":[[0,0,1]],"merges":[]}],"tables":[{"sheet":0,"name":"Table1","r":[0,0,0,1],"hdr":0,"tot":1,"cols":["a","b"],"abs":false}]}"#.into(),
        r#"xlsx {"layout":0,"sheets":[{"name":"Sheet1","cells":[[3,3,1]],"merges":[]}],"tables":[{"sheet":0,"name":"Table1","r":[3,3,3,3],"hdr":null,"tot":null,"cols":["a"],"abs":false},{"sheet":0,"name":"Table2","r":[0,0,0,0],"hdr":1,"tot":1,"ins":"1","cols":["a"],"abs":false}]}"#.into(),
        // garbled and reversed table references: Err or an empty data range, never a panic
        r#"xlsx {"layout":0,"sheets":[{"name":"Sheet1","cells":[[0,0,1]],"merges":[]}],"tables":[{"sheet":0,"name":"Table1","r":[0,0,1,0],"hdr":1,"tot":null,"cols":["a"],"abs":false,"rr":"B2:A1"}]}"#.into(),
        r#"xlsx {"layout":0,"sheets":[{"name":"Sheet1","cells":[[0,0,1]],"merges":[]}],"tables":[{"sheet":0,"name":"Table1","r":[0,0,1,0],"hdr":1,"tot":null,"cols":["a"],"abs":false,"rr":"A"}]}"#.into(),
        // seeded change C17-m6: elements named like later siblings of mergeCells, nested in customSheetViews (which
        // precedes mergeCells), must not end the scan; all other worksheet children at once
        r#"xlsx {"layout":0,"sheets":[{"name":"Sheet1","cells":[],"merges":[{"r":[8,9,29,6634],"f":2}],"kids":4}],"tables":[]}"#.into(),
        r#"xlsx {"layout":0,"sheets":[{"name":"Sheet1","cells":[[0,0,1],[2,2,2]],"merges":[{"r":[0,0,1,1],"f":0},{"r":[3,3,3,5],"f":0}],"kids":63},{"name":"S2","cells":[],"merges":[],"kids":63}],"tables":[{"sheet":0,"name":"Table1","r":[0,0,2,2],"hdr":1,"tot":null,"cols":["a","b","c"],"abs":false}]}"#.into(),
        // seeded change C17-m8: a table of >= 4096 cells as wide as the used range but one column to the left
        r#"xlsx {"layout":0,"sheets":[{"name":"Big","cells":[[9,18,1],[1371,19,16],[1414,20,2]],"merges":[]}],"tables":[{"sheet":0,"name":"Big","r":[15,17,1412,19],"hdr":1,"tot":0,"cols":["Column1","Column2","Column3"],"abs":false}]}"#.into(),
        // the sheet part directly in xl/ (workbook Target "worksheets"): a relative table target has no parent
        // folder inside the archive path and resolves against the package root (was a panic in load_tables)
        r#"xlsx {"layout":0,"sheets":[{"name":"Sheet1","cells":[[0,0,1],[1,0,2]],"merges":[{"r":[2,2,3,3],"f":0}]}],"tables":[{"sheet":0,"name":"Table1","r":[0,0,1,0],"hdr":1,"tot":null,"cols":["a"],"abs":false}],"flat":true}"#.into(),
        r#"xlsx {"layout":0,"sheets":[{"name":"Sheet1","cells":[[0,0,1],[1,0,2]],"merges":[]}],"tables":[{"sheet":0,"name":"Table1","r":[0,0,1,0],"hdr":1,"tot":null,"cols":["a"],"abs":true}],"flat":true}"#.into(),
        // seeded change C17-m15: Alternative Text: `x14:table` (local name `table`) inside extLst after the columns
        r#"xlsx {"layout":0,"sheets":[{"name":"Sheet1","cells":[[0,0,1],[1,0,2],[1,1,3]],"merges":[]}],"tables":[{"sheet":0,"name":"Table1","r":[0,0,1,1],"hdr":1,"tot":null,"cols":["a","b"],"abs":false,"kids":64}]}"#.into(),
        // several sheets, regions at the far corner, attribution
        r#"xlsx {"layout":0,"sheets":[{"name":"A","cells":[],"merges":[{"r":[1048575,16383,1048575,16383],"f":0},{"r":[0,0,1048575,16383],"f":0}]},{"name":"B","cells":[[3,3,7]],"merges":[]},{"name":"C","cells":[],"merges":[{"r":[5,26,9,702],"f":3}],"mc_empty":true}],"tables":[]}"#.into(),
        // seeded change C17-m11: substreams stored in another order than the tabs (each BoundSheet8 points at its own)
        r#"xls {"seed":0,"sheets":[{"name":"S1","items":[{"C":[0,0,1]},{"M":[[0,0,1,1]]}]},{"name":"S2","items":[{"M":[[2,2,3,3],[4,4,4,5]]}]},{"name":"S3","items":[{"C":[1,1,5]},{"M":[[6,0,6,255]]}]}],"order":[2,0,1]}"#.into(),
        // seeded change C17-m14: a chart sheet before the worksheet: index n = the n-th sheet of sheet_names()
        r#"xls {"seed":0,"sheets":[{"name":"Chart1","items":[],"kind":2},{"name":"S1","items":[{"C":[0,0,1]},{"M":[[0,0,1,1]]}]},{"name":"Mod","items":[],"kind":6},{"name":"S2","items":[{"M":[[2,2,3,3]]}]}]}"#.into(),
        // seeded change C17-m17: dual-format file: the `Book` copy (no MERGEDCELLS) before / after `Workbook`
        r#"xls {"seed":0,"sheets":[{"name":"S1","items":[{"C":[0,0,1]},{"M":[[0,0,1,1],[3,3,4,4]]}]},{"name":"S2","items":[{"M":[[2,2,3,3]]}]}],"dual":1}"#.into(),
        r#"xls {"seed":0,"sheets":[{"name":"S1","items":[{"C":[0,0,1]},{"M":[[0,0,1,1]]}]}],"dual":2}"#.into(),
        // xls: two records, regions at IV65536
        r#"xls {"seed":0,"sheets":[{"name":"S1","items":[{"C":[0,0,1]},{"M":[[0,0,1,1],[65535,255,65535,255]]},{"C":[2,2,2]},{"M":[[3,0,3,255]]}]},{"name":"S2","items":[{"M":[]}]}]}"#.into(),
    ];
    for t in ["A1", "XFD1048576", "A1:XFD1048576", "Z1:AA2", "ZZ9:AAA10", "a1:b2", "B2:A1", "A2:A1", "A1:B2:C3", "", "A", "7", "A0", "A99999999999", "AAAAAAAA1", "A1:", "$A$1"] {
        v.push(format!("dim:{}", hex(t.as_bytes())));
    }
    for p in ["-", "00", "0000", "0100", "01000100020003000400", "0200010002000300040005000600", "0100010002000300040099"] {
        v.push(format!("xlsmc:{p}"));
    }
    v
}

fn main() {
    let args = Args::parse();
    let mut drv = Driver::spawn(&args.driver);
    // which arithmetic does the tree have (ledger D30-a / D30-c, planned fix 0027)?
    let sat_arith = !impl_dim(b"A99999999999").unwrap_or_default().starts_with("panic");
    let sat_dim = !impl_dim(b"B2:A1").unwrap_or_default().starts_with("panic");
    let mode = format!("{}{}", if sat_arith { 's' } else { 'c' }, if sat_dim { 's' } else { 'c' });
    let mut rep = Report::new(
        "C17",
        "unit: get_dimension on reference texts (well-formed refs over the whole grid incl. boundary columns \
         Z/AA/ZZ/AAA/XFD and rows, lower case, two-corner single cells; reversed, out-of-grid, mutated and \
         malformed texts: impl vs model only) and xls parse_merge_cells on MERGEDCELLS payloads (0..1027 \
         regions, truncated / over- / under-counted: impl vs model only); file level: generated xlsx (1-4 \
         sheets x 0-30 merged regions anywhere up to XFD1048576, 0-4 tables: inside / overlapping / outside \
         the used range or on an empty sheet, headerRowCount absent/0/1 x totalsRowCount absent/0/1, 1-6 \
         columns with XML-special names, relative and absolute relationship targets, random physical \
         layout, single-sheet workbooks also with the sheet part directly in xl/ (Target = worksheets, table \
         targets resolved against the package root); inert content that must not influence the result: further legal <table> attributes \
         (totalsRowShown, *DxfId, *CellStyle, published, tableType, insertRowShift, comment, prefixed \
         attributes) in shuffled order, name != displayName, autoFilter with filterColumn/sortState refs or \
         absent, tableColumn attributes and formula children, tableStyleInfo absent, extLst, whitespace; \
         mergeCells count wrong or missing, extra attributes before/after a mergeCell ref; the other \
         CT_Worksheet children in schema order around sheetData/mergeCells, customSheetViews nesting \
         pageMargins/printOptions/pageSetup/headerFooter; every 40th file a table of 4096..~2^15 cells on a \
         used range of the same width shifted by -2..2 columns) and xls (1-3 sheets, 0-3 MERGEDCELLS records of 0-1027 regions among the cell records, sheet substreams stored in tab order or permuted, one file in five a dual-format container with a Book copy without MERGEDCELLS before/after Workbook); \
         oracle = the declared regions (count, order, corners, sheet) and for tables name, sheet, columns \
         and the sheet's values over ref minus header/totals rows; no expectation for malformed/reversed \
         refs, and for the geometry of insertRow tables; a table whose header/totals rows leave no \
         data row is reported with an empty data range; no table lookup may panic; non-trivial = a well-formed reference / a \
         complete payload with >= 1 region / a file with >= 1 region or table; distinct by case text",
    );
    rep.notes.push(format!(
        "arithmetic variant detected in the tree and used by the model: get_row_and_optional_column={}, get_dimension spans={}",
        if sat_arith { "saturating" } else { "checked (panics under overflow-checks)" },
        if sat_dim { "saturating" } else { "checked (panics under overflow-checks)" }
    ));
    rep.count(&format!("mode.{mode}"));
    if !cfg!(feature = "hooks") {
        rep.notes.push(
            "built without verif-hooks: no stage skipped; the unit stages get_dimension / xls parse_merge_cells are driven through \
             generated one-region files (Xlsx::load_merged_regions, Xls::new + worksheet_merge_cells); reference texts that cannot \
             stand verbatim in an XML attribute and payloads above 8224 bytes are skipped (counters *.skipped_without_hooks)"
                .into(),
        );
        rep.count("built_without_hooks");
    }
    // one case evaluated: (case, outcome, microseconds)
    let mut shrunk = 0;
    let mut record = |case: Case, out: Outcome, us: u64, rep: &mut Report, drv: &mut Driver| {
        let text = case.text();
        rep.case(&text, out.nontrivial);
        let kind = match &case {
            Case::Dim(_) => "dim",
            Case::XlsMc(_) => "xlsmc",
            Case::Xlsx(_) => "xlsx",
            Case::Xls(_) => "xls",
        };
        rep.count(&format!("case.{kind}"));
        rep.add(&format!("time_us.{kind}"), us);
        for c in &out.counters {
            rep.count(c);
        }
        let mut seen = std::collections::HashSet::new();
        for (kind, sig, i, m, e) in &out.fails {
            if !seen.insert((kind.clone(), sig.clone())) {
                continue;
            }
            if shrunk < 16 && matches!(case, Case::Xlsx(_) | Case::Xls(_)) {
                shrunk += 1;
                let small = shrink(case.clone(), kind, sig, drv, &mode);
                let o2 = eval(&small, drv, &mode);
                if let Some(f) = o2.fails.iter().find(|f| &f.0 == kind && &f.1 == sig) {
                    rep.fail(kind, sig, &small.text(), &f.2, &f.3, &f.4);
                    continue;
                }
            }
            rep.fail(kind, sig, &text, i, m, e);
        }
    };
    if let Some(inp) = &args.replay {
        let case = Case::parse(inp);
        let out = eval(&case, &mut drv, &mode);
        record(case, out, 0, &mut rep, &mut drv);
    } else {
        for c in corpus() {
            let case = Case::parse(&c);
            let out = eval(&case, &mut drv, &mode);
            record(case, out, 0, &mut rep, &mut drv);
        }
        // random cases: SHARDS independent streams (own PRNG, own driver process), evaluated in parallel;
        // the set of cases depends on the seed only, not on scheduling
        const SHARDS: u64 = 8;
        let n = args.count(2000, 100_000);
        let (tx, rx) = std::sync::mpsc::sync_channel::<(Case, Outcome, u64)>(256);
        let mut handles = vec![];
        for sh in 0..SHARDS {
            let tx = tx.clone();
            let driver = args.driver.clone();
            let mode = mode.clone();
            let seed = args.seed;
            let my_n = n / SHARDS + if sh < n % SHARDS { 1 } else { 0 };
            handles.push(std::thread::spawn(move || {
                let mut drv = Driver::spawn(&driver);
                let mut rng = Rng::new(seed.wrapping_mul(1_000_003).wrapping_add(sh));
                let mut send = |case: Case, drv: &mut Driver| {
                    let t0 = std::time::Instant::now();
                    let out = eval(&case, drv, &mode);
                    let _ = tx.send((case, out, t0.elapsed().as_micros() as u64));
                };
                for i in 0..my_n {
                    // per file-level case: 4 unit cases of each kind
                    // every 40th file-level case is a big table (>= 4096 cells) on an equally wide used range
                    let c = if i % 40 == 7 {
                        Case::Xlsx(gen_xlsx_big(&mut rng))
                    } else if i % 5 < 3 {
                        Case::Xlsx(gen_xlsx(&mut rng))
                    } else {
                        Case::Xls(gen_xls(&mut rng))
                    };
                    send(c, &mut drv);
                    for _ in 0..4 {
                        send(Case::Dim(gen_dim(&mut rng)), &mut drv);
                        send(Case::XlsMc(gen_xlsmc(&mut rng)), &mut drv);
                    }
                }
                drv.requests
            }));
        }
        drop(tx);
        for (case, out, us) in rx {
            record(case, out, us, &mut rep, &mut drv);
        }
        for h in handles {
            let r = h.join().expect("shard thread");
            rep.add("driver_requests", r);
        }
    }
    rep.add("driver_requests", drv.requests);
    rep.write(&args.out);
}
