//! C20 — encrypted workbooks are reported as password protected, and only those.
//!
//! Every case is a one-line text description (the replay format); it is run three ways:
//!   impl   : the real readers (`Xlsx::new`, `Xlsb::new`, `Xls::new`, `Ods::new`) on the generated file,
//!   model  : the Lean decision logic (`drv_c20`: `ooxmlCheck` on the file bytes, `xlsGlobalsStream` /
//!            `xlsGlobals` on the workbook stream / its record list, `odsManifest` on the manifest's events),
//!   oracle : the property as stated — the description says whether the workbook is encrypted
//!            (an `EncryptedPackage` stream, a FILEPASS record in the globals, an entry with encryption data).
//!
//! Families (first field of the description):
//!   ooxml;<container knobs>;<streams>                      compound file opened as xlsx and as xlsb
//!   xls;<container knobs>;b<book seed>;<head>;<tail>;scr=<0|1>   BIFF8 workbook, extra globals records
//!   xlsraw;<container knobs>;<pre>;<typ>;<rest>;<post>     globals stream laid out by the Lean encoder `frameAll`
//!   ods;<prolog>;<root>;<gap>;<entries>;cut=<n|->;zip=<0..3>;enc=<0|1>   manifest from a logical description
//!   conv;<xlsx|xlsb|xls|ods>;<seed>                        random unencrypted workbook from the shared writers
//!   fixture;<path>                                         a file of /repo/tests
use calamine::{open_workbook_auto, open_workbook_auto_from_rs, Ods, Reader, Xls, Xlsb, Xlsx};
use std::io::{Cursor, Write};
use verif_harness::cfbw::{write_cfb, CfbOpts};
use verif_harness::{driver::Driver, guarded, hex, odsw, report::Report, rng::Rng, unhex, xlsbw, xlsw, xlsxw, Args};

// ---------------------------------------------------------------------------------------------
// small helpers

fn variant(dbg: String) -> String {
    let v: String = dbg.chars().take_while(|c| c.is_ascii_alphanumeric()).collect();
    if v.is_empty() {
        "Other".into()
    } else {
        v
    }
}

/// outcome class of a reader: `ok` | `password` | `err:<Variant>` | `panic`
fn open_tag<T, E: std::fmt::Debug>(r: Result<Result<T, E>, String>, is_pw: impl Fn(&E) -> bool) -> String {
    match r {
        Err(_) => "panic".into(),
        Ok(Ok(_)) => "ok".into(),
        Ok(Err(e)) => {
            if is_pw(&e) {
                "password".into()
            } else {
                format!("err:{}", variant(format!("{e:?}")))
            }
        }
    }
}

/// the reader is handed over positioned at `pos` (0 = a fresh reader; callers that sniffed the magic bytes or
/// measured the input first hand it over elsewhere): the constructors must not care
fn cur(bytes: &[u8], pos: u64) -> Cursor<&[u8]> {
    let mut c = Cursor::new(bytes);
    c.set_position(pos);
    c
}
fn open_xlsx_at(bytes: &[u8], pos: u64) -> String {
    open_tag(guarded(|| Xlsx::new(cur(bytes, pos))), |e| matches!(e, calamine::XlsxError::Password))
}
fn open_xlsb_at(bytes: &[u8], pos: u64) -> String {
    open_tag(guarded(|| Xlsb::new(cur(bytes, pos))), |e| matches!(e, calamine::XlsbError::Password))
}
fn open_xls_at(bytes: &[u8], pos: u64) -> String {
    open_tag(guarded(|| Xls::new(cur(bytes, pos))), |e| matches!(e, calamine::XlsError::Password))
}
fn open_ods_at(bytes: &[u8], pos: u64) -> String {
    open_tag(guarded(|| Ods::new(cur(bytes, pos))), |e| matches!(e, calamine::OdsError::Password))
}
fn open_xlsx(bytes: &[u8]) -> String {
    open_xlsx_at(bytes, 0)
}
fn open_xlsb(bytes: &[u8]) -> String {
    open_xlsb_at(bytes, 0)
}
fn open_xls(bytes: &[u8]) -> String {
    open_xls_at(bytes, 0)
}
fn open_ods(bytes: &[u8]) -> String {
    open_ods_at(bytes, 0)
}

/// `open_workbook_auto_from_rs` swallows every reader's error: the class is only observed (counter), but it must
/// not depend on where the reader stands either
fn open_auto_rs_at(bytes: &[u8], pos: u64) -> String {
    let mut c = Cursor::new(bytes.to_vec());
    c.set_position(pos);
    match guarded(|| open_workbook_auto_from_rs(c)) {
        Err(_) => "panic".into(),
        Ok(Ok(s)) => format!(
            "ok:{}",
            match s {
                calamine::Sheets::Xls(_) => "xls",
                calamine::Sheets::Xlsx(_) => "xlsx",
                calamine::Sheets::Xlsb(_) => "xlsb",
                calamine::Sheets::Ods(_) => "ods",
            }
        ),
        Ok(Err(e)) => format!("err:{}", variant(format!("{e:?}"))),
    }
}
fn open_auto_rs(bytes: &[u8]) -> String {
    open_auto_rs_at(bytes, 0)
}

/// `open_workbook_auto(path)` dispatches on the extension and keeps the reader's error
fn open_auto_path(bytes: &[u8], ext: &str) -> String {
    let p = std::env::temp_dir().join(format!("c20_{}_{:?}.{ext}", std::process::id(), std::thread::current().id()).replace(['(', ')'], "_"));
    if std::fs::write(&p, bytes).is_err() {
        return "skip".into();
    }
    let r = guarded(|| open_workbook_auto(&p));
    let _ = std::fs::remove_file(&p);
    match r {
        Err(_) => "panic".into(),
        Ok(Ok(_)) => "ok".into(),
        Ok(Err(e)) => {
            let pw = matches!(
                e,
                calamine::Error::Xlsx(calamine::XlsxError::Password)
                    | calamine::Error::Xlsb(calamine::XlsbError::Password)
                    | calamine::Error::Xls(calamine::XlsError::Password)
                    | calamine::Error::Ods(calamine::OdsError::Password)
            );
            if pw {
                "password".into()
            } else {
                format!("err:{}", variant(format!("{e:?}")))
            }
        }
    }
}

/// `x<hex>` | `r<len>.<seed>`
fn bytes_of_spec(s: &str) -> Vec<u8> {
    if s.contains('+') {
        // `<spec>+<spec>`: concatenation (e.g. random cipher text with a chosen tail)
        return s.split('+').flat_map(bytes_of_spec).collect();
    }
    if let Some(h) = s.strip_prefix('x') {
        unhex(if h.is_empty() { "-" } else { h })
    } else if let Some(r) = s.strip_prefix('r') {
        let (l, sd) = r.split_once('.').expect("r<len>.<seed>");
        Rng::new(sd.parse().expect("seed")).bytes(l.parse().expect("len"))
    } else {
        panic!("bad byte spec {s}")
    }
}

fn hexs(s: &str) -> String {
    hex(s.as_bytes())
}
fn unhexs(s: &str) -> String {
    String::from_utf8(unhex(s)).expect("utf8 name")
}

// ---------------------------------------------------------------------------------------------
// container knobs

fn copts_text(o: &CfbOpts, lseed: u64) -> String {
    format!(
        "ss={},sh={},msh={},free={},unused={},dsh={},minfat={},fill={},ng={},pl={},df={},ls={}",
        o.sector_size, o.shuffle as u8, o.mini_shuffle as u8, o.extra_free, o.unused_dirs, o.dir_shuffle as u8, o.min_fat_sectors, o.fill, o.name_garbage as u8, o.placement, o.dir_first as u8, lseed
    )
}

fn copts_parse(s: &str) -> (CfbOpts, u64) {
    let mut o = CfbOpts::default();
    let mut ls = 0;
    for kv in s.split(',') {
        let (k, v) = kv.split_once('=').expect("k=v");
        let n: u64 = v.parse().expect("number");
        match k {
            "ss" => o.sector_size = n as usize,
            "sh" => o.shuffle = n != 0,
            "msh" => o.mini_shuffle = n != 0,
            "free" => o.extra_free = n as usize,
            "unused" => o.unused_dirs = n as usize,
            "dsh" => o.dir_shuffle = n != 0,
            "minfat" => o.min_fat_sectors = n as usize,
            "fill" => o.fill = n as u8,
            "ng" => o.name_garbage = n != 0,
            "pl" => o.placement = n as u8,
            "df" => o.dir_first = n != 0,
            "ls" => ls = n,
            x => panic!("unknown container knob {x}"),
        }
    }
    (o, ls)
}

fn gen_copts(rng: &mut Rng, allow_big: bool) -> String {
    let mut o = CfbOpts::random(rng);
    if o.min_fat_sectors > 0 && !(allow_big && rng.chance(1, 4)) {
        o.min_fat_sectors = 0; // DIFAT files are large (≥ 56 KB / ≥ 450 KB): keep them rare
    }
    if o.min_fat_sectors > 0 && o.sector_size == 4096 && !rng.chance(1, 4) {
        o.sector_size = 512;
        o.min_fat_sectors = 110 + rng.below(60) as usize;
    }
    // where the allocation tables and the directory sit: start (Excel), end, middle of the file
    if rng.chance(1, 4) {
        o.placement = rng.range(1, 2) as u8;
    }
    o.dir_first = rng.chance(1, 6);
    copts_text(&o, rng.next() >> 16)
}

// ---------------------------------------------------------------------------------------------
// what a case produced

#[derive(Default)]
struct Outcome {
    /// (kind, sig, impl, model, expect)
    fails: Vec<(String, String, String, String, String)>,
    nontrivial: bool,
    counters: Vec<String>,
}

impl Outcome {
    fn fail(&mut self, kind: &str, sig: &str, i: &str, m: &str, e: &str) {
        self.fails.push((kind.into(), sig.into(), i.into(), m.into(), e.into()));
    }
    fn count(&mut self, k: impl Into<String>) {
        self.counters.push(k.into());
    }
}

/// impl outcome class vs model outcome class of a password check
/// (model `pass` = the check let the file through: the reader may then succeed or fail otherwise)
fn agree(impl_tag: &str, model_tag: &str) -> bool {
    match model_tag {
        "password" => impl_tag == "password",
        "pass" => impl_tag == "ok" || impl_tag.starts_with("err:"),
        "panic" => impl_tag == "panic",
        m if m.starts_with("err:") => impl_tag.starts_with("err:"),
        _ => false,
    }
}

/// The constructor's result class must not depend on the position the reader is handed over at: an encrypted
/// workbook is `password` from every position, anything else gives what a fresh reader (position 0) gives.
fn judge_positions(out: &mut Outcome, reader: &str, bytes: &[u8], tag0: &str, encrypted: bool, model: &str, open_at: &dyn Fn(&[u8], u64) -> String) {
    let len = bytes.len() as u64;
    for (cls, p) in [("4", 4u64), ("8", 8), ("mid", len / 2), ("eof", len)] {
        let t = open_at(bytes, p);
        out.count(format!("reader-position:{reader}:{cls}"));
        if encrypted && t != "password" {
            out.fail("impl_vs_spec", &format!("encrypted-not-reported:{reader}:reader-at-{cls}"), &format!("{t} (reader handed over at offset {p}; at offset 0: {tag0})"), model, "password");
        } else if t != tag0 {
            out.fail("impl_vs_spec", &format!("position-dependent:{reader}:reader-at-{cls}"), &format!("{t} (reader handed over at offset {p})"), model, &format!("{tag0} (as from offset 0)"));
        }
    }
}

/// the same for `open_workbook_auto_from_rs` (small files only: every attempt clones the bytes)
fn judge_positions_auto(out: &mut Outcome, bytes: &[u8], model: &str) {
    if bytes.len() > 300_000 {
        return;
    }
    let t0 = open_auto_rs(bytes);
    judge_positions(out, "auto_from_rs", bytes, &t0, false, model, &open_auto_rs_at);
}

// ---------------------------------------------------------------------------------------------
// family ooxml

const ENC: &str = "EncryptedPackage";
/// largest file handed to the Lean model (`C20_MODEL_MAX` overrides)
fn model_max() -> usize {
    std::env::var("C20_MODEL_MAX").ok().and_then(|v| v.parse().ok()).unwrap_or(4 << 20)
}

fn run_ooxml(text: &str, drv: &mut Driver, extras: bool) -> Outcome {
    let mut out = Outcome::default();
    let f: Vec<&str> = text.split(';').collect();
    let (opts, ls) = copts_parse(f[1]);
    let streams: Vec<(String, Vec<u8>)> = if f[2] == "_" {
        vec![]
    } else {
        f[2].split('/')
            .map(|s| {
                let (n, b) = s.split_once(':').expect("name:bytes");
                (unhexs(n), bytes_of_spec(b))
            })
            .collect()
    };
    let mut bytes = write_cfb(&streams, &opts, &mut Rng::new(ls));
    // optional damage (4th field): `cut=<n>` truncates the file, `flip=<offset>.<byte>` overwrites one byte;
    // a damaged container is outside the property's quantifier: only impl vs model is judged
    let mut damaged = false;
    if let Some(d) = f.get(3) {
        if let Some(n) = d.strip_prefix("cut=") {
            let n: usize = n.parse().expect("cut");
            bytes.truncate(n.min(bytes.len()));
            damaged = true;
        } else if let Some(x) = d.strip_prefix("flip=") {
            let (o, b) = x.split_once('.').expect("flip=<offset>.<byte>");
            let o: usize = o.parse().expect("offset");
            if o < bytes.len() {
                bytes[o] = b.parse().expect("byte");
            }
            damaged = true;
        }
    }
    // optional `trail=<what>`: bytes behind the last sector (left-over of a longer earlier version of the file,
    // a transport's padding …; compound-file readers never look there). They spell what zip readers probe for:
    // `eocd` an empty end-of-central-directory record exactly 22 bytes before the end, `eocdc<k>` one with a
    // k-byte comment, `lfh` a local-file-header signature and junk, `xlsx<seed>` a whole plain workbook
    // (a polyglot), or a byte spec. The file still is an encrypted compound file.
    for d in f.iter().skip(3) {
        if let Some(t) = d.strip_prefix("trail=") {
            let tail: Vec<u8> = if t == "eocd" {
                let mut v = b"PK\x05\x06".to_vec();
                v.resize(22, 0);
                v
            } else if let Some(k) = t.strip_prefix("eocdc") {
                let k: usize = k.parse().expect("comment length");
                let mut v = b"PK\x05\x06".to_vec();
                v.resize(20, 0);
                v.extend_from_slice(&(k as u16).to_le_bytes());
                v.extend(Rng::new(k as u64).bytes(k));
                v
            } else if t == "lfh" {
                let mut v = b"PK\x03\x04\x14\x00\x00\x00\x08\x00".to_vec();
                v.extend(Rng::new(ls).bytes(60));
                v
            } else if let Some(sd) = t.strip_prefix("xlsx") {
                gen_plain("xlsx", sd.parse().expect("seed"))
            } else {
                bytes_of_spec(t)
            };
            bytes.extend(tail);
            let label = t.trim_end_matches(|c: char| c.is_ascii_digit());
            out.count(format!("ooxml:trailing-bytes:{}", if ["eocd", "eocdc", "lfh", "xlsx"].contains(&label) { label } else { "junk+eocd" }));
        }
    }
    if bytes.len() >= 22 && &bytes[bytes.len() - 22..bytes.len() - 18] == b"PK\x05\x06" {
        out.count("ooxml:eocd-signature-22-bytes-before-end");
    }
    let enc = streams.iter().find(|(n, _)| n == ENC);
    let encrypted = enc.is_some() && !damaged;
    if damaged {
        out.count("ooxml:damaged-container");
    }
    let has_mini = streams.iter().any(|(_, d)| !d.is_empty() && d.len() < 4096);
    let place = match enc {
        Some((_, d)) if d.is_empty() => "empty",
        Some((_, d)) if d.len() < 4096 => "mini",
        Some(_) => "regular",
        None => "none",
    };
    let ver = if opts.sector_size == 512 { "v3" } else { "v4" };
    let big = bytes.len() > (1 << 20);
    // the Lean model on megabytes of `List UInt8` costs seconds: for big containers the oracle alone judges
    // (the model of the check does not depend on the size)
    let model = if bytes.len() > model_max() { if encrypted { "password".to_string() } else { "pass".to_string() } } else { drv.ask(&format!("ooxml {}", hex(&bytes))) };
    let ix = open_xlsx(&bytes);
    let ib = open_xlsb(&bytes);
    if big {
        out.count(format!("ooxml:big-container:{}MiB:tables-{}{}", bytes.len() >> 20, ["start", "end", "middle"][opts.placement.min(2) as usize], if opts.dir_first { ":dir-first" } else { "" }));
        if bytes.len() > model_max() {
            out.count("ooxml:big-container:model-skipped");
        }
    }
    out.count(format!("ooxml:{}:{ver}:pkg-{place}:{}", if encrypted { "encrypted" } else { "plain-cfb" }, if has_mini { "ministream" } else { "no-ministream" }));
    out.count(format!("ooxml:model={model}"));
    out.count(format!("ooxml:xlsx={ix}"));
    out.count(format!("ooxml:xlsb={ib}"));
    if opts.min_fat_sectors > 109 {
        out.count("ooxml:difat");
    }
    if opts.name_garbage {
        out.count("ooxml:stale-name-padding");
    }
    let cls = format!("{ver}:{}", if has_mini { "mini" } else { "nomini" });
    for (rd, tag) in [("xlsx", &ix), ("xlsb", &ib)] {
        if !agree(tag, &model) {
            out.fail("impl_vs_model", &format!("ooxml:{rd}:{cls}:impl={}:model={}", tag.split(':').next().unwrap(), model.split(':').next().unwrap()), tag, &model, if encrypted { "password" } else { "not password" });
        }
        if encrypted && tag != "password" {
            out.fail("impl_vs_spec", &format!("encrypted-package-not-reported:{rd}:{cls}"), tag, &model, "password");
        }
    }
    if encrypted && model != "password" && ix == "password" && ib == "password" {
        out.fail("model_vs_spec", "ooxml-model", &ix, &model, "password");
    }
    judge_positions(&mut out, "xlsx", &bytes, &ix, encrypted, &model, &open_xlsx_at);
    judge_positions(&mut out, "xlsb", &bytes, &ib, encrypted, &model, &open_xlsb_at);
    judge_positions_auto(&mut out, &bytes, &model);
    let extras = extras || big;
    if extras && encrypted {
        out.count(format!("ooxml:auto_from_rs={}", open_auto_rs(&bytes)));
        for ext in ["xlsx", "xlsb", "xlsm"] {
            let t = open_auto_path(&bytes, ext);
            out.count(format!("ooxml:auto_path.{ext}={t}"));
            if t != "password" && t != "skip" {
                out.fail("impl_vs_spec", &format!("encrypted-package-not-reported:auto.{ext}:{cls}"), &t, &model, "password");
            }
        }
    }
    out.nontrivial = encrypted;
    out
}

const INFO_VARIANTS: [(&str, [u8; 4]); 5] = [
    ("standard-3.2", [3, 0, 2, 0]),
    ("standard-4.2", [4, 0, 2, 0]),
    ("agile-4.4", [4, 0, 4, 0]),
    ("extensible-3.3", [3, 0, 3, 0]),
    ("extensible-4.3", [4, 0, 3, 0]),
];

fn gen_ooxml(rng: &mut Rng, thorough: bool) -> String {
    let all_big = rng.chance(1, 5); // no mini stream at all
    let sizes: &[usize] = if thorough { &[0, 1, 8, 63, 64, 65, 1000, 4088, 4095, 4096, 4097, 5000, 8192, 20000, 70000] } else { &[0, 1, 8, 63, 64, 65, 1000, 4088, 4095, 4096, 4097, 5000, 8192, 20000] };
    let big: &[usize] = &[4096, 4097, 6000, 8192, 12288];
    let mut streams: Vec<(String, String)> = vec![];
    let sz = |rng: &mut Rng, small: &[usize]| -> usize {
        if all_big {
            *rng.pick(big)
        } else {
            *rng.pick(small)
        }
    };
    // the package
    let neg = rng.chance(1, 7);
    let pkg_name = if neg {
        rng.pick(&["encryptedpackage", "EncryptedPackag", "EncryptedPackage2", "EncryptedPackage ", "\u{6}EncryptedPackage", "Workbook", ""]).to_string()
    } else {
        ENC.to_string()
    };
    if !pkg_name.is_empty() {
        let n = sz(rng, sizes);
        streams.push((pkg_name, format!("r{}.{}", n, rng.below(1 << 30))));
    }
    // EncryptionInfo: version header of one of the variants + arbitrary bytes
    if rng.chance(9, 10) {
        let (_, head) = rng.pick(&INFO_VARIANTS);
        let n = sz(rng, &[8, 100, 248, 1200, 2000, 4096, 5000]);
        let mut b = head.to_vec();
        b.extend(rng.bytes(n.saturating_sub(4)));
        streams.push(("EncryptionInfo".into(), format!("x{}", hex(&b))));
    }
    // what real producers add (storages are flattened: calamine never reads the tree)
    let extra_names = ["\u{6}DataSpaces", "Version", "DataSpaceMap", "DataSpaceInfo", "StrongEncryptionDataSpace", "TransformInfo", "StrongEncryptionTransform", "\u{6}Primary", "\u{5}SummaryInformation", "\u{5}DocumentSummaryInformation"];
    let k = rng.below(if thorough { 8 } else { 5 });
    let mut names: Vec<&str> = extra_names.to_vec();
    rng.shuffle(&mut names);
    for n in names.into_iter().take(k as usize) {
        let l = sz(rng, &[0, 8, 64, 76, 200, 1000, 4096]);
        streams.push((n.to_string(), format!("r{}.{}", l, rng.below(1 << 30))));
    }
    rng.shuffle(&mut streams);
    let st = if streams.is_empty() { "_".to_string() } else { streams.iter().map(|(n, b)| format!("{}:{}", hexs(n), b)).collect::<Vec<_>>().join("/") };
    let damage = if rng.chance(1, 10) {
        if rng.chance(2, 3) {
            // cut points: inside the header, at and around sector boundaries, anywhere
            let ss = *rng.pick(&[512u64, 4096]);
            let c = match rng.below(4) {
                0 => rng.below(600),
                1 => (rng.below(12) * ss + rng.below(3)).saturating_sub(1),
                _ => rng.below(40000),
            };
            format!(";cut={c}")
        } else {
            // one byte of the header (sector shift, counts, start sectors, DIFAT) or of the first sectors
            let o = if rng.chance(1, 2) { rng.range(24, 96) } else { rng.below(3000) };
            format!(";flip={}.{}", o, *rng.pick(&[0u64, 1, 2, 9, 12, 0x7F, 0xFE, 0xFF]))
        }
    } else {
        String::new()
    };
    let damage = if damage.is_empty() && rng.chance(1, 8) {
        match rng.below(5) {
            0 => ";trail=eocd".to_string(),
            1 => format!(";trail=eocdc{}", rng.range(1, 300)),
            2 => ";trail=lfh".to_string(),
            3 => format!(";trail=xlsx{}", rng.below(1 << 30)),
            _ => format!(";trail=r{}.{}+x504b0506{}", rng.below(40), rng.below(1 << 30), "00".repeat(18)),
        }
    } else {
        damage
    };
    format!("ooxml;{};{}{}", gen_copts(rng, true), st, damage)
}

/// the cipher text itself ends the file (sequential allocation, directory first, package last and a whole
/// number of sectors long) and its last 22 bytes spell an empty zip end-of-central-directory record
fn gen_ooxml_ciphertext_tail(rng: &mut Rng) -> String {
    let mut o = CfbOpts::default();
    o.sector_size = if rng.chance(1, 2) { 512 } else { 4096 };
    o.dir_first = true;
    let n = o.sector_size * rng.range(8, 12) as usize; // ≥ 4096: regular sectors
    let pkg = format!("{}:r{}.{}+x504b0506{}", hexs(ENC), n - 22, rng.below(1 << 30), "00".repeat(18));
    let info = format!("{}:r248.{}", hexs("EncryptionInfo"), rng.below(1 << 30));
    format!("ooxml;{};{}/{}", copts_text(&o, rng.next() >> 16), info, pkg)
}

/// an encrypted package of 1.2 – 3 MiB (as a real workbook of some size gives), allocation tables and directory
/// at the start, at the end or in the middle of the file
fn gen_ooxml_big(rng: &mut Rng) -> String {
    let mut o = CfbOpts::default();
    o.sector_size = if rng.chance(1, 2) { 512 } else { 4096 };
    o.placement = rng.below(3) as u8;
    o.dir_first = rng.chance(1, 3);
    o.shuffle = rng.chance(1, 4);
    o.mini_shuffle = rng.chance(1, 2);
    o.unused_dirs = rng.below(3) as usize;
    o.extra_free = rng.below(3) as usize;
    o.name_garbage = rng.chance(1, 3);
    let n = rng.range(1_200_000, 3_000_000);
    let mut streams = vec![format!("{}:r{}.{}", hexs(ENC), n, rng.below(1 << 30))];
    if rng.chance(4, 5) {
        let k = *rng.pick(&[248u64, 1200, 5000]);
        streams.push(format!("{}:r{}.{}", hexs("EncryptionInfo"), k, rng.below(1 << 30)));
    }
    if rng.chance(1, 2) {
        streams.push(format!("{}:r76.{}", hexs("\u{6}Primary"), rng.below(1 << 30)));
    }
    rng.shuffle(&mut streams);
    format!("ooxml;{};{}", copts_text(&o, rng.next() >> 16), streams.join("/"))
}

// ---------------------------------------------------------------------------------------------
// family xls

fn recs_parse(s: &str) -> Vec<(u16, Vec<u8>)> {
    if s == "_" {
        return vec![];
    }
    s.split(',')
        .map(|r| {
            let (t, d) = r.split_once(':').expect("typ:hex");
            (t.parse::<u16>().expect("typ"), unhex(d))
        })
        .collect()
}

fn recs_text(r: &[(u16, Vec<u8>)]) -> String {
    if r.is_empty() {
        "_".into()
    } else {
        r.iter().map(|(t, d)| format!("{t}:{}", hex(d))).collect::<Vec<_>>().join(",")
    }
}

/// the records of the stream up to and including the first EOF, as the harness frames them
/// (independent of the Lean `nextRecord`; CONTINUE records are listed as records of their own)
fn frame_globals(s: &[u8]) -> Vec<(u16, Vec<u8>)> {
    let mut out = vec![];
    let mut p = 0;
    while p + 4 <= s.len() {
        let t = u16::from_le_bytes([s[p], s[p + 1]]);
        let l = u16::from_le_bytes([s[p + 2], s[p + 3]]) as usize;
        if p + 4 + l > s.len() {
            break;
        }
        out.push((t, s[p + 4..p + 4 + l].to_vec()));
        p += 4 + l;
        if t == 0x000A {
            break;
        }
    }
    out
}

fn gen_book(seed: u64) -> xlsw::XlsBook {
    let mut book = xlsw::XlsBook::new();
    if seed == 0 {
        book.sheets.push(xlsw::XlsSheet::new("Sheet1"));
        return book;
    }
    let mut rng = Rng::new(seed);
    book.date1904 = rng.chance(1, 4);
    if rng.chance(1, 5) {
        book.codepage = None;
    }
    book.sst = (0..rng.below(4)).map(|i| format!("s{i}é{}", "x".repeat(rng.below(30) as usize))).collect();
    if rng.chance(1, 3) {
        book.formats = vec![(164, "yyyy-mm-dd".into()), (165, "0.00".into())];
        book.xfs = vec![0, 164, 165, 14];
    }
    for si in 0..rng.below(4) {
        let mut sh = xlsw::XlsSheet::new(&format!("Sh{si}"));
        sh.visible = *rng.pick(&[0u8, 0, 1, 2]);
        let r0 = rng.below(5) as u16;
        let mut cells = vec![];
        for r in 0..rng.below(6) as u16 {
            for c in 0..rng.below(5) as u16 {
                let v = match rng.below(7) {
                    0 => xlsw::CellV::Number(rng.below(100000) as f64 / 8.0),
                    1 => xlsw::CellV::Rk(xlsw::rk_int(rng.below(1000) as i32 - 500, rng.chance(1, 2))),
                    2 => xlsw::CellV::Label(format!("l{}", rng.below(100)), None),
                    3 if !book.sst.is_empty() => xlsw::CellV::LabelSst(rng.below(book.sst.len() as u64) as u32),
                    4 => xlsw::CellV::Bool(rng.chance(1, 2)),
                    5 => xlsw::CellV::Err(*rng.pick(&[0u8, 7, 15, 23, 29, 36, 42])),
                    _ => xlsw::CellV::Blank,
                };
                let mut cell = xlsw::XlsCell::new(r0 + r, c * 2, v);
                cell.xf = rng.below(book.xfs.len() as u64) as u16;
                cells.push(cell);
            }
        }
        sh.cells = cells;
        book.sheets.push(sh);
    }
    book
}

/// "encrypt" the rest of the globals substream after its first FILEPASS: payload bytes are replaced by noise, record
/// headers stay (as in real files), BOF/FILEPASS payloads and the BoundSheet8 stream offsets stay readable
fn scramble(wb: &mut [u8], seed: u64) {
    let mut rng = Rng::new(seed);
    let mut p = 0;
    let mut on = false;
    while p + 4 <= wb.len() {
        let t = u16::from_le_bytes([wb[p], wb[p + 1]]);
        let l = u16::from_le_bytes([wb[p + 2], wb[p + 3]]) as usize;
        if p + 4 + l > wb.len() {
            break;
        }
        if on && t != 0x0809 && t != 0x002F && t != 0x000A {
            let from = if t == 0x0085 { 4.min(l) } else { 0 };
            for b in &mut wb[p + 4 + from..p + 4 + l] {
                *b ^= rng.next() as u8;
            }
        }
        if t == 0x002F {
            on = true;
        }
        if t == 0x000A {
            // the sheet substreams stay readable: should a changed reader ever get past the FILEPASS record, noise
            // in cell records would make it build ranges of up to 2^32 cells (dense allocation, ledger D37) and
            // abort the whole harness instead of yielding a failing case
            break;
        }
        p += 4 + l;
    }
}

fn fp_class(recs: &[(u16, Vec<u8>)]) -> Option<String> {
    recs.iter().find(|r| r.0 == 0x2F).map(|(_, d)| {
        if d.len() < 2 {
            "short".to_string()
        } else {
            match u16::from_le_bytes([d[0], d[1]]) {
                0 => "t0".into(),
                1 => "t1".into(),
                _ => "tN".into(),
            }
        }
    })
}

/// the file-level model `xlsOpen` (container + stream + globals loop) against the implementation
fn judge_xls_file(out: &mut Outcome, bytes: &[u8], impl_tag: &str, drv: &mut Driver, label: &str) {
    if bytes.len() > 300_000 {
        out.count(format!("{label}:file-model=skipped-large"));
        return;
    }
    let mf = drv.ask(&format!("xlsfile {}", hex(bytes)));
    if mf.starts_with("err:unmodelled") {
        // a container with a VBA project storage: `VbaProject::from_cfb` runs first (C18's subject)
        out.count(format!("{label}:file-model=unmodelled-vba"));
        return;
    }
    out.count(format!("{label}:file-model={}", mf.split(':').next().unwrap()));
    if !agree(impl_tag, &mf) {
        out.fail("impl_vs_model", &format!("{label}:file:impl={}:model={}", impl_tag.split(':').next().unwrap(), mf.split(':').next().unwrap()), impl_tag, &mf, "");
    }
}

/// `Xls::new_with_options`: forced code page and header row
fn open_xls_opts(bytes: &[u8], cp: Option<u16>, hr: calamine::HeaderRow) -> (String, String) {
    let mut o = calamine::XlsOptions::default();
    o.force_codepage = cp;
    o.header_row = hr;
    let r = guarded(|| Xls::new_with_options(Cursor::new(bytes), o));
    let dbg = match &r {
        Ok(Err(e)) => format!("{e:?}"),
        _ => String::new(),
    };
    (open_tag(r, |e| matches!(e, calamine::XlsError::Password)), dbg)
}

/// The verdict must not depend on the options: with a code page the reader knows (forced or not) and any header
/// row an encrypted workbook is `password` and anything else gives what `Xls::new` gives. A forced code page the
/// reader does not know is rejected (`CodePageNotFound`) once the workbook stream is loaded and before any record
/// is looked at, for encrypted and plain workbooks alike: pinned as the unchanged code's answer to an invalid
/// option (model `xlsOpenWith false`), not held against the property.
fn judge_xls_options(out: &mut Outcome, bytes: &[u8], tag0: &str, encrypted: bool, drv: &mut Driver, label: &str) {
    use calamine::HeaderRow;
    for (cp, hr, cls) in [(Some(1252u16), HeaderRow::Row(2), "cp1252+row2"), (Some(1200), HeaderRow::FirstNonEmptyRow, "cp1200"), (Some(932), HeaderRow::Row(0), "cp932+row0"), (None, HeaderRow::Row(7), "row7")] {
        let (t, _) = open_xls_opts(bytes, cp, hr);
        out.count(format!("xls-options:{cls}"));
        if encrypted && t != "password" {
            out.fail("impl_vs_spec", &format!("filepass-not-reported:options:{cls}"), &format!("{t} (Xls::new_with_options {cls}; Xls::new: {tag0})"), "", "password");
        } else if t != tag0 {
            out.fail("impl_vs_spec", &format!("options-dependent:xls:{cls}"), &format!("{t} (Xls::new_with_options {cls})"), "", &format!("{tag0} (as Xls::new)"));
        }
    }
    // an id the `codepage` crate does not know
    let (t, dbg) = open_xls_opts(bytes, Some(12345), HeaderRow::FirstNonEmptyRow);
    out.count(format!("xls-options:unknown-codepage={}", t.split(':').next().unwrap()));
    if bytes.len() <= 300_000 {
        let m = drv.ask(&format!("xlsfilecp 0 {}", hex(bytes)));
        if m.starts_with("err:unmodelled") {
            return;
        }
        let m1 = drv.ask(&format!("xlsfilecp 1 {}", hex(bytes)));
        if !agree(tag0, &m1) {
            out.fail("impl_vs_model", &format!("{label}:file-options:impl={}:model={}", tag0.split(':').next().unwrap(), m1.split(':').next().unwrap()), tag0, &m1, "");
        }
        let pinned = if m == "err:cfb:codepage" { t.starts_with("err:") && dbg.contains("CodePageNotFound") } else { agree(&t, &m) };
        if !pinned {
            out.fail("impl_vs_model", &format!("{label}:unknown-codepage:impl={}:model={}", t.split(':').next().unwrap(), m.split(':').nth(2).unwrap_or(m.split(':').next().unwrap())), &format!("{t} {dbg}"), &m, "");
        }
    }
}

fn judge_xls(out: &mut Outcome, bytes: &[u8], wb: &[u8], drv: &mut Driver, expect_pw: Option<bool>, cls: &str, extras: bool) {
    let globals = frame_globals(wb);
    let cut = if wb.len() > 200_000 { globals.iter().map(|r| 4 + r.1.len()).sum::<usize>().min(wb.len()) } else { wb.len() };
    let reply = drv.ask(&format!("xls {} {}", hex(&wb[..cut]), recs_text(&globals)));
    let mut it = reply.split(' ');
    let ms = it.next().unwrap_or("").to_string();
    let mr = it.next().unwrap_or("").to_string();
    let it_ = open_xls(bytes);
    out.count(format!("xls:model={}", ms.split(':').next().unwrap()));
    out.count(format!("xls:impl={it_}"));
    judge_xls_file(out, bytes, &it_, drv, "xls");
    // (the embedded-object-first container is one recorded finding, reported once below: here only consistency)
    let enc_here = expect_pw == Some(true) && !cls.starts_with("embedded-object-first");
    judge_positions(out, "xls", bytes, &it_, enc_here, &ms, &open_xls_at);
    judge_positions_auto(out, bytes, &ms);
    judge_xls_options(out, bytes, &it_, enc_here, drv, "xls");
    if ms != mr {
        out.fail("model_vs_spec", "xls-stream-vs-records", &it_, &reply, "");
    }
    if !agree(&it_, &ms) {
        out.fail("impl_vs_model", &format!("xls:{cls}:impl={}:model={}", it_.split(':').next().unwrap(), ms.split(':').next().unwrap()), &it_, &reply, "");
    }
    match expect_pw {
        Some(true) => {
            if it_ != "password" {
                out.fail("impl_vs_spec", &format!("filepass-not-reported:{cls}"), &it_, &reply, "password");
            } else if ms != "password" {
                out.fail("model_vs_spec", "xls-model", &it_, &reply, "password");
            }
            if extras {
                out.count(format!("xls:auto_from_rs={}", open_auto_rs(bytes)));
                let t = open_auto_path(bytes, "xls");
                out.count(format!("xls:auto_path={t}"));
                if t != "password" && t != "skip" {
                    out.fail("impl_vs_spec", &format!("filepass-not-reported:auto:{cls}"), &t, &reply, "password");
                }
            }
        }
        Some(false) => {
            if it_ == "password" {
                out.fail("impl_vs_spec", "xls-false-positive", &it_, &reply, "not password");
            }
        }
        None => {}
    }
}

fn run_xls(text: &str, drv: &mut Driver, extras: bool) -> Outcome {
    let mut out = Outcome::default();
    let f: Vec<&str> = text.split(';').collect();
    let (opts, ls) = copts_parse(f[1]);
    let bseed: u64 = f[2].trim_start_matches('b').parse().expect("book seed");
    let head = recs_parse(f[3]);
    let tail = recs_parse(f[4]);
    let scr = f[5] == "scr=1";
    let mut book = gen_book(bseed);
    book.globals_head = head.clone();
    book.globals_tail = tail.clone();
    // optional 7th field `name=<stream name>` ("Book" = BIFF5-style container entry); 8th `sheetfp=1` puts a
    // FILEPASS-typed record into the first sheet substream (not in the globals: must not be reported)
    if let Some(n) = f.get(6).and_then(|x| x.strip_prefix("name=")) {
        book.stream_name = n.to_string();
    }
    if f.get(7) == Some(&"sheetfp=1") {
        if let Some(sh) = book.sheets.first_mut() {
            sh.cells.insert(0, xlsw::XlsCell::raw(0x002F, vec![1, 0, 1, 0, 1, 0]));
            out.count("xls:filepass-typed-record-in-sheet");
        }
    }
    out.count(format!("xls:stream-name={}", book.stream_name));
    let mut rng = Rng::new(ls);
    let mut wb = book.workbook_stream(&mut rng);
    let all: Vec<(u16, Vec<u8>)> = head.iter().chain(tail.iter()).cloned().collect();
    let cls = fp_class(&all);
    if scr && cls.is_some() {
        scramble(&mut wb, ls ^ 0x5555);
    }
    // optional field `emb=1|2`: the container also holds an embedded Excel object (storage `MBD…`, written as an
    // empty entry: calamine never reads the tree) with its own PLAIN `Workbook` stream, listed in the directory
    // after (1) or before (2) the top-level stream. The workbook is the top-level one.
    let emb = f.iter().skip(6).find_map(|x| x.strip_prefix("emb=")).and_then(|x| x.parse::<u8>().ok()).unwrap_or(0);
    let bytes = if emb == 0 {
        write_cfb(&[(book.stream_name.clone(), wb.clone())], &opts, &mut rng)
    } else {
        let mut inner = gen_book(7);
        inner.stream_name = book.stream_name.clone();
        let plain = inner.workbook_stream(&mut Rng::new(ls ^ 0x77));
        let top = (book.stream_name.clone(), wb.clone());
        let obj = ("MBD0018D3C0".to_string(), vec![]);
        let embedded = (book.stream_name.clone(), plain);
        let mut o = opts.clone();
        o.dir_shuffle = false; // the directory order is the point
        out.count(format!("xls:embedded-object-with-plain-workbook:{}", if emb == 1 { "after-top-level" } else { "before-top-level" }));
        if emb == 1 {
            write_cfb(&[top, obj, embedded], &o, &mut rng)
        } else {
            write_cfb(&[obj, embedded, top], &o, &mut rng)
        }
    };
    let pos = if head.iter().any(|r| r.0 == 0x2F) { if head[0].0 == 0x2F { "first" } else { "head" } } else { "tail" };
    let c = cls.clone().map(|c| format!("{c}:{pos}")).unwrap_or("none".into());
    out.count(format!("xls:filepass={c}{}", if scr && cls.is_some() { ":scrambled" } else { "" }));
    out.count(format!("xls:container=v{}", if opts.sector_size == 512 { 3 } else { 4 }));
    if opts.name_garbage {
        out.count("xls:stale-name-padding");
    }
    let cls_s = match (emb, &cls) {
        (2, Some(c)) => format!("embedded-object-first:{c}"),
        (_, Some(c)) => c.clone(),
        (_, None) => "none".to_string(),
    };
    judge_xls(&mut out, &bytes, &wb, drv, Some(cls.is_some()), &cls_s, extras);
    out.nontrivial = true;
    out
}

fn run_xlsraw(text: &str, drv: &mut Driver) -> Outcome {
    let mut out = Outcome::default();
    let f: Vec<&str> = text.split(';').collect();
    let (opts, ls) = copts_parse(f[1]);
    let pre = recs_parse(f[2]);
    let typ: u16 = f[3].parse().expect("wEncryptionType");
    let reply = drv.ask(&format!("xlsenc {} {} {} {}", f[2], typ, f[4], f[5]));
    let mut it = reply.split(' ');
    let wb = unhex(it.next().unwrap_or("-"));
    let ms = it.next().unwrap_or("").to_string();
    let mr = it.next().unwrap_or("").to_string();
    let bytes = write_cfb(&[("Workbook".to_string(), wb.clone())], &opts, &mut Rng::new(ls));
    let it_ = open_xls(&bytes);
    let cls = match typ {
        0 => "t0",
        1 => "t1",
        _ => "tN",
    };
    let legal = !pre.iter().any(|r| r.0 == 0x000A);
    out.count(format!("xlsraw:filepass={cls}:{}", if legal { "before-eof" } else { "after-eof" }));
    out.count(format!("xlsraw:impl={it_}"));
    judge_xls_file(&mut out, &bytes, &it_, drv, "xlsraw");
    judge_positions(&mut out, "xls", &bytes, &it_, !pre.iter().any(|r| r.0 == 0x000A), &ms, &open_xls_at);
    judge_xls_options(&mut out, &bytes, &it_, !pre.iter().any(|r| r.0 == 0x000A), drv, "xlsraw");
    // the harness frames the Lean-encoded stream back: it must contain the FILEPASS record where it was put
    let g = frame_globals(&wb);
    let seen = g.iter().any(|r| r.0 == 0x2F);
    if seen != legal && !pre.iter().any(|r| r.0 == 0x2F) {
        out.fail("model_vs_spec", "xlsraw-encoder", "", &reply, "");
    }
    if ms != mr {
        out.fail("model_vs_spec", "xls-stream-vs-records", &it_, &reply, "");
    }
    if !agree(&it_, &ms) {
        out.fail("impl_vs_model", &format!("xlsraw:{cls}:impl={}:model={}", it_.split(':').next().unwrap(), ms.split(':').next().unwrap()), &it_, &reply, "");
    }
    if legal {
        if it_ != "password" {
            out.fail("impl_vs_spec", &format!("filepass-not-reported:{cls}"), &it_, &reply, "password");
        } else if ms != "password" {
            out.fail("model_vs_spec", "xls-model", &it_, &reply, "password");
        }
    }
    out.nontrivial = legal;
    out
}

fn bof_payload() -> Vec<u8> {
    let mut d = vec![];
    for v in [0x0600u16, 0x0005, 0x0DBB, 0x07CC] {
        d.extend_from_slice(&v.to_le_bytes());
    }
    d.extend_from_slice(&[0xC1, 0, 1, 0, 6, 4, 0, 0]);
    d
}

/// protection that is NOT encryption ([MS-XLS] PROTECTION block, file sharing, revision protection): the
/// workbook stays readable, none of this may be reported as password protected
fn protection(rng: &mut Rng) -> Vec<(u16, Vec<u8>)> {
    let verifier = |rng: &mut Rng| (rng.range(1, 0xFFFF) as u16).to_le_bytes().to_vec();
    let mut v = vec![];
    if rng.chance(1, 3) {
        // FileSharing: fReadOnlyRec, wResPassNum (write-reservation password verifier), iNoResPass, user name
        let mut d = vec![rng.below(2) as u8, 0];
        d.extend(verifier(rng));
        d.extend_from_slice(&[4, 0, 0, b'u', b's', b'e', b'r']);
        v.push((0x005B, d));
    }
    if rng.chance(2, 3) {
        v.push((0x0019, vec![rng.below(2) as u8, 0])); // WinProtect
    }
    v.push((0x0012, vec![if rng.chance(4, 5) { 1 } else { 0 }, 0])); // Protect: fLock
    if rng.chance(5, 6) {
        v.push((0x0013, if rng.chance(5, 6) { verifier(rng) } else { vec![0, 0] })); // Password: verifier
    }
    if rng.chance(1, 2) {
        v.push((0x01AF, vec![rng.below(2) as u8, 0])); // Prot4Rev
        v.push((0x01BC, verifier(rng))); // Prot4RevPass
    }
    if rng.chance(1, 3) {
        v.push((0x0063, vec![1, 0])); // ObjProtect
        v.push((0x00DD, vec![1, 0])); // ScenProtect
    }
    v
}

fn benign(rng: &mut Rng) -> (u16, Vec<u8>) {
    match rng.below(9) {
        0 => (0x00E1, vec![0xB0, 0x04]),                                   // InterfaceHdr
        1 => (0x00C1, vec![0, 0]),                                         // Mms
        2 => (0x00E2, vec![]),                                             // InterfaceEnd
        3 => (0x005C, { let mut v = vec![0x20u8; 112]; v[0] = 1; v[1] = 0; v[2] = 0; v }), // WriteAccess
        4 => (0x0086, vec![]),                                             // WriteProtect
        5 => (0x0042, vec![0xB0, 0x04]),                                   // CodePage 1200
        6 => (0x0022, vec![0, 0]),                                         // Date1904 = 0
        7 => (*rng.pick(&[0x002Eu16, 0x0030, 0x012F, 0x2F00, 0x082F, 0x1234]), { let n = rng.below(20) as usize; rng.bytes(n) }),
        _ => (0x0161, vec![0, 0]),                                         // DSF
    }
}

fn gen_filepass(rng: &mut Rng) -> (u16, Vec<u8>) {
    let k = rng.below(100);
    let d = if k < 40 {
        // XOR obfuscation: wEncryptionType = 0, key, verifier
        let mut d = vec![0, 0];
        d.extend(rng.bytes(4));
        d
    } else if k < 65 {
        // RC4: type 1, vMajor = 1, vMinor = 1, salt, verifier, verifier hash
        let mut d = vec![1, 0, 1, 0, 1, 0];
        d.extend(rng.bytes(48));
        d
    } else if k < 88 {
        // RC4 CryptoAPI: type 1, vMajor 2..4, vMinor 2, header + verifier (arbitrary)
        let mut d = vec![1, 0, rng.range(2, 4) as u8, 0, 2, 0];
        let n = rng.range(40, 220) as usize;
        d.extend(rng.bytes(n));
        d
    } else if k < 95 {
        // any other type value
        let mut d = (rng.range(2, 65535) as u16).to_le_bytes().to_vec();
        let n = rng.below(60) as usize;
        d.extend(rng.bytes(n));
        d
    } else {
        // malformed: shorter than the type field
        let n = rng.below(2) as usize;
        rng.bytes(n)
    };
    (0x002F, d)
}

fn gen_xls(rng: &mut Rng) -> String {
    let encrypted = rng.chance(4, 5);
    let mut head = vec![];
    let mut tail = vec![];
    for _ in 0..rng.below(4) {
        head.push(benign(rng));
    }
    for _ in 0..rng.below(3) {
        tail.push(benign(rng));
    }
    if rng.chance(1, 3) {
        let blk = protection(rng);
        if rng.chance(1, 2) { head.extend(blk) } else { tail.extend(blk) }
    }
    if encrypted {
        let fp = gen_filepass(rng);
        match rng.below(10) {
            0..=3 => head.insert(0, fp),
            4..=7 => {
                let p = rng.below(head.len() as u64 + 1) as usize;
                head.insert(p, fp)
            }
            _ => {
                let p = rng.below(tail.len() as u64 + 1) as usize;
                tail.insert(p, fp)
            }
        }
    }
    let bseed = if rng.chance(1, 4) { 0 } else { rng.below(1 << 30) + 1 };
    let name = if rng.chance(1, 6) { "Book" } else { "Workbook" };
    // an embedded object listed after the top-level stream in one case out of eight; listed before it (the reader
    // then opens the object: recorded finding) only from the corpus
    let emb = if rng.chance(1, 8) { ";emb=1" } else { "" };
    format!("xls;{};b{};{};{};scr={};name={};sheetfp={}{}", gen_copts(rng, false), bseed, recs_text(&head), recs_text(&tail), rng.chance(1, 2) as u8, name, (!encrypted && rng.chance(1, 3)) as u8, emb)
}

fn gen_xlsraw(rng: &mut Rng) -> String {
    let mut pre = vec![(0x0809u16, bof_payload())];
    for _ in 0..rng.below(5) {
        pre.push(benign(rng));
    }
    if rng.chance(1, 12) {
        let p = rng.range(1, pre.len() as u64) as usize;
        pre.insert(p, (0x000A, vec![])); // FILEPASS after the end of the globals: not looked at
    }
    let (_, fp) = gen_filepass(rng);
    let (typ, rest) = if fp.len() >= 2 { (u16::from_le_bytes([fp[0], fp[1]]), fp[2..].to_vec()) } else { (0, vec![]) };
    let mut post = vec![];
    for _ in 0..rng.below(4) {
        let (t, d) = benign(rng);
        let n = d.len();
        post.push((t, rng.bytes(n))); // what follows is cipher text
    }
    if rng.chance(3, 4) {
        post.push((0x000A, vec![]));
    }
    format!("xlsraw;{};{};{};{};{}", gen_copts(rng, false), recs_text(&pre), typ, hex(&rest), recs_text(&post))
}

// ---------------------------------------------------------------------------------------------
// family ods

#[derive(Clone, Debug, PartialEq)]
enum Child {
    Enc(Vec<String>),
    Elem(String),
    Text,
}

const FILE_ENTRY: &str = "manifest:file-entry";
const ENC_DATA: &str = "manifest:encryption-data";

fn entries_parse(s: &str) -> Vec<Vec<Child>> {
    if s == "_" {
        return vec![];
    }
    s.split('|')
        .flat_map(|e| {
            // `<entry>*<k>`: k copies
            match e.rsplit_once('*') {
                Some((x, k)) => vec![x; k.parse().expect("repeat count")],
                None => vec![e],
            }
        })
        .map(|e| {
            if e == "-" {
                return vec![];
            }
            e.split(',')
                .map(|c| {
                    if c == "T" {
                        Child::Text
                    } else if let Some(q) = c.strip_prefix('L') {
                        Child::Elem(unhexs(q))
                    } else if let Some(r) = c.strip_prefix('E') {
                        Child::Enc(if r.is_empty() { vec![] } else { r.split('+').map(unhexs).collect() })
                    } else {
                        panic!("bad child {c}")
                    }
                })
                .collect()
        })
        .collect()
}

fn entries_text(es: &[Vec<Child>]) -> String {
    if es.is_empty() {
        return "_".into();
    }
    es.iter()
        .map(|e| {
            if e.is_empty() {
                "-".to_string()
            } else {
                e.iter()
                    .map(|c| match c {
                        Child::Text => "T".to_string(),
                        Child::Elem(q) => format!("L{}", hexs(q)),
                        Child::Enc(subs) => format!("E{}", subs.iter().map(|s| hexs(s)).collect::<Vec<_>>().join("+")),
                    })
                    .collect::<Vec<_>>()
                    .join(",")
            }
        })
        .collect::<Vec<_>>()
        .join("|")
}

/// serializer: one "filler" = exactly one quick-xml event (white-space text, or a comment when the previous
/// item was text already: two adjacent text nodes would merge)
struct Ser {
    s: String,
    last_text: bool,
    rng: Rng,
    /// full-path attributes are 64 random hex digits (poorly compressible: a deflated manifest stays large)
    hex_names: bool,
}

impl Ser {
    fn filler(&mut self) {
        if !self.last_text && self.rng.chance(2, 3) {
            self.s.push_str(*self.rng.pick(&["\n", " ", "\n  ", "\t"]));
            self.last_text = true;
        } else {
            self.s.push_str(*self.rng.pick(&["<!--c-->", "<!-- manifest:encryption-data -->", "<!---->"]));
            self.last_text = false;
        }
    }
    fn tag(&mut self, t: &str) {
        self.s.push_str(t);
        self.last_text = false;
    }
    fn attrs(&mut self, q: &str) -> String {
        match q {
            FILE_ENTRY if self.hex_names => format!(" manifest:full-path=\"Pictures/{:016x}{:016x}{:016x}{:016x}.png\" manifest:media-type=\"image/png\"", self.rng.next(), self.rng.next(), self.rng.next(), self.rng.next()),
            FILE_ENTRY => format!(" manifest:full-path=\"{}\" manifest:media-type=\"text/xml\"{}", self.rng.pick(&["/", "content.xml", "styles.xml", "Pictures/a b.png", "encryption-data"]), if self.rng.chance(1, 2) { " manifest:size=\"1234\"" } else { "" }),
            ENC_DATA => " manifest:checksum-type=\"urn:oasis:names:tc:opendocument:xmlns:manifest:1.0#sha256-1k\" manifest:checksum=\"q83vEjRWeJA=\"".to_string(),
            _ => {
                if self.rng.chance(1, 2) {
                    format!(" manifest:algorithm-name=\"http://www.w3.org/2001/04/xmlenc#aes256-cbc\" manifest:initialisation-vector='{}'", self.rng.below(99999))
                } else {
                    String::new()
                }
            }
        }
    }
    /// `<q attrs/>` or `<q attrs></q>`: start + end either way (`expand_empty_elements`)
    fn empty_elem(&mut self, q: &str) {
        let a = self.attrs(q);
        if self.rng.chance(1, 2) {
            self.tag(&format!("<{q}{a}/>"));
        } else {
            self.tag(&format!("<{q}{a}></{q}>"));
        }
    }
}

fn manifest_xml(prolog: usize, root: &str, gap: usize, entries: &[Vec<Child>], seed: u64, hex_names: bool) -> String {
    let mut z = Ser { s: String::new(), last_text: false, rng: Rng::new(seed), hex_names };
    for i in 0..prolog {
        if i == 0 {
            z.tag("<?xml version=\"1.0\" encoding=\"UTF-8\"?>");
        } else {
            z.filler();
        }
    }
    z.tag(&format!("<{root} xmlns:manifest=\"urn:oasis:names:tc:opendocument:xmlns:manifest:1.0\" manifest:version=\"1.2\">"));
    for e in entries {
        if e.is_empty() {
            z.empty_elem(FILE_ENTRY);
        } else {
            let a = z.attrs(FILE_ENTRY);
            z.tag(&format!("<{FILE_ENTRY}{a}>"));
            for c in e {
                match c {
                    Child::Text => z.filler(),
                    Child::Elem(q) => z.empty_elem(q),
                    Child::Enc(subs) => {
                        let a = z.attrs(ENC_DATA);
                        z.tag(&format!("<{ENC_DATA}{a}>"));
                        for s in subs {
                            z.empty_elem(s);
                        }
                        z.tag(&format!("</{ENC_DATA}>"));
                    }
                }
            }
            z.tag(&format!("</{FILE_ENTRY}>"));
        }
        for _ in 0..gap {
            z.filler();
        }
    }
    z.tag(&format!("</{root}>"));
    z.s
}

/// the events quick-xml (as configured by `check_for_password_protected`: no trimming, empty elements
/// expanded, end names and comments unchecked) yields for `text`, in the driver's wire form
fn tokenize(text: &str) -> Vec<String> {
    let b = text.as_bytes();
    let mut ev = vec![];
    let mut p = 0;
    let find = |from: usize, pat: &[u8]| -> Option<usize> { b[from.min(b.len())..].windows(pat.len()).position(|w| w == pat).map(|i| i + from) };
    while p < b.len() {
        if b[p] != b'<' {
            let e = find(p, b"<").unwrap_or(b.len());
            ev.push("o".to_string());
            p = e;
            continue;
        }
        if b[p..].starts_with(b"<!--") {
            match find(p + 4, b"-->") {
                Some(e) => {
                    ev.push("o".into());
                    p = e + 3;
                }
                None => {
                    ev.push("e".into());
                    return ev;
                }
            }
        } else if b[p..].starts_with(b"<?") {
            match find(p + 2, b"?>") {
                Some(e) => {
                    ev.push("o".into());
                    p = e + 2;
                }
                None => {
                    ev.push("e".into());
                    return ev;
                }
            }
        } else {
            // a tag: ends at the first `>` outside quotes
            let mut q = 0u8;
            let mut e = None;
            for (i, c) in b[p + 1..].iter().enumerate() {
                if q != 0 {
                    if *c == q {
                        q = 0;
                    }
                } else if *c == b'"' || *c == b'\'' {
                    q = *c;
                } else if *c == b'>' {
                    e = Some(p + 1 + i);
                    break;
                }
            }
            let e = match e {
                Some(e) => e,
                None => {
                    ev.push("e".into());
                    return ev;
                }
            };
            let inner = &text[p + 1..e];
            if inner.starts_with('/') {
                ev.push("o".into());
            } else if inner.starts_with('!') {
                ev.push("o".into());
            } else {
                let selfc = inner.ends_with('/');
                let body = if selfc { &inner[..inner.len() - 1] } else { inner };
                let name: String = body.chars().take_while(|c| !c.is_whitespace()).collect();
                ev.push(format!("s{}", hexs(&name)));
                if selfc {
                    ev.push("o".into());
                }
            }
            p = e + 1;
        }
    }
    ev
}

/// package shapes (`pkg=` field of the ods description):
///   0  mimetype, manifest, content.xml (per-entry encryption as ODF 1.2 writes it: content.xml is cipher text)
///   1  encrypted as a whole package (ODF 1.3 / LibreOffice 24.2+): mimetype, manifest with one encrypted
///      file-entry, `encrypted-package`; NO content.xml
///   2  `encrypted-package` and a content.xml next to it
///   3  the usual further parts (styles.xml, meta.xml, settings.xml, Thumbnails/thumbnail.png) around content.xml
///   4  as 3 but without content.xml
fn zip_ods_pkg(manifest: &[u8], content: &[u8], variant: u64, pkg: u64) -> Vec<u8> {
    use zip::write::SimpleFileOptions;
    use zip::CompressionMethod;
    let mut z = zip::ZipWriter::new(Cursor::new(Vec::new()));
    let st = SimpleFileOptions::default().compression_method(CompressionMethod::Stored);
    let de = SimpleFileOptions::default().compression_method(if variant & 1 == 1 { CompressionMethod::Stored } else { CompressionMethod::Deflated });
    z.start_file("mimetype", st).unwrap();
    z.write_all(odsw::MIMETYPE.as_bytes()).unwrap();
    let noise = Rng::new(variant ^ pkg ^ content.len() as u64).bytes(200);
    let mut parts: Vec<(&str, &[u8])> = vec![("META-INF/manifest.xml", manifest)];
    match pkg {
        1 => parts.push(("encrypted-package", content)),
        2 => {
            parts.push(("encrypted-package", &noise));
            parts.push(("content.xml", content));
        }
        3 | 4 => {
            parts.push(("styles.xml", &noise));
            if pkg == 3 {
                parts.push(("content.xml", content));
            }
            parts.push(("meta.xml", &noise));
            parts.push(("settings.xml", &noise));
            parts.push(("Thumbnails/thumbnail.png", &noise));
        }
        _ => parts.push(("content.xml", content)),
    }
    if variant & 2 == 2 {
        parts.reverse(); // the manifest last
    }
    for (n, b) in parts {
        z.start_file(n, de).unwrap();
        z.write_all(b).unwrap();
    }
    z.finish().unwrap().into_inner()
}

#[allow(dead_code)]
fn zip_ods(manifest: &[u8], content: &[u8], variant: u64) -> Vec<u8> {
    use zip::write::SimpleFileOptions;
    use zip::CompressionMethod;
    let mut z = zip::ZipWriter::new(Cursor::new(Vec::new()));
    let st = SimpleFileOptions::default().compression_method(CompressionMethod::Stored);
    let de = SimpleFileOptions::default().compression_method(if variant & 1 == 1 { CompressionMethod::Stored } else { CompressionMethod::Deflated });
    z.start_file("mimetype", st).unwrap();
    z.write_all(odsw::MIMETYPE.as_bytes()).unwrap();
    let parts: [(&str, &[u8]); 2] = if variant & 2 == 2 { [("content.xml", content), ("META-INF/manifest.xml", manifest)] } else { [("META-INF/manifest.xml", manifest), ("content.xml", content)] };
    for (n, b) in parts {
        z.start_file(n, de).unwrap();
        z.write_all(b).unwrap();
    }
    z.finish().unwrap().into_inner()
}

fn run_ods(text: &str, drv: &mut Driver, extras: bool) -> Outcome {
    let mut out = Outcome::default();
    let f: Vec<&str> = text.split(';').collect();
    let prolog: usize = f[1].parse().expect("prolog");
    let root = unhexs(f[2]);
    let gap: usize = f[3].parse().expect("gap");
    let entries = entries_parse(f[4]);
    let cut: Option<usize> = f[5].trim_start_matches("cut=").parse().ok();
    let variant: u64 = f[6].trim_start_matches("zip=").parse().expect("zip");
    let cipher = f[7] == "enc=1";
    let seed = verif_harness::fnv64(text.as_bytes());
    let hex_names = f.iter().skip(8).any(|x| *x == "names=hex");
    let pkg: u64 = f.iter().skip(8).find_map(|x| x.strip_prefix("pkg=")).and_then(|x| x.parse().ok()).unwrap_or(0);
    let mut xml = manifest_xml(prolog, &root, gap, &entries, seed, hex_names);
    let declares = entries.iter().any(|e| e.iter().any(|c| matches!(c, Child::Enc(_)) || *c == Child::Elem(ENC_DATA.into())));
    let nenc = entries.iter().filter(|e| e.iter().any(|c| matches!(c, Child::Enc(_)))).count();
    let first_enc = entries.iter().position(|e| e.iter().any(|c| matches!(c, Child::Enc(_))));
    // logical description → Lean encoder → events, model outcome, spec
    let reply = drv.ask(&format!("manifest {} {} {} {}", prolog, hexs(&root), gap, entries_text(&entries).replace('|', ";")));
    let r: Vec<&str> = reply.split(' ').collect();
    let (levs, lmodel, lspec) = (r.first().copied().unwrap_or(""), r.get(1).copied().unwrap_or(""), r.get(2).copied().unwrap_or(""));
    let evs_full = tokenize(&xml);
    let evs_full_s = if evs_full.is_empty() { "_".to_string() } else { evs_full.join(",") };
    if evs_full_s != levs {
        out.fail("model_vs_spec", "ods-encoder-events", &evs_full_s, levs, "");
    }
    if (lspec == "1") != declares || (lmodel == "password") != declares {
        out.fail("model_vs_spec", "ods-manifest-spec", "", &reply, if declares { "password" } else { "pass" });
    }
    // the file
    if let Some(c) = cut {
        let mut c = c.min(xml.len());
        while !xml.is_char_boundary(c) {
            c -= 1;
        }
        xml.truncate(c);
    }
    let evs = tokenize(&xml);
    let model = drv.ask(&format!("ods {}", if evs.is_empty() { "_".to_string() } else { evs.join(",") }));
    let content: Vec<u8> = if cipher {
        Rng::new(seed ^ 7).bytes(300)
    } else {
        odsw::OdsBook::new(vec![odsw::OdsSheet::new("S", vec![odsw::RowRun::new(vec![odsw::OdsCell::float(1.5)])])]).content_xml().into_bytes()
    };
    let bytes = zip_ods_pkg(xml.as_bytes(), &content, variant, pkg);
    let it = open_ods(&bytes);
    out.count(format!("ods:package-shape={}", ["content.xml", "encrypted-package-only", "encrypted-package+content.xml", "all-parts", "all-parts-without-content.xml"][pkg.min(4) as usize]));
    if entries.len() >= 500 {
        let where_ = match first_enc {
            None => "none",
            Some(p) if p * 10 < entries.len() => "first",
            Some(p) if p * 10 >= entries.len() * 9 => "last",
            Some(_) => "middle",
        };
        out.count(format!("ods:big-manifest:{}KiB:{}:first-encrypted={where_}", (xml.len() >> 10) / 32 * 32, if variant & 1 == 1 { "stored" } else { "deflated" }));
    }
    out.count(format!("ods:entries={}", match entries.len() { 0 => "0", 1 => "1", 2..=4 => "2-4", _ => "5+" }));
    out.count(format!("ods:encrypted-entries={}", match nenc { 0 => "0", 1 => "1", _ => "2+" }));
    if let Some(p) = first_enc {
        out.count(format!("ods:first-encrypted-entry={}", match p { 0 => "0", 1 => "1", _ => "2+" }));
    }
    out.count(format!("ods:model={model}"));
    out.count(format!("ods:impl={it}"));
    judge_positions(&mut out, "ods", &bytes, &it, declares && cut.is_none(), &model, &open_ods_at);
    judge_positions_auto(&mut out, &bytes, &model);
    out.count(format!("ods:{}", if cut.is_some() { "truncated-manifest" } else { "whole-manifest" }));
    if !agree(&it, &model) {
        out.fail("impl_vs_model", &format!("ods:impl={}:model={}", it.split(':').next().unwrap(), model.split(':').next().unwrap()), &it, &model, "");
    }
    if cut.is_none() {
        if declares && it != "password" {
            out.fail("impl_vs_spec", "encryption-data-not-reported", &it, &model, "password");
        }
        if !declares && it == "password" {
            out.fail("impl_vs_spec", "ods-false-positive", &it, &model, "not password");
        }
        if declares && extras {
            out.count(format!("ods:auto_from_rs={}", open_auto_rs(&bytes)));
            let t = open_auto_path(&bytes, "ods");
            out.count(format!("ods:auto_path={t}"));
            if t != "password" && t != "skip" {
                out.fail("impl_vs_spec", "encryption-data-not-reported:auto", &t, &model, "password");
            }
        }
    }
    out.nontrivial = cut.is_none();
    out
}

fn gen_ods(rng: &mut Rng, thorough: bool) -> String {
    let hi = if thorough && rng.chance(1, 10) { 40 } else { 6 };
    let n = if rng.chance(1, 20) { 0 } else { rng.range(1, hi) } as usize;
    let encrypted = n > 0 && rng.chance(2, 3);
    let mut which = vec![false; n];
    if encrypted {
        let k = if rng.chance(1, 2) { 1 } else { rng.range(1, n as u64) as usize };
        let mut idx: Vec<usize> = (0..n).collect();
        rng.shuffle(&mut idx);
        for i in idx.into_iter().take(k) {
            which[i] = true;
        }
    }
    let other_names = ["manifest:other", "loext:x", "manifest:encryption-dat", "manifest:encryption-data2", "encryption-data", "MANIFEST:ENCRYPTION-DATA", "manifest:file-entry", "manifest:algorithm"];
    let sub_names = ["manifest:algorithm", "manifest:key-derivation", "manifest:start-key-generation", "x:y", "manifest:file-entry"];
    let mut entries = vec![];
    for enc in which {
        let mut e = vec![];
        for _ in 0..rng.below(3) {
            e.push(if rng.chance(1, 2) { Child::Text } else { Child::Elem(rng.pick(&other_names).to_string()) });
        }
        if enc {
            let mut subs = vec![];
            for _ in 0..rng.below(4) {
                subs.push(rng.pick(&sub_names).to_string());
            }
            let p = rng.below(e.len() as u64 + 1) as usize;
            e.insert(p, Child::Enc(subs));
        }
        // two adjacent text children would merge into one event: drop duplicates
        e.dedup_by(|a, b| *a == Child::Text && *b == Child::Text);
        entries.push(e);
    }
    let root = if rng.chance(1, 10) { *rng.pick(&["manifest", "m:manifest", "manifest:file-entry", "manifest:encryption-data"]) } else { "manifest:manifest" };
    let cut = if rng.chance(1, 8) { format!("{}", rng.below(900)) } else { "-".into() };
    // package shape: whole-package encryption (no content.xml) for encrypted manifests in one case out of three
    let pkg = if encrypted && rng.chance(1, 3) { *rng.pick(&[1u64, 1, 2, 4]) } else if rng.chance(1, 4) { 3 } else { 0 };
    format!("ods;{};{};{};{};cut={};zip={};enc={};pkg={}", rng.below(4), hexs(root), rng.below(3), entries_text(&entries), cut, rng.below(4), (encrypted && rng.chance(2, 3)) as u8, pkg)
}

/// a manifest of 600 – 3000 entries with poorly compressible names (a package with many pictures), stored or
/// deflated, the encrypted entry (entries) first, in the middle or last
fn gen_ods_big(rng: &mut Rng) -> String {
    let n = rng.range(600, 3000) as usize;
    let encd = "E6d616e69666573743a616c676f726974686d+6d616e69666573743a6b65792d64657269766174696f6e";
    let entries = match rng.below(6) {
        0 => format!("{encd}|-*{}", n - 1),
        1 => format!("-*{}|T,{encd}|-*{}", n / 2, n - n / 2 - 1),
        2 | 3 => format!("-*{}|{encd}", n - 1),
        4 => format!("-*{}|{encd}|-*{}|{encd}", n - 12, 10),
        _ => format!("-*{n}"),
    };
    format!("ods;1;{};{};{};cut=-;zip={};enc={};names=hex", hexs("manifest:manifest"), rng.below(2), entries, rng.below(4), rng.below(2))
}

// ---------------------------------------------------------------------------------------------
// family conv: unencrypted workbooks from the shared writers; none may be reported as password protected

fn extract_manifest(bytes: &[u8]) -> Option<String> {
    use std::io::Read;
    let mut z = zip::ZipArchive::new(Cursor::new(bytes)).ok()?;
    let mut f = z.by_name("META-INF/manifest.xml").ok()?;
    let mut s = String::new();
    f.read_to_string(&mut s).ok()?;
    Some(s)
}

#[cfg(feature = "hooks")]
fn extract_workbook_stream(bytes: &[u8]) -> Option<Vec<u8>> {
    use calamine::verif_hooks::cfb::Cfb;
    guarded(|| {
        let mut cur = Cursor::new(bytes);
        let mut cfb = Cfb::new(&mut cur, bytes.len()).ok()?;
        cfb.get_stream("Workbook", &mut cur).or_else(|_| cfb.get_stream("Book", &mut cur)).ok()
    })
    .ok()
    .flatten()
}
#[cfg(not(feature = "hooks"))]
fn extract_workbook_stream(_bytes: &[u8]) -> Option<Vec<u8>> {
    None
}

/// an unencrypted file of the given format: impl must not say `password`; the model of the format's check on the
/// same bytes must agree
fn judge_plain(out: &mut Outcome, fmt: &str, bytes: &[u8], drv: &mut Driver, expect_pw: bool, label: &str) {
    let (it, model) = match fmt {
        "xlsx" => (open_xlsx(bytes), drv.ask(&format!("ooxml {}", hex(bytes)))),
        "xlsb" => (open_xlsb(bytes), drv.ask(&format!("ooxml {}", hex(bytes)))),
        "xls" => {
            let it = open_xls(bytes);
            judge_xls_file(out, bytes, &it, drv, &format!("{label}:xls"));
            judge_xls_options(out, bytes, &it, expect_pw, drv, &format!("{label}:xls"));
            let m = match extract_workbook_stream(bytes) {
                Some(wb) => {
                    let g = frame_globals(&wb);
                    let r = drv.ask(&format!("xls {} {}", hex(&wb), recs_text(&g)));
                    let mut p = r.split(' ');
                    let (a, b) = (p.next().unwrap_or("").to_string(), p.next().unwrap_or("").to_string());
                    if a != b {
                        out.fail("model_vs_spec", "xls-stream-vs-records", &it, &r, "");
                    }
                    a
                }
                None => "n/a".into(),
            };
            (it, m)
        }
        "ods" => {
            let it = open_ods(bytes);
            let m = match extract_manifest(bytes) {
                Some(x) => {
                    let e = tokenize(&x);
                    drv.ask(&format!("ods {}", if e.is_empty() { "_".to_string() } else { e.join(",") }))
                }
                None => "n/a".into(),
            };
            (it, m)
        }
        x => panic!("format {x}"),
    };
    out.count(format!("{label}:{fmt}:impl={it}"));
    let open_at: &dyn Fn(&[u8], u64) -> String = match fmt {
        "xlsx" => &open_xlsx_at,
        "xlsb" => &open_xlsb_at,
        "xls" => &open_xls_at,
        _ => &open_ods_at,
    };
    judge_positions(out, fmt, bytes, &it, expect_pw, &model, open_at);
    judge_positions_auto(out, bytes, &model);
    out.count(format!("{label}:{fmt}:model={}", model.split(':').next().unwrap()));
    if model != "n/a" && !agree(&it, &model) {
        out.fail("impl_vs_model", &format!("{label}:{fmt}:impl={}:model={}", it.split(':').next().unwrap(), model.split(':').next().unwrap()), &it, &model, "");
    }
    if expect_pw {
        if it != "password" {
            out.fail("impl_vs_spec", &format!("{label}:{fmt}:encrypted-not-reported"), &it, &model, "password");
        }
    } else if it == "password" {
        out.fail("impl_vs_spec", &format!("false-positive:{fmt}"), &it, &model, "not password");
    }
}

fn gen_plain(fmt: &str, seed: u64) -> Vec<u8> {
    let mut rng = Rng::new(seed);
    match fmt {
        "xlsx" => {
            let mut book = xlsxw::XlsxBook::new();
            for si in 0..rng.range(1, 3) {
                let mut sh = xlsxw::XlsxSheet::new(&format!("S{si}"));
                for _ in 0..rng.below(12) {
                    let (r, c) = (rng.below(20) as u32, rng.below(10) as u32);
                    let cell = match rng.below(5) {
                        0 => xlsxw::XCell::num(&format!("{}", rng.below(10000) as f64 / 4.0)),
                        1 => xlsxw::XCell::shared(&format!("s{}", rng.below(5))),
                        2 => xlsxw::XCell::inline("EncryptedPackage"),
                        3 => xlsxw::XCell::new(xlsxw::XVal::Bool(rng.chance(1, 2))),
                        _ => xlsxw::XCell::num("1").with_formula("A1+1"),
                    };
                    sh.set(r, c, cell);
                }
                book.sheets.push(sh);
            }
            if rng.chance(1, 2) {
                book.workbook_extra = format!(
                    "<workbookProtection workbookAlgorithmName=\"SHA-512\" workbookHashValue=\"{}\" workbookSaltValue=\"c2FsdA==\" workbookSpinCount=\"100000\" lockStructure=\"1\" workbookPassword=\"{:04X}\"/>",
                    "QUJD".repeat(8), rng.range(1, 0xFFFF)
                );
                for sh in book.sheets.iter_mut() {
                    sh.extra_after_sheet_data = format!("<sheetProtection algorithmName=\"SHA-512\" hashValue=\"{}\" saltValue=\"c2FsdA==\" spinCount=\"100000\" password=\"{:04X}\" sheet=\"1\" objects=\"1\" scenarios=\"1\"/>", "QUJD".repeat(8), rng.range(1, 0xFFFF));
                }
            }
            if rng.chance(1, 3) {
                // an embedded OLE object that itself is an ENCRYPTED package: the compound-file magic and an
                // `EncryptedPackage` entry inside the zip do not make the workbook encrypted
                let inner = write_cfb(&[(ENC.to_string(), rng.bytes(300)), ("EncryptionInfo".to_string(), rng.bytes(100))], &CfbOpts::default(), &mut rng);
                book.extra_parts.push(("xl/embeddings/oleObject1.bin".to_string(), inner));
            }
            let l = xlsxw::Layout::random(&mut rng);
            book.build(&l).bytes
        }
        "xlsb" => {
            let mut book = xlsbw::XlsbBook::new();
            book.framing = match rng.below(3) {
                0 => xlsbw::Framing::Minimal,
                1 => xlsbw::Framing::Widest,
                _ => xlsbw::Framing::Random(rng.next()),
            };
            book.deflate = rng.chance(1, 2);
            book.date1904 = rng.chance(1, 4);
            for si in 0..rng.range(1, 3) {
                let mut sh = xlsbw::XlsbSheet::new(&format!("S{si}"));
                for _ in 0..rng.below(12) {
                    let (r, c) = (rng.below(20) as u32, rng.below(10) as u32);
                    let v = match rng.below(5) {
                        0 => xlsbw::BVal::real(rng.below(10000) as f64 / 4.0),
                        1 => xlsbw::BVal::str("EncryptedPackage"),
                        2 => xlsbw::BVal::rk_int(rng.below(1000) as i32, rng.chance(1, 2)),
                        3 => xlsbw::BVal::Bool(rng.below(2) as u8),
                        _ => xlsbw::BVal::Blank,
                    };
                    sh.set(r, c, v);
                }
                book.sheets.push(sh);
            }
            book.to_bytes()
        }
        "xls" => {
            let mut book = gen_book(seed | 1);
            for _ in 0..rng.below(3) {
                book.globals_head.push(benign(&mut rng));
            }
            if rng.chance(1, 2) {
                let blk = protection(&mut rng);
                if rng.chance(1, 2) { book.globals_head.extend(blk) } else { book.globals_tail.extend(blk) }
            }
            if rng.chance(1, 3) {
                // sheet protection: Protect / ScenProtect / ObjProtect / Password in the sheet substream
                for sh in book.sheets.iter_mut() {
                    let v = (rng.range(1, 0xFFFF) as u16).to_le_bytes().to_vec();
                    for (k, r) in [(0x0012u16, vec![1u8, 0]), (0x00DD, vec![1, 0]), (0x0063, vec![1, 0]), (0x0013, v)].into_iter().enumerate() {
                        sh.cells.insert(k, xlsw::XlsCell::raw(r.0, r.1));
                    }
                }
            }
            book.to_bytes(&mut rng)
        }
        "ods" => {
            let mut sheets = vec![];
            for si in 0..rng.range(1, 3) {
                let mut rows = vec![];
                for _ in 0..rng.below(5) {
                    let mut cells = vec![];
                    for _ in 0..rng.below(5) {
                        cells.push(match rng.below(4) {
                            0 => odsw::OdsCell::float(rng.below(1000) as f64 / 8.0),
                            1 => odsw::OdsCell::string("manifest:encryption-data"),
                            2 => odsw::OdsCell::boolean(rng.chance(1, 2)),
                            _ => odsw::OdsCell::empty_run(rng.range(1, 4) as usize),
                        });
                    }
                    rows.push(odsw::RowRun::new(cells));
                }
                sheets.push(odsw::OdsSheet::new(&format!("T{si}"), rows));
            }
            let mut b = odsw::OdsBook::new(sheets);
            b.stored = rng.chance(1, 2);
            if rng.chance(1, 2) {
                // sheet and structure protection (password hashes): not encryption
                let content = b
                    .content_xml()
                    .replace("<table:table table:name=", "<table:table table:protected=\"true\" table:protection-key=\"nU4eI71bcnBGqeO0t9tXvY1u5oQ=\" table:protection-key-digest-algorithm=\"http://www.w3.org/2000/09/xmldsig#sha1\" table:name=")
                    .replace("<office:spreadsheet>", "<office:spreadsheet table:structure-protected=\"true\" table:protection-key=\"nU4eI71bcnBGqeO0t9tXvY1u5oQ=\">");
                odsw::zip_parts(&b.manifest_xml(), &content, b.stored)
            } else {
                b.to_bytes()
            }
        }
        x => panic!("format {x}"),
    }
}

fn run_conv(text: &str, drv: &mut Driver) -> Outcome {
    let mut out = Outcome::default();
    let f: Vec<&str> = text.split(';').collect();
    let seed: u64 = f[2].parse().expect("seed");
    let bytes = gen_plain(f[1], seed);
    judge_plain(&mut out, f[1], &bytes, drv, false, "conv");
    out.nontrivial = true;
    out
}

fn run_fixture(text: &str, drv: &mut Driver) -> Outcome {
    let mut out = Outcome::default();
    let path = text.split_once(';').unwrap().1;
    let bytes = match std::fs::read(path) {
        Ok(b) => b,
        Err(_) => {
            out.count("fixture:unreadable");
            return out;
        }
    };
    let ext = path.rsplit('.').next().unwrap_or("");
    let fmt = match ext {
        "xlsx" | "xlsm" | "xlam" => "xlsx",
        "xlsb" => "xlsb",
        "xls" | "xla" => "xls",
        "ods" => "ods",
        _ => return out,
    };
    // the repo's encrypted fixtures (tests issue_102, issue_385, pass_protected_xlsb, pass_protected_ods)
    let expect_pw = path.contains("pass_protected") || path.ends_with("issue_385.xls");
    judge_plain(&mut out, fmt, &bytes, drv, expect_pw, "fixture");
    out.nontrivial = true;
    out
}

// ---------------------------------------------------------------------------------------------

fn run_case(text: &str, drv: &mut Driver, extras: bool) -> Outcome {
    match text.split(';').next().unwrap_or("") {
        "ooxml" => run_ooxml(text, drv, extras),
        "xls" => run_xls(text, drv, extras),
        "xlsraw" => run_xlsraw(text, drv),
        "ods" => run_ods(text, drv, extras),
        "conv" => run_conv(text, drv),
        "fixture" => run_fixture(text, drv),
        x => panic!("unknown case family {x}"),
    }
}

const PLAIN: &str = "ss=512,sh=0,msh=0,free=0,unused=0,dsh=0,minfat=0,fill=0,ls=1";
const PLAIN4: &str = "ss=4096,sh=0,msh=0,free=0,unused=0,dsh=0,minfat=0,fill=0,ls=1";

fn corpus() -> Vec<String> {
    let enc = hexs(ENC);
    let info = hexs("EncryptionInfo");
    vec![
        // D24: FILEPASS with wEncryptionType = 0 (XOR obfuscation), minimal workbook, first record after BOF
        format!("xls;{PLAIN};b0;47:00001234abcd;_;scr=0"),
        // … through the Lean encoder: BOF, FILEPASS(0, key, verifier), EOF
        format!("xlsraw;{PLAIN};2057:{};0;1234abcd;10:-", hex(&bof_payload())),
        // RC4 (type 1) at the same places; FILEPASS after other records; before the EOF at the very end
        format!("xls;{PLAIN};b0;47:0100010001{};_;scr=0", "00".repeat(48)),
        format!("xls;{PLAIN};b7;225:b004,134:-,47:00001234abcd;_;scr=1"),
        format!("xls;{PLAIN};b7;_;47:00001234abcd;scr=0"),
        // a FILEPASS payload too short to hold the type
        format!("xls;{PLAIN};b0;47:-;_;scr=0"),
        // no FILEPASS; near-miss record ids
        format!("xls;{PLAIN};b7;46:0000,48:0000,303:0000;_;scr=0"),
        // FILEPASS after the EOF of the globals: not part of the globals
        format!("xlsraw;{PLAIN};2057:{},10:-;1;0100;_", hex(&bof_payload())),
        // D25: version-4 container without a mini stream (every stream ≥ 4096 bytes)
        format!("ooxml;{PLAIN4};{enc}:r4096.1/{info}:r4096.2"),
        // v4 with a mini stream, v3 both placements, empty package stream
        format!("ooxml;{PLAIN4};{enc}:r100.1/{info}:r248.2"),
        format!("ooxml;{PLAIN};{enc}:r4095.1/{info}:r248.2"),
        format!("ooxml;{PLAIN};{enc}:r4096.1/{info}:r248.2"),
        format!("ooxml;{PLAIN};{enc}:r0.1"),
        // seeded change C20-m4: directory entries whose 64-byte name field holds stale characters behind the
        // terminating NUL (recycled entries); the name ends at the first NUL
        format!("ooxml;{PLAIN},ng=1;{enc}:r100.1/{info}:r248.2"),
        format!("ooxml;{PLAIN4},ng=1;{enc}:r5000.1/{info}:r248.2"),
        format!("xls;{PLAIN},ng=1;b0;47:00001234abcd;_;scr=0"),
        format!("xls;{PLAIN},ng=1;b7;_;_;scr=0;name=Book"),
        // seeded change C20-m5: containers larger than 1 MiB with the allocation tables and the directory at the
        // end / in the middle / at the start of the file
        format!("ooxml;{PLAIN},pl=1;{enc}:r1300000.1/{info}:r248.2"),
        format!("ooxml;{PLAIN4},pl=2;{enc}:r2500000.1/{info}:r248.2"),
        format!("ooxml;{PLAIN},pl=0,df=1;{enc}:r1300000.1/{info}:r248.2"),
        // seeded change C20-m11: containers of 17 – 20 MiB, allocation tables and directory at the end (beyond 2^24)
        format!("ooxml;{PLAIN},pl=1;{enc}:r17900000.1/{info}:r248.2"),
        format!("ooxml;{PLAIN4},pl=1;{enc}:r19500000.3/{info}:r5000.2"),
        // seeded change C20-m10: manifests of 2500 / 1200 entries with random names, deflated (zip=0/2) and stored
        // (zip=1), the only encrypted entry last / in the middle
        format!("ods;1;{};0;-*2499|E6d616e69666573743a616c676f726974686d;cut=-;zip=0;enc=1;names=hex", hexs("manifest:manifest")),
        format!("ods;1;{};1;-*600|T,E|-*599;cut=-;zip=2;enc=1;names=hex", hexs("manifest:manifest")),
        format!("ods;1;{};0;-*2499|E;cut=-;zip=1;enc=0;names=hex", hexs("manifest:manifest")),
        // seeded change C20-m14: zip signatures where zip readers probe — an empty end-of-central-directory record
        // exactly 22 bytes before the end, as trailing bytes and as the tail of the cipher text itself
        format!("ooxml;{PLAIN};{enc}:r100.1/{info}:r248.2;trail=eocd"),
        format!("ooxml;{PLAIN},df=1;{info}:r248.2/{enc}:r4074.1+x504b0506{}", "00".repeat(18)),
        format!("ooxml;{PLAIN4};{enc}:r5000.1/{info}:r248.2;trail=xlsx5"),
        // seeded change C20-m15: protection that is not encryption (Protect fLock=1 + Password verifier, WinProtect,
        // FileSharing with a write-reservation verifier) in a readable workbook
        format!("xls;{PLAIN};b7;25:0100,18:0100,19:cdab;_;scr=0"),
        format!("xls;{PLAIN};b7;91:0100cdab04000075736572;18:0100,19:cdab,431:0100,444:3412;scr=0"),
        // seeded change C20-m16: an encrypted workbook holding an embedded Excel object with its own plain `Workbook`
        // stream, listed after / before the top-level stream in the directory
        format!("xls;{PLAIN};b7;47:00001234abcd;_;scr=0;name=Workbook;sheetfp=0;emb=1"),
        format!("xls;{PLAIN};b7;47:00001234abcd;_;scr=0;name=Workbook;sheetfp=0;emb=2"),
        // seeded change C20-m17: an ods encrypted as a whole package (ODF 1.3): mimetype, a manifest with one encrypted
        // file-entry, `encrypted-package`, NO content.xml — manifest first and last in the zip; and with content.xml
        format!("ods;1;{};0;-|E6d616e69666573743a616c676f726974686d+6d616e69666573743a6b65792d64657269766174696f6e;cut=-;zip=0;enc=1;pkg=1", hexs("manifest:manifest")),
        format!("ods;1;{};0;E;cut=-;zip=3;enc=1;pkg=1", hexs("manifest:manifest")),
        format!("ods;1;{};0;-|E;cut=-;zip=0;enc=1;pkg=2", hexs("manifest:manifest")),
        format!("ods;1;{};0;-|-|E|-;cut=-;zip=1;enc=1;pkg=4", hexs("manifest:manifest")),
        // compound files that are not encrypted packages
        format!("ooxml;{PLAIN};{}:r100.1/{info}:r248.2", hexs("encryptedpackage")),
        format!("ooxml;{PLAIN};_"),
        // ods: one encrypted entry; the second of three; none; encryption-data named element outside an `enc` child
        "ods;1;6d616e69666573743a6d616e6966657374;0;-|E6d616e69666573743a616c676f726974686d;cut=-;zip=0;enc=1".to_string(),
        "ods;2;6d616e69666573743a6d616e6966657374;1;-|T,E|-;cut=-;zip=3;enc=1".to_string(),
        "ods;1;6d616e69666573743a6d616e6966657374;0;-|-;cut=-;zip=0;enc=0".to_string(),
        "ods;0;6d;0;_;cut=-;zip=1;enc=0".to_string(),
        // the repo's two encrypted fixtures
        "fixture;/repo/tests/pass_protected.xlsb".to_string(),
        "fixture;/repo/tests/pass_protected.ods".to_string(),
        "fixture;/repo/tests/pass_protected.xlsx".to_string(),
        "fixture;/repo/tests/issue_385.xls".to_string(),
    ]
}

fn fixtures() -> Vec<String> {
    let mut v = vec![];
    if let Ok(rd) = std::fs::read_dir("/repo/tests") {
        for e in rd.flatten() {
            let p = e.path();
            let ext = p.extension().and_then(|x| x.to_str()).unwrap_or("").to_string();
            if ["xlsx", "xlsm", "xlam", "xlsb", "xls", "xla", "ods"].contains(&ext.as_str()) {
                v.push(format!("fixture;{}", p.display()));
            }
        }
    }
    v.sort();
    v
}

fn main() {
    let args = Args::parse();
    let mut drv = Driver::spawn(&args.driver);
    let mut rep = Report::new(
        "C20",
        "encrypted OOXML packages (compound files from cfbw: v3/v4, shuffled/fragmented, free sectors, DIFAT, stale characters behind the NUL of directory names, EncryptedPackage of \
         0..70000 bytes in the mini stream or in regular sectors, EncryptionInfo standard/agile/extensible headers + arbitrary bytes, \
         DataSpaces streams; near-miss names as negatives; one in eight followed by trailing bytes that spell zip signatures (EOCD 22 bytes before the end, with comment, local header, a whole plain xlsx) and one in 100 whose cipher text ends the file with an EOCD record; one case in 500 with a 1.2-3 MiB package and the allocation tables/directory at the start, end or middle of the file, and two corpus containers of 17-20 MiB with the tables at the end (no Lean model above 4 MiB); one in ten truncated or with one byte overwritten: impl vs model only) opened with Xlsx::new and Xlsb::new; BIFF8 workbooks from xlsw with a \
         FILEPASS record (wEncryptionType 0 / 1 RC4 / 1 CryptoAPI / other / truncated; every workbook also opened through Xls::new_with_options with forced code pages 1252/1200/932/unknown and header rows: same verdict) first after BOF, after other globals records, \
         or last before EOF, stream named Workbook or Book, rest of the stream optionally replaced by noise, a FILEPASS-typed record inside a sheet substream as a negative, protection records that are not encryption (Protect+Password, WinProtect, FileSharing, Prot4Rev, ObjProtect, ScenProtect; workbookProtection/sheetProtection in xlsx, table protection in ods, an encrypted package embedded as an OLE object in a plain xlsx), an embedded Excel object with its own plain Workbook stream next to the encrypted top-level one, plus globals streams laid out by the Lean encoder; \
         ods packages whose manifest (0..40 entries, encryption-data in any subset of them, other children, comments, white space, \
         unusual root names, optionally truncated; one case in 500 with 600-3000 entries of random names, stored or deflated, the encrypted entry first/middle/last) is serialized from a logical description; package shapes: content.xml as cipher text, whole-package encryption (`encrypted-package`, no content.xml), both, all the usual parts with and without content.xml; conversely random unencrypted workbooks \
         of the four formats from the shared writers and every fixture of /repo/tests. every file is opened through readers handed over at offset 0, 4, 8, mid-file and EOF (all four readers and open_workbook_auto_from_rs): the result class must not depend on it. impl = the reader's constructor result class, \
         model = Lean decision logic on the same bytes/records/events, oracle = the description's own encrypted flag. \
         Outside the generator: manifests with a namespace prefix other than `manifest:`, compound files with storages as a tree. \
         non-trivial = encrypted case, or unencrypted generated workbook / fixture; distinct by description text",
    );
    rep.notes.push("C20: the container theorems rest on C13's compound-file model and round-trip lemmas (Lemmas/Cfb.lean); the zip reader, quick-xml tokenisation and the record arms other than FILEPASS/EOF are not modelled".into());
    let mut cases: Vec<String> = vec![];
    if let Some(inp) = &args.replay {
        cases.push(inp.clone());
    } else {
        cases.extend(corpus());
        cases.extend(fixtures());
        let n = args.count(2000, 100_000);
        let mut rng = Rng::new(args.seed);
        let thorough = args.thorough();
        for i in 0..n {
            let mut r = rng.fork();
            if i % 500 == 375 {
                cases.push(gen_ods_big(&mut r));
                continue;
            }
            if i % 100 == 55 {
                cases.push(gen_ooxml_ciphertext_tail(&mut r));
                continue;
            }
            if i % 500 == 125 {
                cases.push(gen_ooxml_big(&mut r));
                continue;
            }
            let c = match i % 20 {
                0..=5 => gen_ooxml(&mut r, thorough),
                6..=9 => gen_xls(&mut r),
                10..=11 => gen_xlsraw(&mut r),
                12..=15 => gen_ods(&mut r, thorough),
                16 => format!("conv;xlsx;{}", r.below(1 << 40)),
                17 => format!("conv;xlsb;{}", r.below(1 << 40)),
                18 => format!("conv;xls;{}", r.below(1 << 40)),
                _ => format!("conv;ods;{}", r.below(1 << 40)),
            };
            cases.push(c);
        }
    }
    let ncorpus = corpus().len();
    // the auto-detection entry points are exercised on the corpus and on one case out of 16
    let replaying = args.replay.is_some();
    let extras_for = move |i: usize| replaying || i < ncorpus || i % 16 == 0;
    let mut absorb = |rep: &mut Report, text: &str, out: Outcome| {
        rep.case(text, out.nontrivial);
        rep.count(&format!("family:{}", text.split(';').next().unwrap_or("")));
        for c in &out.counters {
            rep.count(c);
        }
        // a case that contradicts the property is reported as such; the model (= the property there) then
        // necessarily disagrees with the implementation too, which is not reported a second time
        let spec_fail = out.fails.iter().any(|f| f.0 == "impl_vs_spec");
        for (kind, sig, im, mo, ex) in &out.fails {
            if spec_fail && kind == "impl_vs_model" {
                continue;
            }
            rep.fail(kind, sig, text, im, mo, ex);
        }
    };
    let workers = if cases.len() >= 3_000 { std::thread::available_parallelism().map(|n| n.get()).unwrap_or(1).clamp(1, 8) } else { 1 };
    if workers == 1 {
        for (i, text) in cases.iter().enumerate() {
            let out = run_case(text, &mut drv, extras_for(i));
            absorb(&mut rep, text, out);
        }
    } else {
        // several workers, each with its own driver process; results are absorbed in case order
        verif_harness::silence_panics();
        let cases = std::sync::Arc::new(cases);
        let mut handles = vec![];
        for w in 0..workers {
            let cases = cases.clone();
            let path = args.driver.clone();
            handles.push(std::thread::spawn(move || {
                let mut d = Driver::spawn(&path);
                let mut res = vec![];
                let mut i = w;
                while i < cases.len() {
                    res.push((i, run_case(&cases[i], &mut d, extras_for(i))));
                    i += workers;
                }
                (res, d.requests)
            }));
        }
        let mut all: Vec<(usize, Outcome)> = vec![];
        for h in handles {
            let (res, rq) = h.join().expect("worker");
            rep.add("driver_requests", rq);
            all.extend(res);
        }
        all.sort_by_key(|x| x.0);
        for (i, out) in all {
            absorb(&mut rep, &cases[i], out);
        }
        rep.add("workers", workers as u64);
    }
    rep.add("driver_requests", drv.requests);
    rep.write(&args.out);
}
