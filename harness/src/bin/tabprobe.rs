//! Behavioural tie of the translated tables (DESIGN.md §3.1, fallback of the translator).
//!
//! `drv_tables` (lean/Driver/Tables.lean) prints `<table> <point> <answer of the model functions that consume the
//! committed Gen table>`; this program reads those lines on stdin, evaluates the implementation at the same points
//! and prints a JSON summary: per table the number of points and the first differences. Finite domains are complete
//! (`code`: every u16; `xlserr` / `xlsberr`: every byte; `xlsmeta`: every (hsState, dt) byte pair; `ftab`: every
//! index), the string / u32 keyed ones are the table's keys plus near misses (sampled).
//!
//! Used by ./check when tools/extract_tables.py cannot read a table from the source any more (the code was rewritten
//! into a shape the translator does not know): the tie of that table to the code is then this comparison instead of
//! the translation. Needs the `verif-hooks` feature for the private tables.
use calamine::{CellErrorType, Data, Reader, SheetType, SheetVisible, Xlsb, Xlsx};
use std::collections::BTreeMap;
use std::io::{BufRead, Cursor};
use verif_harness::xlsbw::{zip_parts, BVal, XlsbBook, XlsbSheet};
use verif_harness::{guarded, silence_panics, unhex};

fn err_tag(e: &CellErrorType) -> &'static str {
    match e {
        CellErrorType::Div0 => "Div0",
        CellErrorType::NA => "NA",
        CellErrorType::Name => "Name",
        CellErrorType::Null => "Null",
        CellErrorType::Num => "Num",
        CellErrorType::Ref => "Ref",
        CellErrorType::Value => "Value",
        CellErrorType::GettingData => "GettingData",
    }
}
fn vis_tag(v: SheetVisible) -> &'static str {
    match v {
        SheetVisible::Visible => "Visible",
        SheetVisible::Hidden => "Hidden",
        SheetVisible::VeryHidden => "VeryHidden",
    }
}
fn kind_tag(k: SheetType) -> &'static str {
    match k {
        SheetType::WorkSheet => "WorkSheet",
        SheetType::DialogSheet => "DialogSheet",
        SheetType::MacroSheet => "MacroSheet",
        SheetType::ChartSheet => "ChartSheet",
        SheetType::Vba => "Vba",
    }
}
fn point_string(h: &str) -> String {
    if h == "-" {
        String::new()
    } else {
        String::from_utf8_lossy(&unhex(h)).into_owned()
    }
}
fn xml_escape(s: &str) -> String {
    s.replace('&', "&amp;").replace('<', "&lt;").replace('>', "&gt;").replace('"', "&quot;")
}

fn xlsx_with(state: Option<&str>, folder: &str) -> Vec<u8> {
    let st = state.map(|s| format!(" state=\"{}\"", xml_escape(s))).unwrap_or_default();
    let wb = format!(
        "<?xml version=\"1.0\" encoding=\"UTF-8\"?><workbook xmlns=\"http://schemas.openxmlformats.org/spreadsheetml/2006/main\" xmlns:r=\"http://schemas.openxmlformats.org/officeDocument/2006/relationships\"><sheets><sheet name=\"S\" sheetId=\"1\"{st} r:id=\"rId1\"/></sheets></workbook>"
    );
    let rels = format!(
        "<?xml version=\"1.0\" encoding=\"UTF-8\"?><Relationships xmlns=\"http://schemas.openxmlformats.org/package/2006/relationships\"><Relationship Id=\"rId1\" Type=\"http://schemas.openxmlformats.org/officeDocument/2006/relationships/worksheet\" Target=\"{}/sheet1.xml\"/></Relationships>",
        xml_escape(folder)
    );
    let sheet = "<?xml version=\"1.0\" encoding=\"UTF-8\"?><worksheet xmlns=\"http://schemas.openxmlformats.org/spreadsheetml/2006/main\"><sheetData/></worksheet>";
    zip_parts(
        &[
            ("xl/workbook.xml".to_string(), wb.into_bytes()),
            ("xl/_rels/workbook.xml.rels".to_string(), rels.into_bytes()),
            (format!("xl/{folder}/sheet1.xml"), sheet.as_bytes().to_vec()),
        ],
        true,
    )
}

fn xlsx_meta(bytes: Vec<u8>) -> Option<(SheetVisible, SheetType)> {
    guarded(move || {
        let x: Xlsx<_> = Xlsx::new(Cursor::new(bytes)).ok()?;
        let m = x.sheets_metadata().first()?.clone();
        Some((m.visible, m.typ))
    })
    .ok()
    .flatten()
}

fn xlsb_meta(book: &XlsbBook) -> Option<(SheetVisible, SheetType)> {
    let bytes = book.to_bytes();
    guarded(move || {
        let x: Xlsb<_> = Xlsb::new(Cursor::new(bytes)).ok()?;
        let m = x.sheets_metadata().first()?.clone();
        Some((m.visible, m.typ))
    })
    .ok()
    .flatten()
}

#[cfg(feature = "hooks")]
fn eval(table: &str, f: &[&str]) -> Option<String> {
    use calamine::verif_hooks::formats::{builtin_format_by_code, builtin_format_by_id, CellFormat};
    use calamine::verif_hooks::utils::{FTAB, FTAB_ARGC, FTAB_LEN};
    let fmt = |c: CellFormat| match c {
        CellFormat::Other => "Other",
        CellFormat::DateTime => "DateTime",
        CellFormat::TimeDelta => "TimeDelta",
    };
    Some(match table {
        "code" => {
            let n: u16 = f[0].parse().ok()?;
            guarded(move || fmt(builtin_format_by_code(n)).to_string()).unwrap_or("panic".into())
        }
        "id" => {
            let b = if f[0] == "-" { vec![] } else { unhex(f[0]) };
            guarded(move || fmt(builtin_format_by_id(&b)).to_string()).unwrap_or("panic".into())
        }
        "xlserr" => {
            let b: u8 = f[0].parse().ok()?;
            let p = [0u8, 0, 0, 0, 0, 0, b, 1];
            match guarded(move || calamine::verif_hooks::xls::c02_parse_bool_err(&p)) {
                Ok(Ok(c)) => match c.get_value() {
                    Data::Error(e) => err_tag(e).to_string(),
                    other => format!("{other:?}"),
                },
                Ok(Err(_)) => "-".into(),
                Err(_) => "panic".into(),
            }
        }
        "xlsberr" => {
            let b: u8 = f[0].parse().ok()?;
            let mut book = XlsbBook::new();
            let mut s = XlsbSheet::new("S");
            s.set(0, 0, BVal::Error(b));
            book.sheets.push(s);
            let bytes = book.to_bytes();
            match guarded(move || {
                let mut x: Xlsb<_> = Xlsb::new(Cursor::new(bytes)).map_err(|e| format!("{e:?}"))?;
                let r = x.worksheet_range("S").map_err(|e| format!("{e:?}"))?;
                Ok::<_, String>(r.get_value((0, 0)).cloned())
            }) {
                Ok(Ok(Some(Data::Error(e)))) => err_tag(&e).to_string(),
                Ok(Ok(other)) => format!("{other:?}"),
                Ok(Err(_)) => "-".into(),
                Err(_) => "panic".into(),
            }
        }
        "xlsmeta" => {
            let hs: u8 = f[0].parse().ok()?;
            let dt: u8 = f[1].parse().ok()?;
            let p = [0u8, 0, 0, 0, hs, dt, 1, 0, b'S'];
            match guarded(move || calamine::verif_hooks::xls::c16_sheet_metadata(&p, 1200, true)) {
                Ok(Ok((_, _, v, k))) => {
                    let v = ["Visible", "Hidden", "VeryHidden"].get(v as usize).copied().unwrap_or("?");
                    let k = ["WorkSheet", "DialogSheet", "MacroSheet", "ChartSheet", "Vba"].get(k as usize).copied().unwrap_or("?");
                    format!("{v} {k}")
                }
                Ok(Err(_)) => "-".into(),
                Err(_) => "panic".into(),
            }
        }
        "ftablen" => {
            if FTAB.len() == FTAB_LEN && FTAB_ARGC.len() == FTAB_LEN {
                format!("{FTAB_LEN}")
            } else {
                format!("{}/{}/{}", FTAB_LEN, FTAB.len(), FTAB_ARGC.len())
            }
        }
        "ftab" => {
            let i: usize = f[0].parse().ok()?;
            let name = FTAB.get(i).copied().unwrap_or("");
            let hexname = if name.is_empty() { "-".to_string() } else { verif_harness::hex(name.as_bytes()) };
            format!("{} {}", hexname, FTAB_ARGC.get(i).copied().unwrap_or(0))
        }
        "xlsxerr" => {
            let s = point_string(f[0]);
            match guarded(move || s.parse::<CellErrorType>()) {
                Ok(Ok(e)) => err_tag(&e).to_string(),
                Ok(Err(_)) => "-".into(),
                Err(_) => "panic".into(),
            }
        }
        "xlsxvis" => {
            let s = point_string(f[0]);
            xlsx_meta(xlsx_with(Some(&s), "worksheets")).map(|m| vis_tag(m.0).to_string()).unwrap_or("-".into())
        }
        "xlsxkind" => {
            let s = point_string(f[0]);
            xlsx_meta(xlsx_with(None, &s)).map(|m| kind_tag(m.1).to_string()).unwrap_or("-".into())
        }
        "xlsbkind" => {
            let seg = point_string(f[0]);
            let mut book = XlsbBook::new();
            let mut s = XlsbSheet::new("S");
            s.part = Some(format!("{seg}/sheet1.bin"));
            book.sheets.push(s);
            xlsb_meta(&book).map(|m| kind_tag(m.1).to_string()).unwrap_or("-".into())
        }
        "xlsbvis" => {
            let n: u32 = f[0].parse().ok()?;
            let mut book = XlsbBook::new();
            let mut s = XlsbSheet::new("S");
            s.state = n;
            book.sheets.push(s);
            xlsb_meta(&book).map(|m| vis_tag(m.0).to_string()).unwrap_or("-".into())
        }
        _ => return None,
    })
}

#[cfg(not(feature = "hooks"))]
fn eval(_table: &str, _f: &[&str]) -> Option<String> {
    None
}

fn main() {
    silence_panics();
    let stdin = std::io::stdin();
    let mut pts: BTreeMap<String, (u64, Vec<String>)> = BTreeMap::new();
    let mut unknown = 0u64;
    for line in stdin.lock().lines() {
        let line = line.expect("stdin");
        let w: Vec<&str> = line.split(' ').collect();
        if w.len() < 3 {
            continue;
        }
        let table = w[0];
        // the number of point fields of each table; the rest of the line is the model's answer
        let np = if table == "xlsmeta" { 2 } else { 1 };
        let expect = w[1 + np..].join(" ");
        let expect = if table == "ftablen" { w[1].to_string() } else { expect };
        let got = match eval(table, &w[1..1 + np]) {
            Some(g) => g,
            None => {
                unknown += 1;
                continue;
            }
        };
        let e = pts.entry(table.to_string()).or_default();
        e.0 += 1;
        if got != expect && e.1.len() < 5 {
            e.1.push(format!("{} : implementation {:?}, committed table {:?}", w[1..1 + np].join(" "), got, expect));
        } else if got != expect {
            e.1.push(String::new());
        }
    }
    let exhaustive = ["code", "xlserr", "xlsberr", "xlsmeta", "ftab", "ftablen"];
    let mut out = serde_json::Map::new();
    for (t, (n, diffs)) in &pts {
        out.insert(
            t.clone(),
            serde_json::json!({
                "points": n,
                "domain": if exhaustive.contains(&t.as_str()) { "complete" } else { "table keys, near misses and a list of plausible other keys (sampled)" },
                "differences": diffs.len(),
                "first_differences": diffs.iter().filter(|d| !d.is_empty()).collect::<Vec<_>>(),
            }),
        );
    }
    out.insert("unevaluated_lines".into(), serde_json::json!(unknown));
    out.insert("hooks".into(), serde_json::json!(cfg!(feature = "hooks")));
    println!("{}", serde_json::Value::Object(out));
}
