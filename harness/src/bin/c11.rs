//! C11 — serial date-times convert to the right calendar date, time and duration.
//!
//!   impl   : the real `ExcelDateTime::{as_datetime, as_duration}` and the trait-level
//!            `DataType::{as_datetime, as_date, as_time, as_duration}` of `Data` / `DataRef`
//!            (feature `dates`, chrono), in-process, every call under `catch_unwind`;
//!   model  : the Lean model (`drv_c11`, the definitions the theorems of Props/C11 are about).
//!            Lean does not reason about floats, so the float step `round(f * 86_400_000)` (with
//!            the 1904 offset and the `< 60 => + 1` shim, in the code's order) is evaluated here
//!            with the same expression and sent to the driver as an integer;
//!   oracle : (a) the float step against an exact computation on the f64's mantissa/exponent in
//!            i128 arithmetic (ideal rounding of the exact product, with a tolerance of the
//!            accumulated float error only where an operation was inexact);
//!            (b) the calendar against an independent days-from-civil function (the inverse
//!            direction, written from the "days before year y" formula and a month table), an
//!            incrementing y/m/d counter for the whole-day sweep, and chrono's documented span.
use calamine::{Cell, CellErrorType, Data, DataRef, DataType, ExcelDateTime, ExcelDateTimeType, Range, RangeDeserializerBuilder};
use chrono::{Datelike, NaiveDate, NaiveDateTime, NaiveTime, Timelike};
use std::collections::BTreeMap;
use std::fmt::Write as _;
use verif_harness::{driver::Driver, fnv64, guarded, report::Report, rng::Rng, Args};

const MS_PER_DAY: i64 = 86_400_000;

// ---------------------------------------------------------------------------------------------
// float step — the same expressions as src/datatype.rs (after fix D26)
// ---------------------------------------------------------------------------------------------

#[derive(Clone, Copy, PartialEq, Debug)]
enum MsIn {
    NonFinite,
    Ms(i64),
}

impl MsIn {
    fn wire(&self) -> String {
        match self {
            MsIn::NonFinite => "nf".into(),
            MsIn::Ms(v) => v.to_string(),
        }
    }
}

fn date_step(value: f64, is_1904: bool) -> MsIn {
    let f = if is_1904 { value + 1462. } else { value };
    let f = if f >= 60.0 { f } else { f + 1.0 };
    let ms = f * (24f64 * 60f64 * 60f64 * 1e+3f64);
    if !ms.is_finite() {
        return MsIn::NonFinite;
    }
    MsIn::Ms(ms.round() as i64)
}

fn dur_step(value: f64) -> MsIn {
    let ms = value * (24f64 * 60f64 * 60f64 * 1e+3f64);
    if !ms.is_finite() {
        return MsIn::NonFinite;
    }
    MsIn::Ms(ms.round() as i64)
}

/// The serial as the model takes it (`Serial` in Model/Dates.lean): the whole-day part exactly,
/// the fractional part only as the ROUNDED millisecond-of-day the real float expression gave on
/// each path — never the day number or the date system, which the model derives itself.
fn serial_wire(v: f64) -> String {
    const D: i64 = MS_PER_DAY;
    if v.is_finite() && v.abs() <= 1e8 {
        let fl = v.floor();
        if v == fl {
            return format!("w:{}", fl as i64);
        }
        let fr = v - fl; // exact
        let r = |m: MsIn| -> i64 {
            match m {
                MsIn::Ms(x) => {
                    let b = x.rem_euclid(D);
                    if fr >= 0.5 && b < D / 2 {
                        D // rounded up to the next midnight
                    } else {
                        b
                    }
                }
                MsIn::NonFinite => unreachable!(),
            }
        };
        format!("f:{}:{}:{}:{}", fl as i64, r(date_step(v, false)), r(date_step(v, true)), r(dur_step(v)))
    } else {
        format!("r:{}:{}:{}", date_step(v, false).wire(), date_step(v, true).wire(), dur_step(v).wire())
    }
}

/// a numeric / date-time cell in the driver's syntax
fn cell_wire(kind: &str, v: f64, as_int: i64, td: bool, is_1904: bool) -> String {
    match kind {
        "int" if as_int.unsigned_abs() <= 100_000_000 => format!("int {as_int}"),
        "int" => format!("float {}", serial_wire(as_int as f64)),
        "float" => format!("float {}", serial_wire(v)),
        "dt" => format!("dt {} {} {}", serial_wire(v), sys_name(is_1904), if td { "td" } else { "dt" }),
        _ => "other".to_string(),
    }
}

fn wire_time(t: &NaiveTime) -> String {
    format!("{}/{}/{}/{}", t.hour(), t.minute(), t.second(), t.nanosecond() / 1_000_000)
}
fn wire_date(d: &NaiveDate) -> String {
    format!("{}/{}/{}", d.year(), d.month(), d.day())
}

/// an ISO cell in the driver's syntax: the outcomes of the chrono parsers the code calls on the text
fn iso_wire(text: &str, is_dur: bool) -> String {
    use std::str::FromStr;
    if is_dur {
        let pt = NaiveTime::parse_from_str(text, "PT%HH%MM%S%.fS").ok();
        format!("isodur {}", opt(&pt, wire_time))
    } else {
        let pdt = NaiveDateTime::from_str(text).ok();
        let pd = NaiveDate::from_str(text).ok();
        let pt = NaiveTime::from_str(text).ok();
        format!(
            "iso {} {} {}",
            opt(&pdt, |x| format!("{}/{}", wire_date(&x.date()), wire_time(&x.time()))),
            opt(&pd, wire_date),
            opt(&pt, wire_time)
        )
    }
}

// ---------------------------------------------------------------------------------------------
// oracle (a): exact rounding of the float step
// ---------------------------------------------------------------------------------------------

/// what the float step may legitimately produce
#[derive(Debug, Clone, PartialEq)]
enum Ideal {
    NonFinite,
    /// inclusive range of acceptable results: the ideal integer alone when every float operation
    /// was exact or the exact product is farther from a rounding tie than the accumulated float
    /// error; otherwise every rounding of a value within that error bound of the exact product
    /// (two neighbours below 2^53 ms; wider only beyond, where an f64 cannot resolve 1 ms)
    Ms(i64, i64),
}

fn sat(v: i128) -> i64 {
    if v > i64::MAX as i128 {
        i64::MAX
    } else if v < i64::MIN as i128 {
        i64::MIN
    } else {
        v as i64
    }
}

fn sigbits(v: u128) -> u32 {
    if v == 0 {
        0
    } else {
        128 - v.leading_zeros() - v.trailing_zeros()
    }
}

/// exact `round_half_away((value + offset) * 86_400_000)` where `offset` is what the code adds
/// (1462 for the 1904 system, then 1 when the sum is below 60); `date = false` is the duration
/// step (no offset).  Returns the acceptable results and the number of additions performed.
fn ideal_step(value: f64, date: bool, is_1904: bool) -> Ideal {
    if value.is_nan() || value.is_infinite() {
        return Ideal::NonFinite;
    }
    let bits = value.to_bits();
    let neg = bits >> 63 == 1;
    let e = ((bits >> 52) & 0x7ff) as i32;
    let frac = bits & ((1u64 << 52) - 1);
    let (mant, exp) = if e == 0 { (frac, -1074) } else { (frac | (1u64 << 52), e - 1075) };
    // value = ±mant * 2^exp
    let q: u128 = mant as u128 * MS_PER_DAY as u128; // |value| * 86_400_000 = q * 2^exp, q < 2^80
    // huge magnitudes: |value| >= 2^40 days — the product is beyond ±2^63 ms whatever the offset
    if mant != 0 && exp + 52 >= 40 {
        // does the f64 product overflow to ±inf?  fl(x) = inf  <=>  x >= 2^1024 - 2^970
        // (the offset is far below half an ulp here, the sum is `value` itself)
        let lim: u128 = (1u128 << 54) - 1; // * 2^970
        let overflow = if exp >= 970 {
            let sh = (exp - 970) as u32;
            sh >= 40 || (q << sh) >= lim
        } else {
            let sh = (970 - exp) as u32;
            sh < 70 && q >= (lim << sh)
        };
        if overflow {
            return Ideal::NonFinite;
        }
        let m = if neg { i64::MIN } else { i64::MAX };
        return Ideal::Ms(m, m);
    }
    // offset the code adds, decided on exact values
    let mut off: i64 = 0;
    let mut adds = 0u32;
    if date {
        // compare value (+1462) with 60 exactly: value >= c  <=>  !neg && mant*2^exp >= c  (c > 0)
        let ge = |c: u64| -> bool {
            if neg || mant == 0 {
                return false;
            }
            if exp >= 0 {
                exp >= 64 || (mant as u128) << exp >= c as u128
            } else if -exp >= 100 {
                false
            } else {
                mant as u128 >= (c as u128) << (-exp)
            }
        };
        // value + 1462 >= 60 <=> value >= -1402
        let ge_neg = |c: u64| -> bool {
            // value >= -c  (c > 0)
            if !neg || mant == 0 {
                return true;
            }
            if exp >= 0 {
                exp < 64 && (mant as u128) << exp <= c as u128
            } else if -exp >= 100 {
                true
            } else {
                mant as u128 <= (c as u128) << (-exp)
            }
        };
        if is_1904 {
            off += 1462;
            adds += 1;
            if !ge_neg(1402) {
                off += 1;
                adds += 1;
            }
        } else if !ge(60) {
            off += 1;
            adds += 1;
        }
    }
    let int_part: i128 = off as i128 * MS_PER_DAY as i128;
    if mant == 0 {
        return Ideal::Ms(sat(int_part), sat(int_part));
    }
    let s = -exp; // scale: value*86_400_000 = ±q / 2^s
    if s <= 0 {
        let p = int_part + if neg { -((q << (-s) as u32) as i128) } else { (q << (-s) as u32) as i128 };
        return Ideal::Ms(sat(p), sat(p));
    }
    if s > 88 {
        // |value| * 86_400_000 < 2^-8 ms: the product is the integer offset part (or 0)
        return Ideal::Ms(sat(int_part), sat(int_part));
    }
    let s = s as u32;
    // exact fixed point, unit 2^-s ms
    let t: i128 = (int_part << s) + if neg { -(q as i128) } else { q as i128 };
    let a: u128 = t.unsigned_abs();
    // round half away from zero of a fixed-point value
    let rha = |x: i128| -> i128 {
        let m = x.unsigned_abs();
        let ip = (m >> s) as i128;
        let up = m & ((1u128 << s) - 1) >= 1u128 << (s - 1);
        (if x < 0 { -1 } else { 1 }) * (if up { ip + 1 } else { ip })
    };
    let ideal = rha(t);
    // were all float operations exact?  (each sum and the product have <= 53 significant bits)
    let sum_fixed: i128 = ((off as i128) << s) + if neg { -(mant as i128) } else { mant as i128 };
    let first_sum: i128 = (1462i128 << s) + if neg { -(mant as i128) } else { mant as i128 };
    let exact = sigbits(sum_fixed.unsigned_abs()) <= 53 && sigbits(a) <= 53 && (adds < 2 || sigbits(first_sum.unsigned_abs()) <= 53);
    if exact {
        return Ideal::Ms(sat(ideal), sat(ideal));
    }
    // accumulated error bound: (1 + 3*adds)/2 ulp of the product, in units of 2^-s
    let l = 128 - a.leading_zeros();
    let ulp: u128 = if l > 53 { 1u128 << (l - 53) } else { 1 };
    let tol = (ulp * (1 + 3 * adds as u128) / 2 + 1) as i128;
    Ideal::Ms(sat(rha(t - tol)), sat(rha(t + tol)))
}

// ---------------------------------------------------------------------------------------------
// oracle (b): independent calendar
// ---------------------------------------------------------------------------------------------

fn leap(y: i64) -> bool {
    (y % 4 == 0 && y % 100 != 0) || y % 400 == 0
}

const CUM: [i64; 12] = [0, 31, 59, 90, 120, 151, 181, 212, 243, 273, 304, 334];
const MLEN: [u32; 12] = [31, 28, 31, 30, 31, 30, 31, 31, 30, 31, 30, 31];

fn month_len(y: i64, m: u32) -> u32 {
    if m == 2 && leap(y) {
        29
    } else {
        MLEN[(m - 1) as usize]
    }
}

/// days from 0001-01-01 (day 0) to y-m-d in the proleptic Gregorian calendar
fn days_from_civil(y: i64, m: u32, d: u32) -> i64 {
    let p = y - 1;
    let before_year = 365 * p + p.div_euclid(4) - p.div_euclid(100) + p.div_euclid(400);
    before_year + CUM[(m - 1) as usize] + if m > 2 && leap(y) { 1 } else { 0 } + (d as i64 - 1)
}

fn epoch_days() -> i64 {
    days_from_civil(1899, 12, 30)
}

/// chrono's documented span: NaiveDate::MIN = -262143-01-01, NaiveDate::MAX = +262142-12-31
fn span_ms() -> (i128, i128) {
    let lo = (days_from_civil(-262143, 1, 1) - epoch_days()) as i128 * MS_PER_DAY as i128;
    let hi = (days_from_civil(262142, 12, 31) - epoch_days() + 1) as i128 * MS_PER_DAY as i128 - 1;
    (lo, hi)
}

/// milliseconds since the epoch 1899-12-30T00:00 of a chrono date-time, through the independent
/// calendar; `Err` when the components are not a well-formed date/time
fn ms_of_datetime(dt: &NaiveDateTime) -> Result<i128, String> {
    let (y, m, d) = (dt.year() as i64, dt.month(), dt.day());
    if !(1..=12).contains(&m) || d < 1 || d > month_len(y, m) {
        return Err(format!("invalid date {y}-{m}-{d}"));
    }
    let (h, mi, s, ns) = (dt.hour(), dt.minute(), dt.second(), dt.nanosecond());
    if h > 23 || mi > 59 || s > 59 || ns >= 1_000_000_000 || ns % 1_000_000 != 0 {
        return Err(format!("invalid time {h}:{mi}:{s} ns={ns}"));
    }
    let days = days_from_civil(y, m, d) - epoch_days();
    Ok(days as i128 * MS_PER_DAY as i128 + ((h as i128 * 60 + mi as i128) * 60 + s as i128) * 1000 + (ns / 1_000_000) as i128)
}

// ---------------------------------------------------------------------------------------------
// canonical text shared with the driver
// ---------------------------------------------------------------------------------------------

fn show_date(d: &NaiveDate) -> String {
    format!("{}-{}-{}", d.year(), d.month(), d.day())
}
fn show_time(t: &NaiveTime) -> String {
    let ns = t.nanosecond();
    if ns % 1_000_000 == 0 {
        format!("{}:{}:{}.{}", t.hour(), t.minute(), t.second(), ns / 1_000_000)
    } else {
        format!("{}:{}:{}.ns{}", t.hour(), t.minute(), t.second(), ns)
    }
}
fn push_dt(out: &mut String, o: &Option<NaiveDateTime>) {
    match o {
        None => out.push_str("none"),
        Some(dt) => {
            let ns = dt.nanosecond();
            if ns % 1_000_000 == 0 {
                let _ = write!(out, "{}-{}-{} {}:{}:{}.{}", dt.year(), dt.month(), dt.day(), dt.hour(), dt.minute(), dt.second(), ns / 1_000_000);
            } else {
                let _ = write!(out, "{}-{}-{} {}:{}:{}.ns{}", dt.year(), dt.month(), dt.day(), dt.hour(), dt.minute(), dt.second(), ns);
            }
        }
    }
}
fn show_dt(o: &Option<NaiveDateTime>) -> String {
    let mut s = String::new();
    push_dt(&mut s, o);
    s
}
fn show_dur(o: &Option<chrono::Duration>) -> String {
    match o {
        None => "none".into(),
        Some(d) => {
            if d.subsec_nanos() % 1_000_000 == 0 {
                d.num_milliseconds().to_string()
            } else {
                format!("{}+ns{}", d.num_milliseconds(), d.subsec_nanos())
            }
        }
    }
}
fn show_res<T>(r: &Result<T, String>, f: impl Fn(&T) -> String) -> String {
    match r {
        Ok(v) => f(v),
        Err(p) => format!("panic: {}", &p[..p.len().min(120)]),
    }
}
fn opt<T>(o: &Option<T>, f: impl Fn(&T) -> String) -> String {
    match o {
        None => "none".into(),
        Some(v) => f(v),
    }
}

// ---------------------------------------------------------------------------------------------
// failures collected by worker threads
// ---------------------------------------------------------------------------------------------

#[derive(Default)]
struct Local {
    evaluations: u64,
    hashes: Vec<u64>,
    counters: BTreeMap<String, u64>,
    fails: Vec<(String, String, String, String, String, String)>,
    fail_total: u64,
    sample: Vec<String>,
    /// what happened in this process before the case (`after <workbooks opened> [t] `): part of the replay input
    prefix: String,
}

impl Local {
    fn count(&mut self, k: &str) {
        *self.counters.entry(k.into()).or_insert(0) += 1;
    }
    fn add(&mut self, k: &str, n: u64) {
        *self.counters.entry(k.into()).or_insert(0) += n;
    }
    fn fail(&mut self, kind: &str, sig: &str, input: &str, i: &str, m: &str, e: &str) {
        let input = &format!("{}{}", self.prefix, input);
        self.fail_total += 1;
        let n = self.fails.iter().filter(|f| f.0 == kind && f.1 == sig).count();
        if n < 3 {
            self.fails.push((kind.into(), sig.into(), input.into(), i.into(), m.into(), e.into()));
        } else {
            // still counted
            self.fails.push((kind.into(), sig.into(), String::new(), String::new(), String::new(), String::new()));
            if self.fails.len() > 5000 {
                self.fails.truncate(5000);
            }
        }
    }
}

// ---------------------------------------------------------------------------------------------
// one serial through ExcelDateTime::as_datetime / as_duration
// ---------------------------------------------------------------------------------------------

fn sys_name(is_1904: bool) -> &'static str {
    if is_1904 {
        "1904"
    } else {
        "1900"
    }
}

struct DtOut {
    imp: Result<Option<NaiveDateTime>, String>,
}

fn run_dt(v: f64, is_1904: bool) -> DtOut {
    let imp = guarded(|| ExcelDateTime::new(v, ExcelDateTimeType::DateTime, is_1904).as_datetime());
    DtOut { imp }
}

/// property oracle for one `as_datetime` result; returns (sig, expectation) on a violation
fn judge_dt(v: f64, is_1904: bool, imp: &Result<Option<NaiveDateTime>, String>) -> Option<(String, String)> {
    let ideal = ideal_step(v, true, is_1904);
    let (lo, hi) = span_ms();
    let in_span = |ms: i64| ms != i64::MIN && (ms as i128) >= lo && (ms as i128) <= hi;
    let describe = |id: &Ideal| match id {
        Ideal::NonFinite => "None (non-finite)".to_string(),
        Ideal::Ms(a, b) => {
            let one = |ms: i64| if in_span(ms) { format!("Some(epoch + {ms} ms)") } else { format!("None ({ms} ms is outside chrono's span)") };
            if a == b {
                one(*a)
            } else {
                format!("{} .. {}", one(*a), one(*b))
            }
        }
    };
    match imp {
        Err(_) => Some(("panic:as_datetime".into(), describe(&ideal))),
        Ok(None) => match &ideal {
            Ideal::NonFinite => None,
            Ideal::Ms(a, b) => {
                if !in_span(*a) || !in_span(*b) {
                    None
                } else {
                    Some(("none_inside_span".into(), describe(&ideal)))
                }
            }
        },
        Ok(Some(dt)) => {
            let got = match ms_of_datetime(dt) {
                Ok(ms) => ms,
                Err(e) => return Some(("malformed_datetime".into(), e)),
            };
            match &ideal {
                Ideal::NonFinite => Some((if v.is_nan() { "nan_gives_a_date" } else { "nonfinite_gives_a_date" }.into(), describe(&ideal))),
                Ideal::Ms(a, b) => {
                    if got >= *a as i128 && got <= *b as i128 && got >= lo && got <= hi && got != i64::MIN as i128 {
                        None
                    } else if !in_span(*a) && !in_span(*b) {
                        Some(("date_outside_span".into(), describe(&ideal)))
                    } else {
                        Some(("wrong_datetime".into(), format!("{} (got epoch + {got} ms)", describe(&ideal))))
                    }
                }
            }
        }
    }
}

fn judge_dur(v: f64, imp: &Result<Option<chrono::Duration>, String>) -> Option<(String, String)> {
    let ideal = ideal_step(v, false, false);
    let exp = format!("{ideal:?}");
    match imp {
        Err(_) => Some(("panic:as_duration".into(), exp)),
        Ok(None) => match &ideal {
            Ideal::NonFinite => None,
            Ideal::Ms(a, _) => {
                if *a == i64::MIN {
                    None
                } else {
                    Some(("duration_none".into(), exp))
                }
            }
        },
        Ok(Some(d)) => match &ideal {
            Ideal::NonFinite => Some((if v.is_nan() { "nan_gives_a_duration" } else { "nonfinite_gives_a_duration" }.into(), exp)),
            Ideal::Ms(a, b) => {
                let got = d.num_milliseconds();
                let whole = d.subsec_nanos() % 1_000_000 == 0;
                if whole && got >= *a && got <= *b && got != i64::MIN {
                    None
                } else {
                    Some(("wrong_duration".into(), exp))
                }
            }
        },
    }
}

fn bits(v: f64) -> String {
    format!("{:016x}", v.to_bits())
}
fn unbits(s: &str) -> f64 {
    f64::from_bits(u64::from_str_radix(s, 16).expect("f64 bits"))
}

fn next_up(v: f64) -> f64 {
    if v.is_nan() || v == f64::INFINITY {
        return v;
    }
    if v == 0.0 {
        return f64::from_bits(1);
    }
    let b = v.to_bits();
    f64::from_bits(if v > 0.0 { b + 1 } else { b - 1 })
}
fn next_down(v: f64) -> f64 {
    -next_up(-v)
}

/// run a batch of (value, system) points through impl, model and oracle
fn check_points(points: &[(f64, bool)], drv: &mut Driver, loc: &mut Local, track: bool) {
    // as_datetime
    let outs: Vec<DtOut> = points.iter().map(|(v, s)| run_dt(*v, *s)).collect();
    // as_duration
    let durs: Vec<Result<Option<chrono::Duration>, String>> =
        points.iter().map(|(v, s)| guarded(|| ExcelDateTime::new(*v, ExcelDateTimeType::TimeDelta, *s).as_duration())).collect();
    // model: serial + flag; the shim, the offset and the choice of path happen in the model
    let mut req = String::from("edt");
    for (v, s) in points {
        req.push(' ');
        req.push_str(sys_name(*s));
        req.push(',');
        req.push_str(&serial_wire(*v));
    }
    let reply = drv.ask(&req);
    let both: Vec<(&str, &str)> = reply.split(';').map(|x| x.split_once('|').unwrap_or((x, "bad-reply"))).collect();
    assert_eq!(both.len(), points.len(), "driver reply arity: {reply}");
    let models: Vec<&str> = both.iter().map(|x| x.0).collect();
    let dmodels: Vec<&str> = both.iter().map(|x| x.1).collect();
    for (i, (v, s)) in points.iter().enumerate() {
        let input = format!("dt {} {}", sys_name(*s), bits(*v));
        let imp_s = show_res(&outs[i].imp, show_dt);
        loc.evaluations += 1;
        let nontrivial = matches!(&outs[i].imp, Ok(Some(_)));
        if track && nontrivial {
            loc.hashes.push(fnv64(input.as_bytes()));
        }
        if loc.sample.len() < 3 {
            loc.sample.push(format!("{input} (= {v:?}) -> {imp_s}"));
        }
        match &outs[i].imp {
            Ok(Some(dt)) => {
                if dt.nanosecond() != 0 || dt.second() != 0 || dt.minute() != 0 || dt.hour() != 0 {
                    loc.count("dt.some_with_time")
                } else {
                    loc.count("dt.some_midnight")
                }
            }
            Ok(None) => loc.count("dt.none"),
            Err(_) => loc.count("dt.panic"),
        }
        let verdict = judge_dt(*v, *s, &outs[i].imp);
        if let Some((sig, exp)) = &verdict {
            loc.fail("impl_vs_spec", sig, &input, &imp_s, models[i], exp);
        }
        if imp_s != models[i] {
            let sig = match &verdict {
                Some((sig, _)) => sig.clone(),
                None => "as_datetime".to_string(),
            };
            loc.fail("impl_vs_model", &sig, &input, &imp_s, models[i], "");
        } else if verdict.is_some() {
            // model agrees with an implementation the oracle rejects
            loc.fail("model_vs_spec", &verdict.as_ref().unwrap().0, &input, &imp_s, models[i], &verdict.as_ref().unwrap().1);
        }
        if let Ideal::Ms(a, b) = ideal_step(*v, true, *s) {
            if a != b {
                loc.count("dt.near_tie_two_candidates");
            }
        }
        // duration
        let dinput = format!("dur {}", bits(*v));
        let dimp = show_res(&durs[i], show_dur);
        let dverdict = judge_dur(*v, &durs[i]);
        if let Some((sig, exp)) = &dverdict {
            loc.fail("impl_vs_spec", sig, &dinput, &dimp, dmodels[i], exp);
        }
        if dimp != dmodels[i] {
            let sig = match &dverdict {
                Some((sig, _)) => sig.clone(),
                None => "as_duration".to_string(),
            };
            loc.fail("impl_vs_model", &sig, &dinput, &dimp, dmodels[i], "");
        } else if dverdict.is_some() {
            loc.fail("model_vs_spec", &dverdict.as_ref().unwrap().0, &dinput, &dimp, dmodels[i], &dverdict.as_ref().unwrap().1);
        }
    }
    loc.add("dur.evaluations", points.len() as u64);
}

/// monotonicity on a group of serials of one system: sorted by value, the date-times must not
/// decrease.  The one exception is reported under its own signature (a known finding, see
/// findings/C11.json): the day [60,61) of the 1900 numbering is the fictitious 1900-02-29 and is
/// mapped onto the same calendar day as [59,60), so a serial in [59,60) converts to a later
/// instant than a larger serial in [60,61).
fn check_monotone(group: &[(f64, bool)], loc: &mut Local) {
    let mut g: Vec<(f64, bool)> = group.iter().cloned().filter(|(v, _)| v.is_finite()).collect();
    g.sort_by(|a, b| a.0.partial_cmp(&b.0).unwrap());
    let mut prev: Option<(f64, bool, NaiveDateTime)> = None;
    for (v, s) in g {
        if let Ok(Some(dt)) = guarded(|| ExcelDateTime::new(v, ExcelDateTimeType::DateTime, s).as_datetime()) {
            if let Some((pv, ps, pdt)) = prev {
                if ps == s {
                    let adj = |x: f64| if s { x + 1462.0 } else { x };
                    let fictitious = adj(pv) >= 59.0 && adj(pv) < 60.0 && adj(v) >= 60.0 && adj(v) < 61.0;
                    loc.count("monotone.pairs");
                    if dt < pdt {
                        loc.fail(
                            "impl_vs_spec",
                            if fictitious { "not_monotone_fictitious_1900_02_29" } else { "not_monotone" },
                            &format!("mono {} {} {}", sys_name(s), bits(pv), bits(v)),
                            &format!("{} then {}", show_dt(&Some(pdt)), show_dt(&Some(dt))),
                            "",
                            "date-times must not decrease with the serial",
                        );
                    }
                }
            }
            prev = Some((v, s, dt));
        }
    }
}

// ---------------------------------------------------------------------------------------------
// generators
// ---------------------------------------------------------------------------------------------

const EDGE_DAYS: [i64; 30] = [
    0, 1, 2, 58, 59, 60, 61, 62, 365, 366, 367, 1461, 1462, 1463, 25568, 25569, 36525, 36526, 43830, 44484, 73050, 109205, 2958464, 2958465,
    2958466, -1, -2, -1403, -1402, -1401,
];
const EDGE_MS: [i64; 16] = [0, 1, 2, 499, 500, 501, 999, 1000, 1001, 43_199_999, 43_200_000, 43_200_001, 86_399_000, 86_399_998, 86_399_999, 59_999];

/// the points around one base instant `day + k ms`: the instant itself, ±0.4995 ms, ±0.5 ms,
/// ±0.5005 ms, each also one ulp up and down (21 points)
fn points_around(day: i64, k: i64, out: &mut Vec<f64>) {
    for delta in [0.0, -0.4995, 0.4995, -0.5, 0.5, -0.5005, 0.5005] {
        let v = day as f64 + (k as f64 + delta) / 86_400_000.0;
        out.push(v);
        out.push(next_up(v));
        out.push(next_down(v));
    }
}

fn gen_base(rng: &mut Rng) -> (i64, i64) {
    let day = match rng.below(10) {
        0 | 1 => *rng.pick(&EDGE_DAYS),
        2 => rng.range(0, 200) as i64 - 70,
        3 => 2958465 - rng.below(400) as i64,
        4 => -(rng.below(700_000) as i64),
        _ => rng.range(0, 2958465) as i64,
    };
    let k = match rng.below(10) {
        0 | 1 | 2 => *rng.pick(&EDGE_MS),
        3 => 86_400_000 - 1 - rng.below(2000) as i64,
        4 => rng.below(2000) as i64,
        5 => (rng.below(86_400) as i64) * 1000,
        _ => rng.below(86_400_000) as i64,
    };
    (day, k)
}

fn special_values() -> &'static [f64] {
    static V: std::sync::OnceLock<Vec<f64>> = std::sync::OnceLock::new();
    V.get_or_init(special_values_compute)
}

/// the first and the last day chrono can represent (years -262143..=262142), as day numbers from
/// the epoch 1899-12-30 — from the independent calendar, not from the model
fn span_days() -> (i64, i64) {
    (days_from_civil(-262143, 1, 1) - epoch_days(), days_from_civil(262142, 12, 31) - epoch_days())
}

fn special_values_compute() -> Vec<f64> {
    let (lo, hi) = span_ms();
    let mut v = vec![
        f64::NAN,
        f64::INFINITY,
        f64::NEG_INFINITY,
        f64::MAX,
        f64::MIN,
        f64::MIN_POSITIVE,
        -f64::MIN_POSITIVE,
        5e-324,
        -5e-324,
        0.0,
        -0.0,
        1e-300,
        1e-20,
        -1e-20,
        1e20,
        -1e20,
        1e300,
        -1e300,
        2.0e299,
        2.08e299,
        2.0807e300,
        -2.0807e300,
        1e15,
        -1e15,
        9.5e7,
        -9.5e7,
        1.0675e11,
        -1.0675e11,
        2f64.powi(-11),
        3.0 * 2f64.powi(-11),
        59.0 + 2f64.powi(-11),
        60.0 + 2f64.powi(-11),
        44484.7916666667,
        59.99999999,
        59.999999999999,
        60.0,
        -1402.0,
        -1402.0000000000002,
        -1401.9999999999998,
    ];
    // the edges of chrono's span, to the millisecond, in both systems
    for edge in [lo, hi] {
        for dms in [-86_400_001i128, -86_400_000, -2, -1, 0, 1, 2, 86_400_000, 86_400_001] {
            let ms = edge + dms;
            let x = ms as f64 / 86_400_000.0;
            v.push(x);
            v.push(x - 1462.0);
            v.push(next_up(x));
            v.push(next_down(x));
        }
    }
    // around ±2^63 ms
    for k in [-3i32, -2, -1, 0, 1, 2, 3] {
        let x = 9.223372036854775807e18 / 86_400_000.0;
        let mut y = x;
        for _ in 0..k.abs() {
            y = if k > 0 { next_up(y) } else { next_down(y) };
        }
        v.push(y);
        v.push(-y);
    }
    // around the f64 overflow of the product
    let x = f64::MAX / 86_400_000.0;
    v.extend([x, next_up(x), next_down(x), -x, -next_up(x), x * 0.999, x * 1.001]);
    // the exact first / last representable day +- days (dense near the edge, then the distances at
    // which a limit taken from another calendar span, a 365/366-day slip or the 1904 offset would
    // show), whole and with fractions, as 1900 serials, shim-adjusted and 1904 serials
    let (first, last) = span_days();
    let mut dd: Vec<i64> = (-8..=8).collect();
    for k in [30, 31, 364, 365, 366, 367, 400, 730, 731, 1461, 1462, 1463, 1464, 36524, 146097] {
        dd.push(k);
        dd.push(-k);
    }
    for edge in [first, last] {
        for d in &dd {
            for fr in [0.0, 2f64.powi(-11), 0.5, 0.999_999] {
                let x = (edge + d) as f64 + fr;
                v.extend([x, x - 1.0, x - 1462.0, x - 1463.0]);
            }
        }
    }
    // powers of two and the day counts of the calendar around them (integer pitfalls: i32 / u32 / i64
    // casts of a day count, epoch offsets from 0001-01-01 or 1970-01-01)
    for n in boundary_ints() {
        v.push(n as f64);
    }
    v
}

/// integers at which an integer day-count implementation could wrap: ±(2^k ± delta) for the
/// widths of the machine integers and delta among small serials, the 1904 offset, the epoch's day
/// numbers from 0001-01-01 / 1970-01-01 and the two ends of chrono's calendar
fn boundary_ints() -> Vec<i64> {
    let (first, last) = span_days();
    let bases: [i128; 14] = [
        1 << 15, 1 << 16, 1 << 24, 1 << 31, 1 << 32, 1 << 33, 1 << 52, 1 << 53, 1 << 62, 1 << 63, 100_000_000, last as i128, -(first as i128), 2_958_465,
    ];
    let mut deltas: Vec<i128> = vec![0, 1, 2, 3, 59, 60, 61, 62, 1461, 1462, 1463, 25_569, 693_593, 693_594, 693_595, 693_596, 719_163, 2_958_465];
    for e in [last as i128, -(first as i128)] {
        for k in -2..=2 {
            deltas.push(e + k);
            deltas.push(e + 693_594 + k);
            deltas.push(e - 693_594 + k);
        }
    }
    // a few points inside the two windows as well
    deltas.extend([10_000_000, 50_000_000, 94_967_295, 95_000_000, 96_000_000]);
    let mut out = vec![];
    for b in bases {
        for d in &deltas {
            for x in [b + d, b - d] {
                for y in [x, -x] {
                    out.push(y.clamp(i64::MIN as i128, i64::MAX as i128) as i64);
                }
            }
        }
    }
    out.sort_unstable();
    out.dedup();
    out
}

// ---------------------------------------------------------------------------------------------
// whole-day sweep
// ---------------------------------------------------------------------------------------------

#[derive(Clone, Copy, PartialEq, Debug)]
struct Ymd(i64, u32, u32);

fn next_ymd(c: Ymd) -> Ymd {
    if c.2 < month_len(c.0, c.1) {
        Ymd(c.0, c.1, c.2 + 1)
    } else if c.1 < 12 {
        Ymd(c.0, c.1 + 1, 1)
    } else {
        Ymd(c.0 + 1, 1, 1)
    }
}

/// sweep whole-day serials [lo, hi) of one system in blocks; `counter` is the property oracle:
/// the y/m/d counter positioned on the expected date of serial `lo` (None where the property
/// does not fix a date)
fn sweep_range(is_1904: bool, lo: u64, hi: u64, drv: &mut Driver, loc: &mut Local) {
    // anchor of the counter: 1900 system serial 61 = 1900-03-01 (and serials 1..=59 count up from
    // 1900-01-01); 1904 system serial 0 = 1904-01-01
    let mut n = lo;
    let mut counter: Option<Ymd> = None;
    while n < hi {
        let end = (n + 4096).min(hi);
        let mut text = String::with_capacity(4096 * 24);
        let mut impl_rows: Vec<Option<NaiveDateTime>> = Vec::with_capacity(4096);
        let mut block_panicked = false;
        for s in n..end {
            let r = guarded(|| ExcelDateTime::new(s as f64, ExcelDateTimeType::DateTime, is_1904).as_datetime());
            let o = match r {
                Ok(o) => o,
                Err(p) => {
                    block_panicked = true;
                    loc.fail("impl_vs_spec", "panic:as_datetime", &format!("day {} {s}", sys_name(is_1904)), &format!("panic: {p}"), "", "a date");
                    None
                }
            };
            push_dt(&mut text, &o);
            text.push(';');
            impl_rows.push(o);
            // property oracle
            let expect: Option<Ymd> = if is_1904 {
                if s == 0 {
                    Some(Ymd(1904, 1, 1))
                } else {
                    counter.map(next_ymd).or_else(|| Some(ymd_from_anchor(Ymd(1904, 1, 1), 0, s)))
                }
            } else if s == 0 || s == 60 {
                None // 1900-01-00 and the fictitious 1900-02-29: the property fixes no date
            } else if s == 1 {
                Some(Ymd(1900, 1, 1))
            } else if s == 61 {
                Some(Ymd(1900, 3, 1))
            } else if s < 60 {
                counter.map(next_ymd).or_else(|| Some(ymd_from_anchor(Ymd(1900, 1, 1), 1, s)))
            } else {
                counter.map(next_ymd).or_else(|| Some(ymd_from_anchor(Ymd(1900, 3, 1), 61, s)))
            };
            counter = expect;
            if let Some(e) = expect {
                let ok = matches!(&o, Some(dt) if dt.year() as i64 == e.0 && dt.month() == e.1 && dt.day() == e.2
                    && dt.hour() == 0 && dt.minute() == 0 && dt.second() == 0 && dt.nanosecond() == 0);
                if !ok {
                    loc.fail(
                        "impl_vs_spec",
                        "wrong_whole_day",
                        &format!("day {} {s}", sys_name(is_1904)),
                        &show_dt(&o),
                        "",
                        &format!("{}-{}-{} 0:0:0.0", e.0, e.1, e.2),
                    );
                }
                loc.count("sweep.oracle_checked");
            }
            // plain Int / Float cells convert like 1900-system date-times
            if !is_1904 {
                let a = guarded(|| Data::Int(s as i64).as_datetime());
                let b = guarded(|| DataRef::Float(s as f64).as_datetime());
                if a.as_ref().ok() != Some(&o) || b.as_ref().ok() != Some(&o) {
                    loc.fail(
                        "impl_vs_spec",
                        "int_float_cell_differs",
                        &format!("day 1900 {s}"),
                        &format!("Int: {} Float: {}", show_res(&a, show_dt), show_res(&b, show_dt)),
                        "",
                        &show_dt(&o),
                    );
                }
            }
        }
        let sum = format!("{:016x}", fnv64(text.as_bytes()));
        let model = drv.ask(&format!("sweep {} {n} {end}", sys_name(is_1904)));
        if sum != model || block_panicked {
            // bisect: ask the model day by day
            for (i, s) in (n..end).enumerate() {
                let m = drv.ask(&format!("day {} {s}", sys_name(is_1904)));
                let im = show_dt(&impl_rows[i]);
                if m != im {
                    loc.fail("impl_vs_model", "whole_day", &format!("day {} {s}", sys_name(is_1904)), &im, &m, "");
                    break;
                }
            }
            if !block_panicked {
                loc.count("sweep.block_mismatch");
            }
        }
        loc.evaluations += end - n;
        loc.add("sweep.days", end - n);
        loc.add("sweep.blocks", 1);
        n = end;
    }
}

/// expected date of serial `s` by stepping from an anchor (used once per range start)
fn ymd_from_anchor(anchor: Ymd, anchor_serial: u64, s: u64) -> Ymd {
    let mut c = anchor;
    for _ in anchor_serial..s {
        c = next_ymd(c);
    }
    c
}

// ---------------------------------------------------------------------------------------------
// trait level: Data / DataRef cells
// ---------------------------------------------------------------------------------------------

fn check_cell(desc: &str, drv: &mut Driver, loc: &mut Local) {
    // desc: "cell <variant> <bits> [<td|dt> <1900|1904>]"   variant: float|int|rfloat|rint|dt|rdt|string|bool|empty|error
    let p: Vec<&str> = desc.split(' ').collect();
    let variant = p[1];
    // the value: 16 hex digits = f64 bits (an Int cell then holds `v as i64`, saturating), or `i<decimal>` = an exact i64
    let (v, as_int) = if p.len() > 2 && p[2].starts_with('i') {
        let n: i64 = p[2][1..].parse().expect("i64");
        (n as f64, n)
    } else {
        let v = if p.len() > 2 { unbits(p[2]) } else { 0.0 };
        (v, v as i64)
    };
    let ty = if p.len() > 3 && p[3] == "td" { ExcelDateTimeType::TimeDelta } else { ExcelDateTimeType::DateTime };
    let is_1904 = p.len() > 4 && p[4] == "1904";
    let edt = ExcelDateTime::new(v, ty, is_1904);
    type Four = (Option<NaiveDateTime>, Option<NaiveDate>, Option<NaiveTime>, Option<chrono::Duration>);
    fn four<T: DataType>(d: &T) -> Four {
        (d.as_datetime(), d.as_date(), d.as_time(), d.as_duration())
    }
    let r: Result<Four, String> = guarded(|| match variant {
        "float" => four(&Data::Float(v)),
        "int" => four(&Data::Int(as_int)),
        "rfloat" => four(&DataRef::Float(v)),
        "rint" => four(&DataRef::Int(as_int)),
        "dt" => four(&Data::DateTime(edt)),
        "rdt" => four(&DataRef::DateTime(edt)),
        "string" => four(&Data::String(format!("{v}"))),
        "rstring" => four(&DataRef::SharedString("44484.5")),
        "bool" => four(&Data::Bool(true)),
        "empty" => four(&DataRef::Empty),
        "error" => four(&Data::Error(CellErrorType::Div0)),
        x => panic!("bad variant {x}"),
    });
    // the serial the conversion sees
    let (kind, serial, sys) = match variant {
        "float" | "rfloat" => ("num", v, false),
        "int" | "rint" => ("num", as_int as f64, false),
        "dt" | "rdt" => ("dt", v, is_1904),
        _ => ("other", 0.0, false),
    };
    let wire_kind = match variant {
        "float" | "rfloat" => "float",
        "int" | "rint" => "int",
        "dt" | "rdt" => "dt",
        _ => "other",
    };
    let model = drv.ask(&format!("cell {}", cell_wire(wire_kind, v, as_int, p.len() > 3 && p[3] == "td", is_1904)));
    loc.evaluations += 1;
    loc.count(&format!("cell.{variant}"));
    let imp_s = match &r {
        Ok((a, b, c, d)) => format!("dt={} date={} time={} dur={}", show_dt(a), opt(b, show_date), opt(c, show_time), show_dur(d)),
        Err(p) => format!("panic: {}", &p[..p.len().min(120)]),
    };
    if track_cell(&r) {
        loc.hashes.push(fnv64(desc.as_bytes()));
    }
    // oracle: as_datetime as for the bare serial; date/time are its components; durations only for DateTime cells
    let mut verdict: Option<(String, String)> = None;
    match &r {
        Err(_) => verdict = Some(("panic:cell".into(), "no panic".into())),
        Ok((a, b, c, d)) => {
            if kind == "other" {
                if a.is_some() || b.is_some() || c.is_some() || d.is_some() {
                    verdict = Some(("non_numeric_cell_converts".into(), "None for all four".into()));
                }
            } else {
                if let Some(x) = judge_dt(serial, sys, &Ok(*a)) {
                    verdict = Some((format!("cell_{}", x.0), x.1));
                } else if *b != a.map(|x| x.date()) || *c != a.map(|x| x.time()) {
                    verdict = Some(("date_time_not_components".into(), "as_date/as_time = components of as_datetime".into()));
                } else if kind == "num" && d.is_some() {
                    verdict = Some(("plain_number_has_duration".into(), "as_duration None".into()));
                } else if kind == "dt" {
                    if let Some(x) = judge_dur(serial, &Ok(*d)) {
                        verdict = Some((format!("cell_{}", x.0), x.1));
                    }
                }
            }
        }
    }
    if let Some((sig, exp)) = &verdict {
        loc.fail("impl_vs_spec", sig, desc, &imp_s, &model, exp);
    }
    if imp_s != model {
        let sig = verdict.as_ref().map(|x| x.0.clone()).unwrap_or_else(|| "cell".into());
        loc.fail("impl_vs_model", &sig, desc, &imp_s, &model, "");
    } else if let Some((sig, exp)) = &verdict {
        loc.fail("model_vs_spec", sig, desc, &imp_s, &model, exp);
    }
}

fn track_cell<T>(r: &Result<(Option<NaiveDateTime>, T, Option<NaiveTime>, Option<chrono::Duration>), String>) -> bool {
    matches!(r, Ok((Some(_), _, _, _)) | Ok((_, _, _, Some(_))))
}

/// ISO strings (parsed by chrono, not modelled): the components written into the string must
/// come back.  desc: "iso <form> y m d h mi s ms"
fn check_iso(desc: &str, drv: &mut Driver, loc: &mut Local) {
    let p: Vec<&str> = desc.split(' ').collect();
    let form = p[1];
    let n = |i: usize| p[i].parse::<i64>().unwrap();
    let (y, m, d, h, mi, s, ms) = (n(2), n(3) as u32, n(4) as u32, n(5) as u32, n(6) as u32, n(7) as u32, n(8) as u32);
    let date = NaiveDate::from_ymd_opt(y as i32, m, d);
    let time = NaiveTime::from_hms_milli_opt(h, mi, s, ms);
    let (text, is_dur) = match form {
        "dt" => (format!("{y:04}-{m:02}-{d:02}T{h:02}:{mi:02}:{s:02}"), false),
        "dtf" => (format!("{y:04}-{m:02}-{d:02}T{h:02}:{mi:02}:{s:02}.{ms:03}"), false),
        "date" => (format!("{y:04}-{m:02}-{d:02}"), false),
        "time" => (format!("{h:02}:{mi:02}:{s:02}"), false),
        "dur" => (format!("PT{h:02}H{mi:02}M{s:02}S"), true),
        "durf" => (format!("PT{h:02}H{mi:02}M{s:02}.{ms:03}S"), true),
        x => panic!("bad iso form {x}"),
    };
    let ms_eff = if form == "dtf" || form == "durf" { ms } else { 0 };
    let time_eff = NaiveTime::from_hms_milli_opt(h, mi, s, ms_eff);
    let _ = time;
    let cell = if is_dur { Data::DurationIso(text.clone()) } else { Data::DateTimeIso(text.clone()) };
    let cref = if is_dur { DataRef::DurationIso(text.clone()) } else { DataRef::DateTimeIso(text.clone()) };
    let r = guarded(|| (cell.as_datetime(), cell.as_date(), cell.as_time(), cell.as_duration()));
    let r2 = guarded(|| (cref.as_datetime(), cref.as_date(), cref.as_time(), cref.as_duration()));
    loc.evaluations += 1;
    loc.count(&format!("iso.{form}"));
    let exp: (Option<NaiveDateTime>, Option<NaiveDate>, Option<NaiveTime>, Option<chrono::Duration>) = match form {
        "dt" | "dtf" => (date.zip(time_eff).map(|(a, b)| a.and_time(b)), date, time_eff, None),
        "date" => (None, date, None, None),
        "time" => (None, None, time_eff, None),
        _ => (None, None, time_eff, time_eff.map(|t| chrono::Duration::milliseconds(((h as i64 * 60 + mi as i64) * 60 + s as i64) * 1000 + t.nanosecond() as i64 / 1_000_000))),
    };
    let show = |x: &(Option<NaiveDateTime>, Option<NaiveDate>, Option<NaiveTime>, Option<chrono::Duration>)| {
        format!("dt={} date={} time={} dur={}", show_dt(&x.0), opt(&x.1, show_date), opt(&x.2, show_time), show_dur(&x.3))
    };
    let input = format!("{desc} [{text}]");
    // model: the branching of as_date/as_time/as_duration around the chrono parsers
    let model = drv.ask(&format!("cell {}", iso_wire(&text, is_dur)));
    for (which, r) in [("Data", &r), ("DataRef", &r2)] {
        match r {
            Err(p) => loc.fail("impl_vs_spec", "panic:iso", &input, &format!("{which} panic: {p}"), &model, &show(&exp)),
            Ok(got) => {
                if *got != exp {
                    loc.fail("impl_vs_spec", &format!("iso_{form}"), &input, &format!("{which} {}", show(got)), &model, &show(&exp));
                }
                if show(got) != model {
                    loc.fail("impl_vs_model", &format!("iso_{form}"), &input, &format!("{which} {}", show(got)), &model, "");
                }
            }
        }
    }
    if exp.0.is_some() || exp.3.is_some() {
        loc.hashes.push(fnv64(desc.as_bytes()));
    }
}

fn gen_iso(rng: &mut Rng) -> String {
    let form = *rng.pick(&["dt", "dtf", "date", "time", "dur", "durf"]);
    let y = match rng.below(4) {
        0 => *rng.pick(&[1, 1582, 1899, 1900, 1904, 1970, 2000, 2024, 9999]),
        _ => rng.range(1, 9999) as i64,
    };
    let m = rng.range(1, 12) as u32;
    let d = rng.range(1, month_len(y, m) as u64) as u32;
    let h = rng.below(24);
    let mi = rng.below(60);
    let s = rng.below(60);
    let ms = match rng.below(3) {
        0 => 0,
        1 => *rng.pick(&[1, 500, 999, 100, 10]),
        _ => rng.below(1000),
    };
    format!("iso {form} {y} {m} {d} {h} {mi} {s} {ms}")
}

fn gen_cell(rng: &mut Rng) -> String {
    let variant = *rng.pick(&["float", "int", "rfloat", "rint", "dt", "dt", "rdt", "rdt", "string", "rstring", "bool", "empty", "error"]);
    let (day, k) = gen_base(rng);
    let v = match rng.below(12) {
        0 => *rng.pick(special_values()),
        1 | 2 => day as f64,
        _ => day as f64 + k as f64 / 86_400_000.0,
    };
    let ty = if rng.chance(1, 2) { "td" } else { "dt" };
    let sys = if rng.chance(1, 2) { "1904" } else { "1900" };
    if rng.chance(1, 6) {
        // an exact integer near a power of two, anywhere within a calendar span of it
        let b: i128 = 1i128 << *rng.pick(&[31u32, 32, 32, 32, 33, 53, 63]);
        let d = rng.below(200_000_000) as i128 - 100_000_000;
        let n = (if rng.chance(1, 2) { b + d } else { -(b + d) }).clamp(i64::MIN as i128, i64::MAX as i128) as i64;
        let variant = *rng.pick(&["int", "rint", "int", "rint", "float", "dt", "rdt"]);
        return format!("cell {variant} i{n} {ty} {sys}");
    }
    format!("cell {variant} {} {ty} {sys}", bits(v))
}


// ---------------------------------------------------------------------------------------------
// the serde helpers deserialize_as_{datetime,date,time,duration}_or_{none,string}
// ---------------------------------------------------------------------------------------------

#[derive(serde_derive::Deserialize)]
struct HelperRow {
    #[serde(deserialize_with = "calamine::deserialize_as_datetime_or_none")]
    dt: Option<NaiveDateTime>,
    #[serde(deserialize_with = "calamine::deserialize_as_date_or_none")]
    date: Option<NaiveDate>,
    #[serde(deserialize_with = "calamine::deserialize_as_time_or_none")]
    time: Option<NaiveTime>,
    #[serde(deserialize_with = "calamine::deserialize_as_duration_or_none")]
    dur: Option<chrono::Duration>,
    #[serde(deserialize_with = "calamine::deserialize_as_datetime_or_string")]
    dt_s: Result<NaiveDateTime, String>,
    #[serde(deserialize_with = "calamine::deserialize_as_date_or_string")]
    date_s: Result<NaiveDate, String>,
    #[serde(deserialize_with = "calamine::deserialize_as_time_or_string")]
    time_s: Result<NaiveTime, String>,
    #[serde(deserialize_with = "calamine::deserialize_as_duration_or_string")]
    dur_s: Result<chrono::Duration, String>,
}

/// desc: "helper <variant> <bits> <td|dt> <1900|1904>" (variants as for `cell`, plus `iso`/`isodur`
/// which carry a fixed ISO string).  Contract (doc comments of the helpers): they apply
/// `as_datetime` / `as_date` / `as_time` / `as_duration` to the cell value.
fn check_helper(desc: &str, drv: &mut Driver, loc: &mut Local) {
    let p: Vec<&str> = desc.split(' ').collect();
    let variant = p[1];
    let (v, as_int) = if p.len() > 2 && p[2].starts_with('i') {
        let n: i64 = p[2][1..].parse().expect("i64");
        (n as f64, n)
    } else {
        let v = if p.len() > 2 { unbits(p[2]) } else { 0.0 };
        (v, v as i64)
    };
    let ty = if p.len() > 3 && p[3] == "td" { ExcelDateTimeType::TimeDelta } else { ExcelDateTimeType::DateTime };
    let is_1904 = p.len() > 4 && p[4] == "1904";
    let data = match variant {
        "float" => Data::Float(v),
        "int" => Data::Int(as_int),
        "dt" => Data::DateTime(ExcelDateTime::new(v, ty, is_1904)),
        "string" => Data::String("not a date".into()),
        "bool" => Data::Bool(true),
        "empty" => Data::Empty,
        "iso" => Data::DateTimeIso("2021-10-15T19:00:00".into()),
        "isodur" => Data::DurationIso("PT10H10M10S".into()),
        x => panic!("bad helper variant {x}"),
    };
    let cells: Vec<Cell<Data>> = (0..8).map(|c| Cell::new((0, c), data.clone())).collect();
    let range = Range::from_sparse(cells);
    let r = guarded(|| {
        let mut it = RangeDeserializerBuilder::new().has_headers(false).from_range::<_, HelperRow>(&range).map_err(|e| format!("{e:?}"))?;
        match it.next() {
            Some(Ok(row)) => Ok(row),
            Some(Err(e)) => Err(format!("{e:?}")),
            None => Err("no row".to_string()),
        }
    });
    loc.evaluations += 1;
    loc.count(&format!("helper.{variant}"));
    let direct = match guarded(|| (data.as_datetime(), data.as_date(), data.as_time(), data.as_duration())) {
        Ok(d) => d,
        Err(pn) => {
            loc.fail("impl_vs_spec", "panic:cell", desc, &format!("panic: {}", &pn[..pn.len().min(120)]), "", "no panic");
            return;
        }
    };
    let fmt4 = |a: &Option<NaiveDateTime>, b: &Option<NaiveDate>, c: &Option<NaiveTime>, d: &Option<chrono::Duration>| {
        format!("dt={} date={} time={} dur={}", show_dt(a), opt(b, show_date), opt(c, show_time), show_dur(d))
    };
    let expect = fmt4(&direct.0, &direct.1, &direct.2, &direct.3);
    let (kind, serial, sys) = match variant {
        "float" => ("num", v, false),
        "int" => ("num", as_int as f64, false),
        "dt" => ("dt", v, is_1904),
        _ => ("other", 0.0, false),
    };
    let _ = sys;
    let model = drv.ask(&format!(
        "helper {}",
        match variant {
            "iso" => iso_wire("2021-10-15T19:00:00", false),
            "isodur" => iso_wire("PT10H10M10S", true),
            _ => cell_wire(variant, v, as_int, p.len() > 3 && p[3] == "td", is_1904),
        }
    ));
    let (imp_s, verdict): (String, Option<String>) = match &r {
        Err(pn) => (format!("panic: {pn}"), Some("panic:helper".into())),
        Ok(Err(e)) => (format!("error: {e}"), Some("helper_error".into())),
        Ok(Ok(row)) => {
            let s = fmt4(&row.dt, &row.date, &row.time, &row.dur);
            let consistent = row.dt == row.dt_s.clone().ok() && row.date == row.date_s.clone().ok() && row.time == row.time_s.clone().ok() && row.dur == row.dur_s.clone().ok();
            let v = if !consistent {
                Some("helper_or_string_differs_from_or_none".to_string())
            } else if let Some(x) = if kind != "other" && !(variant == "dt" && is_1904) { judge_dt(serial, false, &Ok(row.dt)) } else { None } {
                // independent of the direct conversion: the helper's own date-time against the calendar oracle
                Some(format!("helper_{}", x.0))
            } else if s == expect {
                None
            } else if (row.dt, row.date, row.time) == (direct.0, direct.1, direct.2) && direct.3.is_some() && row.dur.is_none() {
                Some("helper_duration_lost".into())
            } else if variant == "dt" && is_1904 {
                Some("helper_loses_1904_flag".into())
            } else if variant == "iso" || variant == "isodur" {
                Some("helper_iso_string_not_converted".into())
            } else {
                Some("helper_differs".into())
            };
            (s, v)
        }
    };
    if matches!(&r, Ok(Ok(row)) if row.dt.is_some()) {
        loc.hashes.push(fnv64(desc.as_bytes()));
    }
    if let Some(sig) = &verdict {
        loc.fail("impl_vs_spec", sig, desc, &imp_s, &model, &expect);
    }
    if imp_s != model {
        let sig = verdict.clone().unwrap_or_else(|| "helper".into());
        // the model has no ISO strings: they are `other` cells there, which is also what the helpers make of them
        loc.fail("impl_vs_model", &sig, desc, &imp_s, &model, "");
    }
}

fn gen_helper(rng: &mut Rng) -> String {
    let variant = *rng.pick(&["float", "int", "dt", "dt", "dt", "string", "bool", "empty", "iso", "isodur"]);
    let (day, k) = gen_base(rng);
    let v = match rng.below(12) {
        0 => *rng.pick(special_values()),
        1 | 2 => day as f64,
        _ => day as f64 + k as f64 / 86_400_000.0,
    };
    let ty = if rng.chance(1, 2) { "td" } else { "dt" };
    let sys = if rng.chance(1, 3) { "1904" } else { "1900" };
    format!("helper {variant} {} {ty} {sys}", bits(v))
}


// ---------------------------------------------------------------------------------------------
// the conversions are a function of the cell alone: other workbooks opened in this process, the
// order of the calls and the thread must not matter
// ---------------------------------------------------------------------------------------------

const BOOKS: [&str; 7] = ["xlsx1904", "xlsxomit", "xlsx1900", "xls1904", "xls1900", "xlsb1904", "xlsb1900"];

/// a tiny workbook (one sheet, one number) in the given format and date system, built in memory
fn book_bytes(name: &str) -> Vec<u8> {
    use verif_harness::{xlsbw, xlsw, xlsxw};
    let is1904 = name.ends_with("1904");
    if name.starts_with("xlsx") {
        let mut b = xlsxw::XlsxBook::new();
        b.date1904 = if name == "xlsxomit" { None } else { Some(is1904) };
        let mut sh = xlsxw::XlsxSheet::new("S");
        sh.set(0, 0, xlsxw::XCell::num("25569.5"));
        b.sheets.push(sh);
        b.build(&xlsxw::Layout::plain()).bytes
    } else if name.starts_with("xlsb") {
        let mut b = xlsbw::XlsbBook::new();
        b.date1904 = is1904;
        let mut sh = xlsbw::XlsbSheet::new("S");
        sh.set(0, 0, xlsbw::BVal::real(25569.5));
        b.sheets.push(sh);
        b.to_bytes()
    } else {
        let mut b = xlsw::XlsBook::new();
        b.date1904 = is1904;
        let mut sh = xlsw::XlsSheet::new("S");
        sh.cells.push(xlsw::XlsCell::new(0, 0, xlsw::CellV::Number(25569.5)));
        b.sheets.push(sh);
        b.to_bytes_plain(&mut Rng::new(1))
    }
}

/// open the workbook with the real reader and read its sheet (the harness's own writers are tested
/// elsewhere; here a workbook that does not read back is a broken check, not a finding)
fn open_book(name: &str) {
    use calamine::{Reader, Xls, Xlsb, Xlsx};
    use std::io::Cursor;
    let bytes = book_bytes(name);
    let r: Result<Result<Data, String>, String> = guarded(|| {
        let c = Cursor::new(bytes);
        let range = if name.starts_with("xlsx") {
            let mut wb = Xlsx::new(c).map_err(|e| format!("{e:?}"))?;
            wb.worksheet_range("S").map_err(|e| format!("{e:?}"))?
        } else if name.starts_with("xlsb") {
            let mut wb = Xlsb::new(c).map_err(|e| format!("{e:?}"))?;
            wb.worksheet_range("S").map_err(|e| format!("{e:?}"))?
        } else {
            let mut wb = Xls::new(c).map_err(|e| format!("{e:?}"))?;
            wb.worksheet_range("S").map_err(|e| format!("{e:?}"))?
        };
        Ok(range.get_value((0, 0)).cloned().unwrap_or(Data::Empty))
    });
    match r {
        Ok(Ok(Data::Float(f))) if f == 25569.5 => {}
        other => panic!("the in-memory workbook {name} does not read back: {other:?}"),
    }
}

/// the fixed slice of cases run after every change of the process history
fn ambient_slice() -> Vec<String> {
    let mut c = vec![];
    for v in [25569.0, 0.0, 1.0, 59.0, 60.0, 61.0, 44484.7916666667, 2958465.0, -1.0, 1462.25] {
        let b = bits(v);
        c.push(format!("cell float {b} dt 1900"));
        c.push(format!("cell int {b} dt 1900"));
        c.push(format!("cell rfloat {b} dt 1900"));
        c.push(format!("cell rint {b} dt 1900"));
        c.push(format!("cell dt {b} dt 1900"));
        c.push(format!("cell dt {b} td 1904"));
        c.push(format!("cell rdt {b} dt 1904"));
        c.push(format!("helper float {b} dt 1900"));
        c.push(format!("helper int {b} dt 1900"));
        c.push(format!("helper dt {b} dt 1900"));
        c.push(format!("helper dt {b} td 1904"));
        c.push(format!("dt 1900 {b}"));
        c.push(format!("dt 1904 {b}"));
    }
    c.push("day 1900 25569".into());
    c.push("day 1904 24107".into());
    c
}

/// Single-threaded, after everything else (so that the process has opened no workbook before):
/// every round changes the history (open a 1904 workbook / a 1900 one / nothing, in the three
/// formats that carry a date system; later rounds at random), then runs the fixed slice and some
/// random cells — on this thread or on a fresh one.  The model knows nothing of other workbooks:
/// that is the specification.  Every failure carries the exact history as its replay input.
fn ambient_phase(rounds: u64, drv: &mut Driver, loc: &mut Local, rng: &mut Rng) {
    let script: [&str; 12] = ["-", "xlsx1904", "xlsxomit", "-", "xls1904", "xls1900", "-", "xlsb1904", "xlsb1900", "xlsx1900", "xlsx1904", "xls1900"];
    let slice = ambient_slice();
    let mut hist: Vec<String> = vec![];
    for round in 0..rounds {
        let step: &str = if (round as usize) < script.len() { script[round as usize] } else if rng.chance(1, 4) { "-" } else { *rng.pick(&BOOKS) };
        if step != "-" {
            open_book(step);
            hist.push(step.to_string());
            loc.count(&format!("ambient.open.{step}"));
        } else {
            loc.count("ambient.open.none");
        }
        let on_thread = round % 2 == 1;
        loc.prefix = format!("after {} {}", if hist.is_empty() { "-".to_string() } else { hist.join(",") }, if on_thread { "t " } else { "" });
        let mut cases = slice.clone();
        for _ in 0..60 {
            cases.push(gen_cell(rng));
            cases.push(gen_helper(rng));
        }
        loc.add("ambient.cases", cases.len() as u64);
        if on_thread {
            std::thread::scope(|sc| {
                let (d, l) = (&mut *drv, &mut *loc);
                sc.spawn(move || {
                    for c in &cases {
                        run_input(c, d, l);
                    }
                })
                .join()
                .expect("ambient thread");
            });
        } else {
            for c in &cases {
                run_input(c, drv, loc);
            }
        }
    }
    loc.prefix.clear();
}

/// order of the calls: a slice of serials ascending, then descending, then shuffled — each result is
/// compared with the model every time, so a conversion that remembers earlier calls shows
fn order_phase(drv: &mut Driver, loc: &mut Local, rng: &mut Rng) {
    let mut pts: Vec<(f64, bool)> = vec![];
    for n in 0..1500 {
        pts.push((n as f64, false));
        pts.push((n as f64 + 0.75, n % 2 == 0));
        pts.push(((2_958_465 - n) as f64, true));
    }
    let mut desc = pts.clone();
    desc.reverse();
    let mut shuf = pts.clone();
    rng.shuffle(&mut shuf);
    for order in [&pts, &desc, &shuf, &pts] {
        for chunk in order.chunks(1024) {
            check_points(chunk, drv, loc, false);
        }
    }
    loc.add("order_phase.points", 4 * pts.len() as u64);
}


// ---------------------------------------------------------------------------------------------
// workbook stage: date-styled cells of every record kind, read from a file in either date system
// ---------------------------------------------------------------------------------------------

const XLSX_1904_SPELLINGS: [&str; 6] = ["1", "true", "&#49;", "&#x31;", "tru&#101;", "&#x74;rue"];
const XLSX_1900_SPELLINGS: [&str; 6] = ["0", "false", "omit", "&#48;", "fals&#101;", "&#x30;"];
const BOOK_FORMATS: [&str; 4] = ["date", "datetime", "elapsed", "custom"];

/// desc: "book <xls|xlsb|xlsx> <1900|1904> <spelling index> <date|datetime|elapsed|custom> <bits>".
/// One sheet holding the serial (and RK-representable neighbours of it) in a cell of EVERY numeric
/// record kind of the format — xls NUMBER, RK, MULRK, FORMULA with a numeric cached result; xlsb
/// BrtCellReal, BrtCellRk, BrtFmlaNum; xlsx `<c><v>` with and without `<f>` — all carrying a
/// date / date-time / [h]:mm:ss / custom date format, in a workbook that declares the given date
/// system (xlsx: in one of the legal spellings of the xsd:boolean attribute, character references
/// included).  Every cell read back must be a date-time cell holding its serial and must convert
/// like that serial in the WORKBOOK's date system (model: `cell dt <serial> <sys> <kind>`; oracle:
/// the independent calendar).
fn check_book(desc: &str, drv: &mut Driver, loc: &mut Local) {
    use calamine::{Reader, Xls, Xlsb, Xlsx};
    use std::io::Cursor;
    use verif_harness::{xlsbw, xlsw, xlsxw};
    let p: Vec<&str> = desc.split(' ').collect();
    let (fmt, is_1904, sp, fk, v) = (p[1], p[2] == "1904", p[3].parse::<usize>().unwrap(), p[4], unbits(p[5]));
    let (ifmt, custom): (u16, Option<&str>) = match fk {
        "date" => (14, None),
        "datetime" => (22, None),
        "elapsed" => (46, None),
        _ => (164, Some("yyyy\\-mm\\-dd\\ hh:mm:ss")),
    };
    let td = fk == "elapsed";
    // RK-representable relatives of the serial
    let day = (v.floor() as i64).clamp(-500_000_000, 500_000_000) as i32;
    let centi = ((v * 100.0).round() as i64).clamp(-500_000_000, 500_000_000) as i32;
    // (label, row, col, expected serial)
    let mut cells: Vec<(&str, u32, u32, f64)> = vec![];
    let bytes: Vec<u8> = match fmt {
        "xls" => {
            let mut b = xlsw::XlsBook::new();
            b.date1904 = is_1904;
            if let Some(c) = custom {
                b.formats.push((ifmt, c.replace("\\", "\\")));
            }
            b.xfs = vec![0, ifmt];
            let mut sh = xlsw::XlsSheet::new("S");
            let mut put = |r: u16, c: u16, cv: xlsw::CellV| {
                let mut cell = xlsw::XlsCell::new(r, c, cv);
                cell.xf = 1;
                sh.cells.push(cell);
            };
            put(0, 0, xlsw::CellV::Number(v));
            cells.push(("number", 0, 0, v));
            put(0, 1, xlsw::CellV::Rk(xlsw::rk_int(day, false)));
            cells.push(("rk", 0, 1, day as f64));
            put(0, 2, xlsw::CellV::MulRk(vec![(1, xlsw::rk_int(centi, true)), (1, xlsw::rk_int(day, false))]));
            cells.push(("mulrk", 0, 2, centi as f64 / 100.0));
            cells.push(("mulrk", 0, 3, day as f64));
            put(1, 0, xlsw::CellV::Formula { rgce: xlsw::rgce_int(1), cached: xlsw::Cached::Num(v) });
            cells.push(("formula", 1, 0, v));
            put(1, 1, xlsw::CellV::Number(v));
            cells.push(("number_after_formula", 1, 1, v));
            b.sheets.push(sh);
            b.to_bytes_plain(&mut Rng::new(7))
        }
        "xlsb" => {
            let mut b = xlsbw::XlsbBook::new();
            b.date1904 = is_1904;
            if let Some(c) = custom {
                b.fmts.push((ifmt, c.replace("\\", "\\")));
            }
            b.xfs = Some(vec![0, ifmt]);
            let mut sh = xlsbw::XlsbSheet::new("S");
            sh.set(0, 0, xlsbw::BVal::real(v)).style = 1;
            cells.push(("real", 0, 0, v));
            sh.set(0, 1, xlsbw::BVal::rk_int(day, false)).style = 1;
            cells.push(("rk", 0, 1, day as f64));
            sh.set(0, 2, xlsbw::BVal::rk_int(centi, true)).style = 1;
            cells.push(("rk100", 0, 2, centi as f64 / 100.0));
            {
                let c = sh.set(1, 0, xlsbw::BVal::real(v));
                c.style = 1;
                c.fmla = Some(xlsbw::Fmla::trivial());
            }
            cells.push(("fmlanum", 1, 0, v));
            sh.set(1, 1, xlsbw::BVal::real(v)).style = 1;
            cells.push(("real_after_fmla", 1, 1, v));
            b.sheets.push(sh);
            b.to_bytes()
        }
        _ => {
            let mut b = xlsxw::XlsxBook::new();
            let spelling = if is_1904 { XLSX_1904_SPELLINGS[sp % 6] } else { XLSX_1900_SPELLINGS[sp % 6] };
            b.date1904 = if spelling == "omit" { None } else { Some(is_1904) };
            if let Some(c) = custom {
                b.num_fmts.push((ifmt as u32, c.replace("\\", "\\")));
            }
            b.cell_xfs = vec![0, ifmt as u32];
            let mut sh = xlsxw::XlsxSheet::new("S");
            sh.set(0, 0, xlsxw::XCell::num(&format!("{v}")).with_style(1));
            cells.push(("num", 0, 0, v));
            sh.set(0, 1, xlsxw::XCell::num(&format!("{day}")).with_style(1));
            cells.push(("int", 0, 1, day as f64));
            sh.set(1, 0, xlsxw::XCell::num(&format!("{v}")).with_style(1).with_formula("1+1"));
            cells.push(("formula", 1, 0, v));
            sh.set(1, 1, xlsxw::XCell::num(&format!("{v}")).with_style(1));
            cells.push(("num_after_formula", 1, 1, v));
            b.sheets.push(sh);
            let built = b.build(&xlsxw::Layout::plain());
            if spelling == "omit" {
                built.bytes
            } else {
                // re-spell the attribute value (the serialiser always escapes, so patch the part's text)
                let mut parts = built.parts.clone();
                let mut patched = 0;
                for (name, body) in parts.iter_mut() {
                    if name.to_ascii_lowercase() == "xl/workbook.xml" {
                        let t = String::from_utf8(body.clone()).expect("utf8 workbook part");
                        let a = t.find("date1904=\"").expect("date1904 attribute") + 10;
                        let e = a + t[a..].find('"').unwrap();
                        *body = format!("{}{}{}", &t[..a], spelling, &t[e..]).into_bytes();
                        patched += 1;
                    }
                }
                assert_eq!(patched, 1, "workbook part");
                xlsxw::zip_parts(&parts, xlsxw::Compression::Stored, &mut Rng::new(7))
            }
        }
    };
    let r: Result<Result<Vec<Data>, String>, String> = guarded(|| {
        let c = Cursor::new(bytes);
        let range = match fmt {
            "xls" => Xls::new(c).map_err(|e| format!("{e:?}"))?.worksheet_range("S").map_err(|e| format!("{e:?}"))?,
            "xlsb" => Xlsb::new(c).map_err(|e| format!("{e:?}"))?.worksheet_range("S").map_err(|e| format!("{e:?}"))?,
            _ => Xlsx::new(c).map_err(|e| format!("{e:?}"))?.worksheet_range("S").map_err(|e| format!("{e:?}"))?,
        };
        Ok(cells.iter().map(|(_, r, c, _)| range.get_value((*r, *c)).cloned().unwrap_or(Data::Empty)).collect())
    });
    loc.count(&format!("book.{fmt}.{}", p[2]));
    let got = match r {
        Err(pn) => {
            loc.evaluations += 1;
            loc.fail("impl_vs_spec", "panic:book", desc, &format!("panic: {}", &pn[..pn.len().min(160)]), "", "the workbook reads");
            return;
        }
        Ok(Err(e)) => {
            loc.evaluations += 1;
            loc.fail("impl_vs_spec", "book_does_not_open", desc, &e, "", "the workbook reads");
            return;
        }
        Ok(Ok(g)) => g,
    };
    let fmt4 = |a: &Option<NaiveDateTime>, b: &Option<NaiveDate>, c: &Option<NaiveTime>, d: &Option<chrono::Duration>| {
        format!("dt={} date={} time={} dur={}", show_dt(a), opt(b, show_date), opt(c, show_time), show_dur(d))
    };
    for (i, (label, row, col, serial)) in cells.iter().enumerate() {
        loc.evaluations += 1;
        loc.count(&format!("book.cell.{fmt}.{label}"));
        let input = format!("{desc} [{label} cell ({row},{col}) serial {serial:?}]");
        let model = drv.ask(&format!("cell {}", cell_wire("dt", *serial, 0, td, is_1904)));
        let cell = &got[i];
        let edt = match cell {
            Data::DateTime(e) => *e,
            other => {
                loc.fail("impl_vs_spec", &format!("book_{label}_not_a_datetime_cell"), &input, &format!("{other:?}"), &model, "Data::DateTime");
                continue;
            }
        };
        if edt.as_f64().to_bits() != serial.to_bits() || edt.is_duration() != td {
            loc.fail("impl_vs_spec", &format!("book_{label}_wrong_cell"), &input, &format!("{edt:?}"), &model, &format!("serial {serial:?} duration={td}"));
            continue;
        }
        let four = guarded(|| (cell.as_datetime(), cell.as_date(), cell.as_time(), cell.as_duration()));
        let imp_s = match &four {
            Ok((a, b, c, d)) => fmt4(a, b, c, d),
            Err(pn) => format!("panic: {}", &pn[..pn.len().min(120)]),
        };
        let verdict: Option<(String, String)> = match &four {
            Err(_) => Some(("panic".into(), "no panic".into())),
            Ok((a, b, c, d)) => {
                if let Some(x) = judge_dt(*serial, is_1904, &Ok(*a)) {
                    Some(x)
                } else if *b != a.map(|x| x.date()) || *c != a.map(|x| x.time()) {
                    Some(("date_time_not_components".into(), "as_date/as_time = components of as_datetime".into()))
                } else {
                    judge_dur(*serial, &Ok(*d))
                }
            }
        };
        if matches!(&four, Ok((Some(_), _, _, _))) {
            loc.hashes.push(fnv64(input.as_bytes()));
        }
        if let Some((sig, exp)) = &verdict {
            loc.fail("impl_vs_spec", &format!("book_{label}_{sig}"), &input, &imp_s, &model, exp);
        }
        if imp_s != model {
            let sig = verdict.as_ref().map(|x| format!("book_{label}_{}", x.0)).unwrap_or_else(|| format!("book_{label}"));
            loc.fail("impl_vs_model", &sig, &input, &imp_s, &model, "");
        } else if let Some((sig, exp)) = &verdict {
            loc.fail("model_vs_spec", &format!("book_{label}_{sig}"), &input, &imp_s, &model, exp);
        }
    }
}

fn gen_book(rng: &mut Rng) -> String {
    let fmt = *rng.pick(&["xls", "xls", "xlsb", "xlsx", "xlsx"]);
    let sys = if rng.chance(3, 5) { "1904" } else { "1900" };
    let (day, k) = gen_base(rng);
    let day = day.clamp(-100, 2_958_465);
    let v = if rng.chance(1, 4) { day as f64 } else { day as f64 + k as f64 / 86_400_000.0 };
    format!("book {fmt} {sys} {} {} {}", rng.below(6), rng.pick(&BOOK_FORMATS), bits(v))
}

fn book_corpus() -> Vec<String> {
    let mut c = vec![];
    for fmt in ["xls", "xlsb", "xlsx"] {
        for sys in ["1900", "1904"] {
            for sp in 0..(if fmt == "xlsx" { 6 } else { 1 }) {
                for fk in BOOK_FORMATS {
                    c.push(format!("book {fmt} {sys} {sp} {fk} {}", bits(25569.75)));
                }
            }
            c.push(format!("book {fmt} {sys} 0 datetime {}", bits(0.0)));
            c.push(format!("book {fmt} {sys} 1 date {}", bits(59.5)));
        }
    }
    c
}

// ---------------------------------------------------------------------------------------------
// replay / corpus
// ---------------------------------------------------------------------------------------------

fn run_input(inp: &str, drv: &mut Driver, loc: &mut Local) {
    let p: Vec<&str> = inp.split(' ').collect();
    if p[0] == "after" {
        // "after <book,book,…|-> [t] <case>": open those workbooks first, in this process; `t` = run the case on a second thread
        for b in p[1].split(',').filter(|b| *b != "-") {
            open_book(b);
        }
        let on_thread = p[2] == "t";
        let rest = p[if on_thread { 3 } else { 2 }..].join(" ");
        loc.prefix = format!("after {} {}", p[1], if on_thread { "t " } else { "" });
        if on_thread {
            std::thread::scope(|sc| {
                sc.spawn(|| run_input(&rest, drv, loc)).join().expect("case thread");
            });
        } else {
            run_input(&rest, drv, loc);
        }
        loc.prefix.clear();
        return;
    }
    match p[0] {
        "dt" => check_points(&[(unbits(p[2]), p[1] == "1904")], drv, loc, true),
        "dur" => check_points(&[(unbits(p[1]), false)], drv, loc, true),
        "day" => {
            let n: u64 = p[2].parse().unwrap();
            sweep_range(p[1] == "1904", n, n + 1, drv, loc)
        }
        "mono" => check_monotone(&[(unbits(p[2]), p[1] == "1904"), (unbits(p[3]), p[1] == "1904")], loc),
        "cell" => check_cell(inp, drv, loc),
        "helper" => check_helper(inp, drv, loc),
        "book" => check_book(&p[..6].join(" "), drv, loc),
        "iso" => check_iso(&p[..9].join(" "), drv, loc),
        x => panic!("bad replay input {x}"),
    }
}

fn corpus() -> Vec<String> {
    let mut c: Vec<String> = vec![];
    // D26: very negative / infinite serials panicked in Duration::milliseconds, NaN mapped to the epoch
    for v in [-1e20, f64::NEG_INFINITY, f64::NAN, f64::INFINITY, 1e20] {
        c.push(format!("dt 1900 {}", bits(v)));
        c.push(format!("dt 1904 {}", bits(v)));
        c.push(format!("cell float {} dt 1900", bits(v)));
        c.push(format!("cell dt {} td 1904", bits(v)));
    }
    // the dates-feature unit tests of the repository
    for v in [25569.0, 44484.7916666667, 23596.0, 0.9, 59.0, 60.0, 61.0, 0.0, 1.0, 2958465.0, 2958465.99999999] {
        c.push(format!("dt 1900 {}", bits(v)));
        c.push(format!("dt 1904 {}", bits(v)));
    }
    // the fictitious 1900-02-29: 59.5 converts to a later instant than 60.0 (known finding)
    c.push(format!("mono 1900 {} {}", bits(59.5), bits(60.0)));
    c.push(format!("mono 1904 {} {}", bits(59.5 - 1462.0), bits(60.0 - 1462.0)));
    // serde helpers: known findings (1904 flag, durations and ISO strings do not survive Data::deserialize)
    c.push(format!("helper dt {} dt 1904", bits(0.0)));
    c.push(format!("helper dt {} td 1900", bits(0.5)));
    c.push(format!("helper dt {} dt 1900", bits(44484.5)));
    c.push(format!("helper float {} dt 1900", bits(44484.5)));
    c.push("helper iso 0000000000000000 dt 1900".into());
    c.push("helper isodur 0000000000000000 dt 1900".into());
    c.push("iso dtf 2021 10 15 19 0 0 250".into());
    c.push("iso dur 1 1 1 10 10 10 0".into());
    c.push("iso durf 1 1 1 10 10 10 500".into());
    c.push("iso date 2021 10 15 0 0 0 0".into());
    c.push("iso time 1 1 1 23 59 59 0".into());
    c
}

// ---------------------------------------------------------------------------------------------

fn merge(rep: &mut Report, loc: Local, all_hashes: &mut Vec<Vec<u64>>) {
    rep.evaluations += loc.evaluations;
    for (k, v) in loc.counters {
        rep.add(&k, v);
    }
    for s in loc.sample {
        if rep.samples.len() < 8 {
            rep.samples.push(s);
        }
    }
    for (kind, sig, input, i, m, e) in loc.fails {
        if input.is_empty() {
            *rep.failure_count.entry(format!("{kind}|{sig}")).or_insert(0) += 1;
        } else {
            rep.fail(&kind, &sig, &input, &i, &m, &e);
        }
    }
    all_hashes.push(loc.hashes);
}

fn count_distinct(all: Vec<Vec<u64>>) -> u64 {
    // partition by the top 4 bits, sort + dedup each partition in its own thread
    let mut parts: Vec<Vec<u64>> = (0..16).map(|_| Vec::new()).collect();
    for v in all {
        for h in v {
            parts[(h >> 60) as usize].push(h);
        }
    }
    std::thread::scope(|sc| {
        let hs: Vec<_> = parts
            .into_iter()
            .map(|mut p| {
                sc.spawn(move || {
                    p.sort_unstable();
                    p.dedup();
                    p.len() as u64
                })
            })
            .collect();
        hs.into_iter().map(|h| h.join().unwrap()).sum()
    })
}

fn main() {
    let args = Args::parse();
    let mut rep = Report::new(
        "C11",
        "(1) EVERY whole-day serial 0..=2958465 in both date systems: real as_datetime vs the Lean model (FNV-64 over the canonical \
         date-times, blocks of 4096, bisected on mismatch) vs an incrementing y/m/d counter anchored at 1900-01-01 = serial 1, \
         1900-03-01 = serial 61, 1904-01-01 = serial 0 (serials 0 and 60 of the 1900 system are compared with the model only: the \
         property fixes no date for them); Data::Int / DataRef::Float must agree with the 1900 system. \
         (2) fractional serials: bases day + k ms (days: edge set around 0/59/60/61/1462/2958465, small negatives, uniform 0..2958465; \
         k: edge set around 0/500/999/noon/end of day, uniform), each with the 21 points {0, ±0.4995, ±0.5, ±0.5005 ms} × {−1,0,+1 ulp}, \
         in a random date system: as_datetime and as_duration vs model (float step computed here with the code's expression, integer \
         sent to the driver) vs oracle (exact i128 rounding of the f64's mantissa/exponent, both neighbours accepted only when an \
         inexact float operation lies within its error bound of a tie; independent days-from-civil calendar; chrono's documented span); \
         monotone between neighbours on the same side of the leap-year shim, and on the date for all pairs. \
         (3) special values: negative, huge, ±inf, NaN, subnormal, the edges of chrono's span and of i64 milliseconds to the ulp. \
         (4) Data/DataRef cells (Int, Float, DateTime with both type flags and both systems, String, Bool, Empty, Error) through \
         as_datetime/as_date/as_time/as_duration vs model vs oracle; DateTimeIso/DurationIso strings built from random components \
         must give the components back (chrono's parser is not modelled). \
         (5) the conversions are a function of the cell alone: a fixed slice of cells/points plus random cells is re-run after every \
         change of the process history (opening in-memory 1904 / 1900 / attribute-less xlsx, xls, xlsb workbooks with the real readers, \
         scripted then random), alternately on the main and on a fresh thread, and a slice of serials ascending / descending / shuffled; \
         every result is compared with the model, which knows nothing of other workbooks; a failure's replay input carries the exact history. \
         (6) workbook stage: in-memory xls / xlsb / xlsx files in either date system (xlsx: every legal spelling of the date1904 \
         attribute incl. character references) whose sheet holds a serial in a date / date-time / [h]:mm:ss / custom-date styled cell of \
         every numeric record kind (xls NUMBER, RK, MULRK, FORMULA numeric result; xlsb BrtCellReal, BrtCellRk, BrtFmlaNum; xlsx <v> with \
         and without <f>), read with the real readers: the cell must be a DateTime cell holding its serial and convert in the workbook's \
         system (model and calendar oracle as for cells). \
         non-trivial = a conversion that yields a date-time or duration; distinct by (kind, system, f64 bits / day / description)",
    );
    rep.notes.push(
        "C11: the float step round((serial [+1462] [+1]) * 86_400_000) is VALIDATED (exhaustively on whole days, densely on fractions, against exact \
         integer arithmetic), not proved; the theorems cover the integer calendar logic from the millisecond count on"
            .into(),
    );
    let mut all_hashes: Vec<Vec<u64>> = vec![];

    if let Some(inp) = &args.replay {
        let mut drv = Driver::spawn(&args.driver);
        let mut loc = Local::default();
        run_input(inp, &mut drv, &mut loc);
        merge(&mut rep, loc, &mut all_hashes);
        rep.write(&args.out);
        return;
    }

    let threads: usize = if args.thorough() { 16 } else { 4 };
    let n_bases = args.count(200_000, 20_000_000);
    let n_cells = if args.thorough() { 1_000_000 } else { 30_000 }.min(n_bases.max(1000));
    let n_books: u64 = if args.thorough() { 100_000 } else { 2_000 }.min(n_bases.max(400));
    let n_iso = if args.thorough() { 1_000_000 } else { 30_000 }.min(n_bases.max(1000));

    // corpus + specials, single-threaded first
    {
        let mut drv = Driver::spawn(&args.driver);
        let mut loc = Local::default();
        for c in corpus() {
            run_input(&c, &mut drv, &mut loc);
            loc.count("corpus");
        }
        let sp = special_values();
        let mut pts = vec![];
        for v in sp {
            pts.push((*v, false));
            pts.push((*v, true));
        }
        loc.add("special_points", pts.len() as u64);
        for chunk in pts.chunks(1024) {
            check_points(chunk, &mut drv, &mut loc, true);
        }
        // the same values as cells of every numeric kind, through all four conversions
        let mut ncell = 0u64;
        for v in sp {
            for (variant, ty, sys) in [("float", "dt", "1900"), ("rfloat", "dt", "1900"), ("dt", "dt", "1900"), ("dt", "td", "1904"), ("rdt", "td", "1900"), ("rdt", "dt", "1904")] {
                check_cell(&format!("cell {variant} {} {ty} {sys}", bits(*v)), &mut drv, &mut loc);
                ncell += 1;
            }
        }
        for n in boundary_ints() {
            for variant in ["int", "rint"] {
                check_cell(&format!("cell {variant} i{n} dt 1900"), &mut drv, &mut loc);
                ncell += 1;
            }
            check_helper(&format!("helper int i{n} dt 1900"), &mut drv, &mut loc);
        }
        loc.add("boundary_cells", ncell);
        for b in book_corpus() {
            check_book(&b, &mut drv, &mut loc);
        }
        order_phase(&mut drv, &mut loc, &mut Rng::new(args.seed ^ 0x0bde));
        loc.add("driver_requests", drv.requests);
        merge(&mut rep, loc, &mut all_hashes);
    }

    // whole-day sweep and random parts, in parallel (one driver process per thread)
    let total_days: u64 = 2_958_466;
    let mut root = Rng::new(args.seed);
    let seeds: Vec<Rng> = (0..threads).map(|_| root.fork()).collect();
    let locals: Vec<Local> = std::thread::scope(|sc| {
        let hs: Vec<_> = seeds
            .into_iter()
            .enumerate()
            .map(|(t, mut rng)| {
                let driver = args.driver.clone();
                sc.spawn(move || {
                    let mut drv = Driver::spawn(&driver);
                    let mut loc = Local::default();
                    // (1) sweep: thread t takes the t-th slice of both systems
                    let per = (total_days + threads as u64 - 1) / threads as u64;
                    let lo = (t as u64 * per).min(total_days);
                    let hi = ((t as u64 + 1) * per).min(total_days);
                    for sys in [false, true] {
                        sweep_range(sys, lo, hi, &mut drv, &mut loc);
                    }
                    let swept = loc.evaluations;
                    // every swept day is a distinct non-trivial case
                    for sys in [false, true] {
                        for n in lo..hi {
                            loc.hashes.push(fnv64(format!("day {} {n}", sys_name(sys)).as_bytes()));
                        }
                    }
                    let _ = swept;
                    // (2) fractional serials
                    let mine = n_bases / threads as u64 + if (t as u64) < n_bases % threads as u64 { 1 } else { 0 };
                    let mut batch: Vec<(f64, bool)> = Vec::with_capacity(64 * 21);
                    let mut vals: Vec<f64> = Vec::with_capacity(21);
                    for i in 0..mine {
                        let (day, k) = gen_base(&mut rng);
                        let sys = rng.chance(1, 2);
                        vals.clear();
                        points_around(day, k, &mut vals);
                        let start = batch.len();
                        batch.extend(vals.iter().map(|v| (*v, sys)));
                        if i % 8 == 0 {
                            check_monotone(&batch[start..], &mut loc);
                        }
                        loc.count(if day < 0 { "base.negative_day" } else if day < 62 { "base.day_0_61" } else { "base.day_62_up" });
                        loc.count(if sys { "base.system_1904" } else { "base.system_1900" });
                        if batch.len() >= 64 * 21 {
                            check_points(&batch, &mut drv, &mut loc, true);
                            batch.clear();
                        }
                    }
                    if !batch.is_empty() {
                        check_points(&batch, &mut drv, &mut loc, true);
                    }
                    // (4) cells and ISO strings
                    for _ in 0..n_cells / threads as u64 {
                        let c = gen_cell(&mut rng);
                        check_cell(&c, &mut drv, &mut loc);
                    }
                    for _ in 0..n_cells / threads as u64 {
                        let c = gen_helper(&mut rng);
                        check_helper(&c, &mut drv, &mut loc);
                    }
                    for _ in 0..n_books / threads as u64 {
                        let c = gen_book(&mut rng);
                        check_book(&c, &mut drv, &mut loc);
                    }
                    for _ in 0..n_iso / threads as u64 {
                        let c = gen_iso(&mut rng);
                        check_iso(&c, &mut drv, &mut loc);
                    }
                    loc.add("driver_requests", drv.requests);
                    loc
                })
            })
            .collect();
        hs.into_iter().map(|h| h.join().expect("worker thread")).collect()
    });
    for loc in locals {
        merge(&mut rep, loc, &mut all_hashes);
    }
    // process state: last, so that no workbook has been opened in this process before
    {
        let mut drv = Driver::spawn(&args.driver);
        let mut loc = Local::default();
        ambient_phase(if args.thorough() { 240 } else { 36 }, &mut drv, &mut loc, &mut Rng::new(args.seed ^ 0xa3b1e));
        loc.add("driver_requests", drv.requests);
        merge(&mut rep, loc, &mut all_hashes);
    }
    let distinct = count_distinct(all_hashes);
    rep.add("bulk_distinct", distinct);
    rep.exhaustive = false;
    rep.notes.push("whole-day serials 0..=2958465 are covered exhaustively in both date systems on every run".into());
    rep.write(&args.out);
}
