//! C08 — the header-row option selects the first row without altering any cell.
//! Generated workbooks in all four formats are read under sequences of header-row options; every
//! result is compared with
//!   oracle : the property as stated, computed from the logical sheet (start row, emptiness, values),
//!   model  : the Lean model of the windowing code (`drv_c08`: `windowLazy` for xlsx/xlsb on the stored
//!            cells, `windowEager` for xls/ods on the range read under the default option).
use calamine::{Data, HeaderRow, Range, Reader};
use std::collections::BTreeMap;
use verif_harness::wb::{self, Fmt, LSheet, V};
use verif_harness::{driver::Driver, guarded, report::Report, rng::Rng, Args};

fn code_of(d: &Data, table: &[Data]) -> usize {
    if *d == Data::Empty {
        return 0;
    }
    table.iter().position(|x| x == d).map(|i| i + 1).unwrap_or(999_999)
}

fn dump_range(r: &Range<Data>, table: &[Data]) -> String {
    match (r.start(), r.end()) {
        (Some(s), Some(e)) => {
            let vals: Vec<String> = r.rows().flat_map(|row| row.iter().map(|d| code_of(d, table).to_string())).collect();
            format!("{},{},{},{}:{}", s.0, s.1, e.0, e.1, vals.join(","))
        }
        _ => "empty".into(),
    }
}

fn hdr_wire(h: &HeaderRow) -> String {
    match h {
        HeaderRow::FirstNonEmptyRow => "d".into(),
        HeaderRow::Row(n) => n.to_string(),
        _ => "?".into(),
    }
}

/// the property, checked directly against the logical sheet; Err(description) on a violation
fn oracle(s: &LSheet, h: &HeaderRow, r: &Range<Data>) -> Result<(), String> {
    let cells: BTreeMap<(u32, u32), Data> = s.cells.iter().map(|(k, v)| (*k, v.expected())).collect();
    let n = match h {
        HeaderRow::Row(n) => *n,
        _ => match cells.keys().next() {
            Some(k) => k.0,
            None => 0,
        },
    };
    let kept: Vec<(&(u32, u32), &Data)> = cells.iter().filter(|(k, _)| k.0 >= n).collect();
    if kept.is_empty() {
        return if r.is_empty() { Ok(()) } else { Err(format!("expected an empty range, got start {:?}", r.start())) };
    }
    let (start, end) = match (r.start(), r.end()) {
        (Some(s), Some(e)) => (s, e),
        _ => return Err("range is empty although a non-empty cell exists in a row >= n".into()),
    };
    if start.0 != n {
        return Err(format!("range starts at row {} instead of {}", start.0, n));
    }
    let last = kept.iter().map(|(k, _)| k.0).max().unwrap();
    if end.0 < last {
        return Err(format!("range ends at row {} before the last non-empty row {}", end.0, last));
    }
    for (k, v) in &kept {
        match r.get_value(**k) {
            Some(x) if x == *v => {}
            other => return Err(format!("value at {:?}: expected {:?}, got {:?}", k, v, other)),
        }
    }
    // every cell of the returned rectangle is the sheet's value there (absent = Empty); nothing from rows < n
    for (i, j, v) in r.cells() {
        let pos = (start.0 + i as u32, start.1 + j as u32);
        let want = cells.get(&pos).cloned().unwrap_or(Data::Empty);
        if *v != want {
            return Err(format!("cell {:?} holds {:?}, the sheet has {:?}", pos, v, want));
        }
    }
    Ok(())
}

fn classify(s: &LSheet, h: &HeaderRow) -> &'static str {
    let rows: Vec<u32> = s.cells.keys().map(|k| k.0).collect();
    match h {
        HeaderRow::Row(n) => {
            if rows.is_empty() {
                "empty-sheet"
            } else if *n > *rows.iter().max().unwrap() {
                "after-last"
            } else if *n < *rows.iter().min().unwrap() {
                "before-first"
            } else if rows.contains(n) {
                "on-row"
            } else {
                "gap"
            }
        }
        _ => "default",
    }
}

fn gen_options(rng: &mut Rng, s: &LSheet) -> Vec<HeaderRow> {
    let rows: Vec<u32> = s.cells.keys().map(|k| k.0).collect();
    let first = rows.iter().min().copied().unwrap_or(0);
    let last = rows.iter().max().copied().unwrap_or(0);
    let mut cands = vec![0, first.saturating_sub(1), first, last, last.saturating_add(1), 1 << 20, u32::MAX, u32::MAX - 1];
    for r in first..=last.min(first + 60) {
        if !rows.contains(&r) {
            cands.push(r); // a gap row
            break;
        }
    }
    // rows that hold nothing but blank (valueless) cells
    for (r, _) in &s.blanks {
        if !rows.contains(r) {
            cands.push(*r);
            cands.push(*r);
        }
    }
    let k = rng.range(2, 7);
    let mut out = vec![];
    for _ in 0..k {
        let h = match rng.below(10) {
            0 | 1 => HeaderRow::FirstNonEmptyRow,
            2..=7 => HeaderRow::Row(*rng.pick(&cands)),
            _ => HeaderRow::Row(rng.range(first.saturating_sub(3) as u64, last as u64 + 3) as u32),
        };
        out.push(h);
    }
    out
}

/// the cap of DESIGN.md D37: a window that starts far above the data allocates the dense rectangle
fn window_area(s: &LSheet, h: &HeaderRow) -> u64 {
    let rows: Vec<u32> = s.cells.keys().map(|k| k.0).collect();
    let cols: Vec<u32> = s.cells.keys().map(|k| k.1).collect();
    if rows.is_empty() {
        return 0;
    }
    let top = match h {
        HeaderRow::Row(n) => (*n).min(*rows.iter().min().unwrap()),
        _ => *rows.iter().min().unwrap(),
    };
    (*rows.iter().max().unwrap() as u64 - top as u64 + 1) * (*cols.iter().max().unwrap() as u64 - *cols.iter().min().unwrap() as u64 + 1)
}

struct Case {
    fmt: Fmt,
    sheet: LSheet,
    options: Vec<HeaderRow>,
    seed: u64,
}

impl Case {
    fn wire(&self) -> String {
        let cells: Vec<String> = self
            .sheet
            .cells
            .iter()
            .map(|((r, c), v)| {
                format!(
                    "{r}:{c}:{}",
                    match v {
                        V::Num(f) => format!("n{}", f),
                        V::Str(s) => format!("s{}", verif_harness::hex(s.as_bytes())),
                        V::Bool(b) => format!("b{}", *b as u8),
                    }
                )
            })
            .collect();
        let opts: Vec<String> = self.options.iter().map(hdr_wire).collect();
        let blanks: Vec<String> = self.sheet.blanks.iter().map(|(r, c)| format!("{r}:{c}")).collect();
        format!(
            "{} {} {} {}{}",
            self.fmt.name(),
            self.seed,
            if cells.is_empty() { "-".into() } else { cells.join(",") },
            opts.join(","),
            if blanks.is_empty() { String::new() } else { format!(" {}", blanks.join(",")) }
        )
    }
    fn parse(s: &str) -> Case {
        let p: Vec<&str> = s.split(' ').collect();
        let mut sheet = LSheet { name: "S".into(), ..Default::default() };
        if p[2] != "-" {
            for c in p[2].split(',') {
                let q: Vec<&str> = c.splitn(3, ':').collect();
                let v = match &q[2][..1] {
                    "n" => V::Num(q[2][1..].parse().unwrap()),
                    "s" => V::Str(String::from_utf8(verif_harness::unhex(&q[2][1..])).unwrap()),
                    _ => V::Bool(&q[2][1..] == "1"),
                };
                sheet.cells.insert((q[0].parse().unwrap(), q[1].parse().unwrap()), v);
            }
        }
        if let Some(b) = p.get(4) {
            for c in b.split(',') {
                let (r, c) = c.split_once(':').unwrap();
                sheet.blanks.insert((r.parse().unwrap(), c.parse().unwrap()));
            }
        }
        let options = p[3]
            .split(',')
            .map(|o| if o == "d" { HeaderRow::FirstNonEmptyRow } else { HeaderRow::Row(o.parse().unwrap()) })
            .collect();
        Case { fmt: Fmt::parse(p[0]), sheet, options, seed: p[1].parse().unwrap() }
    }
}

/// xlsb: every cell record of the first sheet part gets an EARLIER record at the same position with another value
/// (a BrtCellReal): "the last record of a cell wins" — whatever the header row. `None` when the part cannot be taken
/// apart.
fn xlsb_with_overwritten_cells(bytes: &[u8]) -> Option<Vec<u8>> {
    use std::io::{Cursor, Read, Write};
    let mut z = zip::ZipArchive::new(Cursor::new(bytes)).ok()?;
    let mut parts: Vec<(String, Vec<u8>)> = vec![];
    for i in 0..z.len() {
        let mut f = z.by_index(i).ok()?;
        let mut v = vec![];
        f.read_to_end(&mut v).ok()?;
        parts.push((f.name().to_string(), v));
    }
    let pi = parts.iter().position(|(n, _)| n.contains("sheet") && n.ends_with(".bin"))?;
    let part = parts[pi].1.clone();
    let mut out = vec![];
    let mut o = 0;
    while o < part.len() {
        let start = o;
        let b0 = *part.get(o)? as u16;
        o += 1;
        let id = if b0 & 0x80 != 0 {
            let b1 = *part.get(o)? as u16;
            o += 1;
            (b0 & 0x7F) | ((b1 & 0x7F) << 7)
        } else {
            b0
        };
        let mut len = 0usize;
        for k in 0..4 {
            let x = *part.get(o)? as usize;
            o += 1;
            len |= (x & 0x7F) << (7 * k);
            if x & 0x80 == 0 {
                break;
            }
        }
        let payload = part.get(o..o + len)?;
        // the value-bearing cell records: BrtCellRk 2, Error 3, Bool 4, Real 5, St 6, Isst 7, FmlaString 8 … FmlaError 11
        if (2..=11).contains(&id) && len >= 8 {
            out.extend_from_slice(&[0x05, 0x10]);
            out.extend_from_slice(&payload[..8]);
            out.extend_from_slice(&(-4242.25f64).to_le_bytes());
        }
        o += len;
        out.extend_from_slice(&part[start..o]);
    }
    parts[pi].1 = out;
    let mut w = zip::ZipWriter::new(Cursor::new(Vec::new()));
    for (n, d) in &parts {
        let opt = zip::write::SimpleFileOptions::default().compression_method(zip::CompressionMethod::Deflated);
        w.start_file(n.as_str(), opt).ok()?;
        w.write_all(d).ok()?;
    }
    w.finish().ok().map(|c| c.into_inner())
}

/// returns failures (kind, sig, impl, model, expect)
fn run_case(case: &Case, drv: &mut Driver, rep: &mut Report) -> Vec<(String, String, String, String, String)> {
    let mut fails = vec![];
    let fmt = case.fmt;
    let book = wb::LBook { sheets: vec![case.sheet.clone()], ..Default::default() };
    let mut bytes = wb::write(&book, fmt, &mut Rng::new(case.seed));
    if fmt == Fmt::Xlsb && case.seed % 3 == 1 {
        if let Some(b) = xlsb_with_overwritten_cells(&bytes) {
            rep.count("xlsb.overwritten-cells");
            bytes = b;
        }
    }
    // xls also takes the option at construction (`XlsOptions::header_row`): one case in three opens that way,
    // so that "changing the option affects only subsequent reads and can be changed back" is exercised from there
    let opened = if fmt == Fmt::Xls && case.seed % 3 == 0 && !case.options.is_empty() {
        let mut o = calamine::XlsOptions::default();
        o.header_row = case.options[0];
        rep.count("xls.opened-with-options");
        calamine::Xls::new_with_options(std::io::Cursor::new(bytes), o).map(calamine::Sheets::Xls).map_err(|e| format!("{e:?}"))
    } else {
        wb::open(bytes, fmt)
    };
    let mut wbk = match opened {
        Ok(w) => w,
        Err(e) => {
            fails.push(("impl_vs_spec".into(), format!("{}:open", fmt.name()), format!("open failed: {e}"), String::new(), "opens".into()));
            return fails;
        }
    };
    let name = case.sheet.name.clone();
    // a reader opened with the option must read under it BEFORE anything sets it again
    if fmt == Fmt::Xls && case.seed % 3 == 0 && !case.options.is_empty() && window_area(&case.sheet, &case.options[0]) <= (1 << 21) {
        match guarded(|| wbk.worksheet_range(&name)) {
            Ok(Ok(r)) => {
                if let Err(why) = oracle(&case.sheet, &case.options[0], &r) {
                    fails.push(("impl_vs_spec".into(), "xls:option-at-construction".into(), format!("{:?}..{:?}", r.start(), r.end()), String::new(), why));
                }
            }
            other => fails.push(("impl_vs_spec".into(), "xls:option-at-construction-read".into(), format!("{:?}", other.map(|x| x.map(|_| ()))), String::new(), "Ok".into())),
        }
    }
    let table: Vec<Data> = {
        let mut t: Vec<Data> = vec![];
        for v in case.sheet.cells.values() {
            let d = v.expected();
            if !t.contains(&d) {
                t.push(d);
            }
        }
        t
    };
    // the default range (input of the eager model)
    let default_dump = match guarded(|| wbk.with_header_row(HeaderRow::FirstNonEmptyRow).worksheet_range(&name)) {
        Ok(Ok(r)) => {
            if let Err(why) = oracle(&case.sheet, &HeaderRow::FirstNonEmptyRow, &r) {
                fails.push(("impl_vs_spec".into(), format!("{}:default", fmt.name()), dump_range(&r, &table), String::new(), why));
            }
            dump_range(&r, &table)
        }
        other => {
            fails.push(("impl_vs_spec".into(), format!("{}:default-read", fmt.name()), format!("{:?}", other.map(|x| x.map(|_| ()))), String::new(), "Ok".into()));
            return fails;
        }
    };
    let stored: Vec<String> = case.sheet.cells.iter().map(|((r, c), v)| format!("{r},{c},{}", code_of(&v.expected(), &table))).collect();
    let stored = if stored.is_empty() { "-".to_string() } else { stored.join(",") };
    for h in &case.options {
        if window_area(&case.sheet, h) > (1 << 21) {
            rep.count("skipped_area_cap");
            continue;
        }
        let class = classify(&case.sheet, h);
        rep.count(&format!("{}.{}", fmt.name(), class));
        let sig = format!("{}:{}", fmt.name(), class);
        let res = guarded(|| wbk.with_header_row(*h).worksheet_range(&name));
        let (impl_dump, range) = match res {
            Ok(Ok(r)) => (dump_range(&r, &table), Some(r)),
            Ok(Err(e)) => (format!("err:{e:?}"), None),
            Err(p) => (format!("panic:{p}"), None),
        };
        // model
        let req = if fmt.lazy() {
            format!("lazy {} {}", hdr_wire(h), stored)
        } else {
            let (rect, vals) = match default_dump.split_once(':') {
                Some((a, b)) => (a.to_string(), b.to_string()),
                None => ("-".to_string(), "-".to_string()),
            };
            format!("eager {} {} {}", hdr_wire(h), rect, vals)
        };
        let model = drv.ask(&req);
        let impl_class = if impl_dump.starts_with("panic") { "panic".to_string() } else { impl_dump.clone() };
        if impl_class != model {
            fails.push(("impl_vs_model".into(), sig.clone(), impl_dump.clone(), model.clone(), String::new()));
        }
        // oracle
        match &range {
            Some(r) => {
                if let Err(why) = oracle(&case.sheet, h, r) {
                    fails.push(("impl_vs_spec".into(), sig.clone(), impl_dump.clone(), model.clone(), why));
                }
            }
            None => fails.push(("impl_vs_spec".into(), sig.clone(), impl_dump.clone(), model.clone(), "the call never panics / errors".into())),
        }
    }
    // the option can be changed back: a final default read equals the first one
    match guarded(|| wbk.with_header_row(HeaderRow::FirstNonEmptyRow).worksheet_range(&name)) {
        Ok(Ok(r)) if dump_range(&r, &table) == default_dump => {}
        other => fails.push((
            "impl_vs_spec".into(),
            format!("{}:change-back", fmt.name()),
            format!("{:?}", other.map(|x| x.map(|r| dump_range(&r, &table)))),
            String::new(),
            default_dump.clone(),
        )),
    }
    fails
}

fn corpus() -> Vec<&'static str> {
    vec![
        // D03: header row after the last row (xls / ods panicked)
        "xls 1 2:1:n1.5,4:2:b1 5,d,4294967295",
        "ods 1 2:1:n1.5,4:2:b1 5,d,4294967295",
        "xlsx 1 2:1:n1.5,4:2:b1 5,d,3,4294967295",
        "xlsb 1 2:1:n1.5,4:2:b1 5,d,3,4294967295",
        // before the first row, in a gap, on a row
        "xls 2 3:0:n2.5,6:3:s61 0,4,3,6,d",
        "ods 2 3:0:n2.5,6:3:s61 0,4,3,6,d",
        "xlsx 2 3:0:n2.5,6:3:s61 0,4,3,6,d",
        "xlsb 2 3:0:n2.5,6:3:s61 0,4,3,6,d",
        // empty sheet
        "xls 3 - 0,7,d",
        "xlsx 3 - 0,7,d",
        "xlsb 3 - 0,7,d",
        "ods 3 - 0,7,d",
    ]
}

fn main() {
    let args = Args::parse();
    let mut drv = Driver::spawn(&args.driver);
    let mut rep = Report::new(
        "C08",
        "generated single-sheet workbooks (0..30 simple cells in a window of <=40x12 placed anywhere the format \
         allows, with empty rows inside; one sheet in three also stores blank valueless cells (BLANK / <c s=/> / \
         BrtCellBlank / empty table-cell), some on rows of their own, which are option candidates; xlsx <dimension> \
         accurate / absent / unrelated / a large stale one that under- or overstates the last row; ods windows up to \
         row 3 000 000 (the format has no row limit); one case in 25 is a TALL sheet of 600..2500 filled rows read under \
         header rows deep inside it) in xls/xlsx/xlsb/ods, each read under 2..7 header-row options drawn from \
         {default, 0, first-1, first, a gap row, last, last+1, 2^20, u32::MAX-1, u32::MAX, random near the data}, options \
         interleaved and changed back; each read checked against the property oracle (emptiness, start row = n, \
         every value at row >= n equals the sheet's, nothing from rows < n) and the Lean windowing model; \
         non-trivial = a non-empty sheet read under at least one explicit row; distinct by case text",
    );
    let mut cases: Vec<Case> = vec![];
    if let Some(inp) = &args.replay {
        cases.push(Case::parse(inp));
    } else {
        for c in corpus() {
            cases.push(Case::parse(c));
        }
        let n = args.count(1200, 50_000);
        let mut rng = Rng::new(args.seed);
        for i in 0..n {
            let fmt = wb::ALL_FORMATS[(i % 4) as usize];
            if i % 25 == 24 {
                // a TALL sheet: hundreds to thousands of filled rows (a sheet part of well over 8 KiB, many records
                // above the header row), read under header rows deep inside it
                let rows = rng.range(600, 2500) as u32;
                let cols = rng.range(1, 3) as u32;
                let r0 = rng.below(4) as u32;
                let mut sheet = LSheet { name: "S".into(), ..Default::default() };
                for r in 0..rows {
                    for c in 0..cols {
                        let v = match (r + c) % 4 {
                            0 => V::Num(0.5 + (r % 7) as f64),
                            1 => V::Str(format!("t{}", r % 5)),
                            2 => V::Bool(r % 2 == 0),
                            _ => V::Num(-1.5),
                        };
                        sheet.cells.insert((r0 + r, c), v);
                    }
                }
                let mut options = vec![];
                for _ in 0..rng.range(2, 4) {
                    let d = *rng.pick(&[1u32, 3, 100, 400, rows / 2, rows - 2, rows - 1, rows, rows + 1]);
                    options.push(if rng.chance(1, 6) { HeaderRow::FirstNonEmptyRow } else { HeaderRow::Row(r0 + d) });
                }
                cases.push(Case { fmt, sheet, options, seed: rng.next() });
                continue;
            }
            let sheet = wb::gen_sheet(&mut rng, fmt, "S", 30);
            let options = gen_options(&mut rng, &sheet);
            cases.push(Case { fmt, sheet, options, seed: rng.next() });
        }
    }
    for case in &cases {
        let text = case.wire();
        let nontrivial = !case.sheet.cells.is_empty() && case.options.iter().any(|h| matches!(h, HeaderRow::Row(_)));
        rep.case(&text, nontrivial);
        for (kind, sig, i, m, e) in run_case(case, &mut drv, &mut rep) {
            rep.fail(&kind, &sig, &text, &i, &m, &e);
        }
    }
    rep.add("driver_requests", drv.requests);
    rep.notes.push("zip / quick-xml / compound-file layers are exercised, not modelled; the model starts at the stored cell list (lazy) or the default range (eager)".into());
    rep.write(&args.out);
}
